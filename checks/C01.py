"""C01 - edit primitives apply exactly the requested string edit and nothing else.

Engine A runs the real ersatz.substitute / insert / delete / multisubstitute / randomize (with the
real utils._validate_input, one_hot_encode, random_one_hot underneath) on symbolic one-hot
batches, symbolic motifs and *unbounded* symbolic integer positions.  Per path the solver must
prove: returned => span inside and output == string-level spec and input untouched;
raised => span not wholly inside (except where the code is documented-stricter).
"""
import itertools
import time

import numpy as np
import z3

from symtm import core, tensor as T, harness
from symtm.core import SInt, ite, s_and, s_or, s_not
from symtm.loader import SymStr
from . import common as C

PROP = "C01"


# ------------------------------------------------------------------ string-level specification
# (one definition, used symbolically by the solver and concretely by the replay)

def sel(seq, i):
    """seq[i] for a possibly symbolic i known to be in range"""
    r = seq[-1]
    for k in range(len(seq) - 2, -1, -1):
        r = ite(i == k, seq[k], r)
    return r


def spec_substitute(x, m, p):
    out = list(x)
    for j in range(len(x)):
        for t in range(len(m)):
            out[j] = ite(p + t == j, m[t], out[j])
    return out


def spec_insert(x, m, p):
    L, w = len(x), len(m)
    out = []
    for j in range(L + w):
        r = None
        for pv in range(L + 1):
            v = x[j] if j < pv else (m[j - pv] if j < pv + w else x[j - w])
            r = v if r is None else ite(p == pv, v, r)
        out.append(r)
    return out


def spec_delete(x, s, e, n_out):
    """x with [s, e) removed; n_out = L - (e - s) is concrete on the path"""
    L = len(x)
    out = []
    for j in range(n_out):
        d = L - n_out
        out.append(ite(j < s, x[j], x[j + d]))
    return out


# ------------------------------------------------------------------ replay on the real build

FUNCS = ("substitute", "insert", "delete", "multisubstitute", "randomize", "validate")


def _alphabet(c):
    """the alphabet handed to the code under test: ALPHA[:A], rotated by c['alpha_rot'] (a non-default ordering of the
    same characters: a call that forgets to forward `alphabet=` then encodes string motifs differently; seed C01-r6m2)"""
    a = list(C.ALPHA[:c["A"]]); k = c.get("alpha_rot", 0) % len(a)
    return a[k:] + a[:k]


def _mk_motif(spec, A, alphabet):
    import torch
    if spec["kind"] == "str":
        return "".join(alphabet[c] for c in spec["chars"][0])
    return C.real_onehot(spec["chars"], A)


def replay(r):
    """returns (violated, detail) on the REAL tangermeme; RNG outcomes are part of the environment,
    so a randomize() counterexample is tried under several seeds"""
    if r["fn"] == "randomize" and "seed" not in r:
        for seed in range(64):
            ok, detail = _replay(dict(r, seed=seed))
            if ok:
                return ok, "seed=%d: %s" % (seed, detail)
        return False, detail
    return _replay(r)


def _replay(r):
    tm = C.real_tangermeme()
    import torch
    from tangermeme import ersatz, utils
    A = r["A"]
    alphabet = _alphabet(r)
    fn = r["fn"]
    if fn == "validate":
        X = torch.tensor(r["X"], dtype=torch.int8)
        try:
            utils._validate_input(X, "X", ohe=True)
            accepted = True
        except ValueError:
            accepted = False
        a = np.array(r["X"])
        is_ohe = bool(np.isin(a, [0, 1]).all() and (a.sum(axis=1) == 1).all())
        return accepted != is_ohe, "accepted=%s one_hot=%s" % (accepted, is_ohe)
    x = r["x"]
    X = C.real_onehot(x, A)
    X0 = X.clone()
    B, L = len(x), len(x[0])
    raised = None
    strs = [m for m in ([r["motif"]] if "motif" in r else r.get("motifs", [])) if m["kind"] == "str"]
    if strs:     # same two-call history as the symbolic harness
        try:
            getattr(ersatz, "substitute" if fn == "multisubstitute" else fn)(C.real_onehot([[0] * L], A), _mk_motif(strs[0], A, alphabet), start=0, alphabet=alphabet[::-1])
        except Exception:
            pass
    try:
        st_ = np.int64(r["start"]) if (r.get("np_start") and r.get("start") is not None) else r.get("start")
        if fn == "substitute":
            Y = ersatz.substitute(X, _mk_motif(r["motif"], A, alphabet), start=st_, alphabet=alphabet)
        elif fn == "insert":
            Y = ersatz.insert(X, _mk_motif(r["motif"], A, alphabet), start=st_, alphabet=alphabet)
        elif fn == "delete":
            Y = ersatz.delete(X, r["start"], r["end"])
        elif fn == "multisubstitute":
            spc = r["spacing"]
            Y = ersatz.multisubstitute(X, [_mk_motif(m, A, alphabet) for m in r["motifs"]], spc, start=r["start"], alphabet=alphabet)
            if isinstance(spc, list):          # second call with the very same list object
                Y = ersatz.multisubstitute(X, [_mk_motif(m, A, alphabet) for m in r["motifs"]], spc, start=r["start"], alphabet=alphabet)
        elif fn == "randomize":
            Y = ersatz.randomize(X, r["start"], r["end"], probs=[[1.0 / A] * A], n=r["n"], random_state=r.get("seed", 0))
    except Exception as e:
        raised = e
    if not torch.equal(X, X0):
        return True, "input tensor was modified"
    exp, inside = expected(r)
    if raised is not None:
        if inside and not r.get("strict_ok"):
            return True, "raised %s: %s although the span lies inside the sequence" % (type(raised).__name__, raised)
        return False, "raised as expected"
    if not inside:
        return True, "returned a result for a span that is not wholly inside the sequence: %s" % (C.real_chars(Y),)
    got = C.real_chars(Y)
    if fn == "randomize":
        for b in range(B):
            for k in range(r["n"]):
                row = got[b][k]
                if len(row) != L or any(c < 0 for c in row):
                    return True, "randomize output is not a valid one-hot of the same length"
                for j in range(L):
                    if not (r["start"] <= j < r["end"]) and row[j] != x[b][j]:
                        return True, "randomize changed position %d outside [start, end)" % j
        return False, "ok"
    if got != exp:
        return True, "got %s expected %s" % (got, exp)
    return False, "ok"


def expected(r):
    """concrete expected output (nested lists) and whether the span is inside"""
    fn = r["fn"]
    x = r["x"]
    L = len(x[0])
    if fn in ("substitute", "insert"):
        m = r["motif"]["chars"]
        w = len(m[0])
        p = r["start"]
        if fn == "substitute":
            inside = 0 <= p and p + w <= L
            if not inside:
                return None, False
            return [spec_substitute(x[b], m[b if len(m) > 1 else 0], p) for b in range(len(x))], True
        inside = 0 <= p <= L
        if not inside:
            return None, False
        return [spec_insert(x[b], m[b if len(m) > 1 else 0], p) for b in range(len(x))], True
    if fn == "delete":
        s, e = r["start"], r["end"]
        inside = 0 <= s < e <= L
        if not inside:
            return None, False
        return [spec_delete(x[b], s, e, L - (e - s)) for b in range(len(x))], True
    if fn == "multisubstitute":
        ms = [m["chars"] for m in r["motifs"]]
        sp = r["spacing"] if isinstance(r["spacing"], list) else [r["spacing"]] * (len(ms) - 1)
        p = r["start"]
        if p is None:
            p = L // 2 - (sum(sp) + sum(len(m[0]) for m in ms)) // 2
        out = [list(row) for row in x]
        inside = all(s >= 0 for s in sp)
        for i, m in enumerate(ms):
            w = len(m[0])
            if not (0 <= p and p + w <= L):
                inside = False
            if inside:
                out = [spec_substitute(out[b], m[b if len(m) > 1 else 0], p) for b in range(len(x))]
            p += w + (sp[i] if i < len(sp) else 0)
        return (out if inside else None), inside
    if fn == "randomize":
        return None, (0 <= r["start"] < r["end"] <= L)
    raise KeyError(fn)


# ------------------------------------------------------------------ symbolic harness

def _motif(ctx, name, kind, MB, A, w, alphabet):
    mc = C.sym_chars(ctx, name, (MB, w), A)
    if kind == "str":
        codes = []
        for t in range(w):
            r = ord(alphabet[-1])
            for k in range(A - 1):
                r = ite(mc[0, t] == k, ord(alphabet[k]), r)
            codes.append(r)
        return SymStr(codes), mc
    return C.onehot_from_chars(mc, A), mc


def worker(cfg):
    fn = cfg["fn"]
    ld, shims = C.fresh_env()
    ers = ld.load("ersatz")
    utils = ld.load("utils")
    stats = core.Stats()
    out = {"violations": [], "samples": []}
    A = cfg["A"]
    alphabet = _alphabet(cfg)

    def report(ctx, model, key, what, extra):
        r = dict(cfg)
        r.update(extra(model))
        out["violations"].append(C.violation(key, what, r, replay))

    def body(ctx):
        if fn == "validate":
            shape = tuple(cfg["shape"])
            a = np.empty(shape, dtype=object)
            for c in np.ndindex(*shape):
                v = z3.Int("v_%s" % "_".join(map(str, c)))
                ctx.assume(z3.And(v >= -1, v <= 2))
                a[c] = SInt(v)
            X = T.Tensor(a, dtype="int8")
            is_ohe = s_and(*[s_or(v == 0, v == 1) for v in a.flat],
                           *[core.s_sum(a[b, :, p]) == 1 for b in range(shape[0]) for p in range(shape[2])])
            ext = lambda m: {"X": C.eval_chars(m, a)}
            try:
                utils._validate_input(X, "X", ohe=True)
            except ValueError:
                m = ctx.prove(s_not(is_ohe), "rejected => not one-hot")
                if m is not None:
                    report(ctx, m, "validate:rejects-one-hot", "_validate_input rejected a valid one-hot tensor", ext)
                return "raised"
            m = ctx.prove(is_ohe, "accepted => one-hot")
            if m is not None:
                report(ctx, m, "validate:accepts-non-one-hot", "_validate_input accepted a tensor that is not one-hot", ext)
            return "returned"

        B, L = cfg["B"], cfg["L"]
        xc = C.sym_chars(ctx, "x", (B, L), A)
        X = C.onehot_from_chars(xc, A)
        snap = X.a.copy()
        start = core.Int("start")
        ins = {}

        def base(m):
            d = {"x": C.eval_chars(m, xc)}
            for k, v in ins.items():
                d[k] = v(m)
            return d

        if fn in ("substitute", "insert"):
            w, MB, kind = cfg["w"], cfg["MB"], cfg["kind"]
            mo, mc = _motif(ctx, "m", kind, MB, A, w, alphabet)
            ins["motif"] = lambda m: {"kind": kind, "chars": C.eval_chars(m, mc)}
            ins["start"] = lambda m: core.model_value(m, start)
            start_arg = core.SNpInt(start.z) if cfg.get("np_start") else start          # numpy.int64 start (from arange / argmax / a DataFrame column)
            if cfg.get("np_start"):
                ctx.assume(s_and(start >= -L - 3, start <= 2 * L + 3))
            call = lambda: getattr(ers, fn)(X, mo, start=start_arg, alphabet=alphabet)
            if fn == "substitute":
                inside = s_and(start >= 0, start + w <= L)
                strict = False
                spec = lambda: np.array([spec_substitute(list(xc[b]), list(mc[b if MB > 1 else 0]), start) for b in range(B)], dtype=object)
            else:
                inside = s_and(start >= 0, start <= L)
                # the guard of insert() is the one of substitute(): starts in (L-w, L] are rejected although
                # prefix+motif+suffix is well defined there; the property only demands rejection of outside spans
                strict = s_and(start > L - w, start <= L)
                spec = lambda: np.array([spec_insert(list(xc[b]), list(mc[b if MB > 1 else 0]), start) for b in range(B)], dtype=object)
        elif fn == "delete":
            end = core.Int("end")
            ins["start"] = lambda m: core.model_value(m, start)
            ins["end"] = lambda m: core.model_value(m, end)
            call = lambda: ers.delete(X, start, end)
            inside = s_and(start >= 0, start < end, end <= L)
            strict = False
            spec = None
        elif fn == "multisubstitute":
            ws, kinds, MBs = cfg["ws"], cfg["kinds"], cfg["MBs"]
            ms, mcs = [], []
            for i, w in enumerate(ws):
                mo, mc = _motif(ctx, "m%d" % i, kinds[i], MBs[i], A, w, alphabet)
                ms.append(mo)
                mcs.append(mc)
            if cfg["spacing"] == "int":
                sp = core.Int("sp")
                sps = [sp] * (len(ws) - 1)
                ins["spacing"] = lambda m: core.model_value(m, sp)
            else:
                sps = [core.Int("sp%d" % i) for i in range(len(ws) - 1)]
                sp = list(sps)
                ins["spacing"] = lambda m: [core.model_value(m, s) for s in sps]
            ins["motifs"] = lambda m: [{"kind": kinds[i], "chars": C.eval_chars(m, mcs[i])} for i in range(len(ws))]
            if cfg["start"] == "none":
                st = None
                ins["start"] = lambda m: None
                p0 = L // 2 - (core.s_sum(sps) + sum(ws)) // 2
            else:
                st = start
                p0 = start
                ins["start"] = lambda m: core.model_value(m, start)
            if cfg["spacing"] == "list":
                # the caller re-uses its spacing list for a second call: same answer (arguments are not consumed)
                call = lambda: (ers.multisubstitute(X, ms, sp, start=st, alphabet=alphabet), ers.multisubstitute(X, ms, sp, start=st, alphabet=alphabet))[1]
            else:
                call = lambda: ers.multisubstitute(X, ms, sp, start=st, alphabet=alphabet)
            conds = [s >= 0 for s in sps]
            p = p0
            pos = []
            for i, w in enumerate(ws):
                pos.append(p)
                conds.append(s_and(p >= 0, p + w <= L))
                if i < len(sps):
                    p = p + w + sps[i]
            inside = s_and(*conds)
            strict = False

            def spec():
                cur = [list(xc[b]) for b in range(B)]
                for i, w in enumerate(ws):
                    cur = [spec_substitute(cur[b], list(mcs[i][b if MBs[i] > 1 else 0]), pos[i]) for b in range(B)]
                return np.array(cur, dtype=object)
        elif fn == "randomize":
            end = core.Int("end")
            n = cfg["n"]
            ins.update(start=lambda m: core.model_value(m, start), end=lambda m: core.model_value(m, end), n=lambda m: n)
            probs = [[core.Fraction(1, A)] * A] if hasattr(core, "Fraction") else [[1.0 / A] * A]
            call = lambda: ers.randomize(X, start, end, probs=T.Tensor(np.array([[1.0 / A] * A], dtype=object), dtype="float32"), n=n, random_state=0)
            inside = s_and(start >= 0, start < end, end <= L)
            # randomize() rejects end == L (its guard is `end >= L`): stricter than the statement demands
            strict = s_and(end == L)
            spec = None

        if cfg.get("kind") == "str" or "str" in cfg.get("kinds", ()):
            # history of length 2: an earlier call with the same motif string but another alphabet / batch must not
            # influence this one (hidden module-level state)
            try:
                Xp = C.onehot_from_chars(np.zeros((1, L), dtype=object), A)
                prim = mo if fn in ("substitute", "insert") else [m_ for m_ in ms if isinstance(m_, str)][0]
                getattr(ers, "substitute" if fn == "multisubstitute" else fn)(Xp, prim, start=0, alphabet=alphabet[::-1])
            except Exception as e:
                if isinstance(e, core.Inconclusive):
                    raise
        try:
            Y = call()
        except Exception as e:
            if isinstance(e, core.Inconclusive):
                raise
            claim = s_or(s_not(inside), strict)
            m = ctx.prove(claim, "raised => span not inside")
            if m is not None:
                report(ctx, m, "%s:rejects-inside-span" % fn, "%s raised (%s) for a span that lies inside the sequence" % (fn, e), base)
            return "raised"
        if not C.same_objects(X.a, snap):
            m = ctx.prove(s_and(*[X.a.flat[i] == snap.flat[i] for i in range(snap.size)]), "input unchanged")
            if m is not None:
                report(ctx, m, "%s:modifies-input" % fn, "%s modified the caller's tensor" % fn, base)
        m = ctx.prove(inside, "returned => span inside")
        if m is not None:
            report(ctx, m, "%s:accepts-outside-span" % fn, "%s returned a result for a span not wholly inside the sequence" % fn, base)
            return "returned"
        if fn == "delete":
            n_out = Y.shape[-1]
            exp = np.array([spec_delete(list(xc[b]), start, end, n_out) for b in range(B)], dtype=object)
            claim = s_and(L - (end - start) == n_out, C.tensor_equals_chars(Y, exp, A))
        elif fn == "randomize":
            cl = [Y.shape == (B, cfg["n"], A, L)]
            if Y.shape == (B, cfg["n"], A, L):
                for b in range(B):
                    for k in range(cfg["n"]):
                        for j in range(L):
                            col = [Y.a[b, k, c, j] for c in range(A)]
                            cl.append(core.s_sum(col) == 1)
                            cl.extend(s_or(v == 0, v == 1) for v in col)
                            same = s_and(*[col[c] == X.a[b, c, j] for c in range(A)])
                            cl.append(s_or(s_and(start <= j, end > j), same))
            claim = s_and(*cl)
        else:
            claim = C.tensor_equals_chars(Y, spec(), A)
        m = ctx.prove(claim, "output == string-level spec")
        if m is not None:
            report(ctx, m, "%s:wrong-output" % fn, "%s output differs from the string-level edit" % fn, base)
        if len(out["samples"]) < 1:
            out["samples"].append({"cfg": cfg, "path": "returned", "path_condition_size": len(ctx.solver.assertions())})
        return "returned"

    core.explore(body, stats=stats, max_paths=cfg.get("max_paths", 5000), reset=ld.restore)
    out["stats"] = stats.as_dict()
    if stats.returned == 0 and not cfg.get("expect_no_return") and not out["violations"]:
        raise core.Inconclusive("no returning path (vacuous harness)")
    return out


def configs(tier):
    cf = []
    if tier == "quick":
        As, Ls, ws, Bs = (2, 4), (1, 3, 5), (1, 2, 3), (1, 2)
    else:
        As, Ls, ws, Bs = (2, 3, 4, 6), (1, 2, 3, 5, 6), (1, 2, 3, 4), (1, 2, 3)
    for fn in ("substitute", "insert"):
        for A, L, w, B in itertools.product(As, Ls, ws, Bs):
            for MB in sorted({1, B}):
                for kind in ("ohe", "str"):
                    if kind == "str" and (MB > 1 or (tier == "quick" and (w > 2 or A > 4 or L > 3))):
                        continue
                    if tier == "quick" and B == 2 and L == 5 and w == 3 and A == 4 and MB == 1:
                        pass
                    cf.append(dict(fn=fn, A=A, L=L, w=w, B=B, MB=MB, kind=kind, expect_no_return=(w > L)))
    for fn in ("substitute", "insert"):
        for L, w in ((3, 1), (3, 2)) if tier == "quick" else ((3, 1), (3, 2), (5, 3), (2, 2)):
            cf.append(dict(fn=fn, A=2, L=L, w=w, B=1, MB=1, kind="ohe", np_start=True))
    for A, L, B in itertools.product(As, Ls, Bs):
        cf.append(dict(fn="delete", A=A, L=L, B=B))
        for n in ((1, 2) if tier == "quick" else (1, 2, 3)):
            if L >= 2:
                cf.append(dict(fn="randomize", A=A, L=L, B=B, n=n))
    ms_sets = [((1, 1), ("ohe", "ohe"), (1, 1)), ((2, 1), ("ohe", "str"), (1, 1)), ((1, 2, 1), ("ohe", "ohe", "ohe"), (1, 1, 1)),
               ((1, 2, 1), ("str", "ohe", "ohe"), (1, 1, 1)), ((2,), ("ohe",), (1,)), ((1,), ("str",), (1,))]       # incl. a list of exactly one motif
    if tier == "thorough":
        ms_sets += [((2, 2), ("ohe", "ohe"), (2, 1)), ((1, 1, 1), ("str", "ohe", "str"), (1, 1, 1)), ((3, 2), ("ohe", "ohe"), (1, 1))]
    for A in (As if tier == "thorough" else (4,)):
        for L in ((5,) if tier == "quick" else (5, 7)):
            for ws_, kinds, MBs in ms_sets:
                for spacing in ("int", "list"):
                    for st in ("sym", "none"):
                        B = max(MBs)
                        cf.append(dict(fn="multisubstitute", A=A, L=L, B=max(B, 1), ws=list(ws_), kinds=list(kinds), MBs=list(MBs), spacing=spacing, start=st, max_paths=20000))
    # string motifs under a non-default ordering of the default characters (every call site has to forward `alphabet=`)
    for ws_, kinds, MBs in [((2, 1), ("ohe", "str"), (1, 1)), ((1, 1), ("str", "str"), (1, 1)), ((1,), ("str",), (1,))]:
        cf.append(dict(fn="multisubstitute", A=4, L=5, B=1, ws=list(ws_), kinds=list(kinds), MBs=list(MBs), spacing="int", start="sym", alpha_rot=1, max_paths=20000))
    for fn in ("substitute", "insert"):
        cf.append(dict(fn=fn, A=4, L=3, w=2, B=1, MB=1, kind="str", alpha_rot=1))
    for shape in ([(1, 2, 1), (1, 2, 2), (1, 3, 2), (2, 2, 1)] if tier == "quick" else [(1, 2, 1), (1, 2, 2), (1, 3, 2), (2, 2, 1), (1, 3, 3), (2, 2, 2)]):
        cf.append(dict(fn="validate", A=shape[1], shape=list(shape)))
    return cf


def main(tier, seed):
    rep = harness.Report(PROP, tier, seed)
    ld, _ = C.fresh_env()
    rep.functions = [ld.func_info("ersatz", f) for f in ("substitute", "insert", "delete", "multisubstitute", "randomize")] + \
                    [ld.func_info("utils", f) for f in ("_validate_input", "one_hot_encode", "_fast_one_hot_encode", "random_one_hot")]
    cf = configs(tier)
    rep.bounds = {"alphabet_sizes": sorted({c["A"] for c in cf}), "max_L": max(c.get("L", 0) for c in cf),
                  "max_batch": max(c.get("B", 1) for c in cf), "positions": "unbounded integers (start, end, spacing)",
                  "motif_widths": sorted({c["w"] for c in cf if "w" in c})}
    rep.assumptions = ["torch/numpy replaced by the object-array environment model (symtm.tensor), validated by replay",
                       "dtype / device handling outside the claim", "numpy RandomState.choice returns an arbitrary index",
                       "insert() rejecting starts in (L-w, L] and randomize() rejecting end == L are accepted (stricter than the statement)"]
    res = harness.run_configs("checks.C01", "worker", cf)
    rep.absorb(res)
    # reachability witness: some returning and some raising path must exist
    rep.witness_ok = rep.stats["returned"] > 0 and rep.stats["raised"] > 0
    # model validation: replay a few concrete cases on the real build through the same oracle
    rep.run_validation(validate_model)
    return harness.finish(rep)


def _shim_run(c):
    """run a concrete case through the REAL source on the environment model"""
    ld, _ = C.fresh_env()
    ers = ld.load("ersatz")
    A = c["A"]
    alphabet = _alphabet(c)
    X = C.onehot_from_chars(np.array(c["x"], dtype=object), A)
    snap = X.a.copy()

    def mot(m):
        if m["kind"] == "str":
            return "".join(alphabet[k] for k in m["chars"][0])
        return C.onehot_from_chars(np.array(m["chars"], dtype=object), A)
    res = {}

    def body(ctx):
        try:
            fn = c["fn"]
            if fn in ("substitute", "insert"):
                Y = getattr(ers, fn)(X, mot(c["motif"]), start=c["start"], alphabet=alphabet)
            elif fn == "delete":
                Y = ers.delete(X, c["start"], c["end"])
            elif fn == "multisubstitute":
                Y = ers.multisubstitute(X, [mot(m) for m in c["motifs"]], c["spacing"], start=c["start"], alphabet=alphabet)
            res["out"] = ("ok", [[int(v) for v in row] for row in Y.a.reshape(-1, Y.shape[-1]).tolist()], list(Y.shape))
        except Exception as e:
            if isinstance(e, core.Inconclusive):
                raise
            res["out"] = ("raised", type(e).__name__)
        res["modified"] = not C.same_objects(X.a, snap)
    core.explore(body)
    return res


def _real_run(c):
    C.real_tangermeme()
    import torch
    from tangermeme import ersatz
    A = c["A"]
    alphabet = _alphabet(c)
    X = C.real_onehot(c["x"], A)
    X0 = X.clone()
    res = {}
    try:
        fn = c["fn"]
        if fn in ("substitute", "insert"):
            Y = getattr(ersatz, fn)(X, _mk_motif(c["motif"], A, alphabet), start=c["start"], alphabet=alphabet)
        elif fn == "delete":
            Y = ersatz.delete(X, c["start"], c["end"])
        elif fn == "multisubstitute":
            Y = ersatz.multisubstitute(X, [_mk_motif(m, A, alphabet) for m in c["motifs"]], c["spacing"], start=c["start"], alphabet=alphabet)
        res["out"] = ("ok", Y.reshape(-1, Y.shape[-1]).to(torch.int64).tolist(), list(Y.shape))
    except Exception as e:
        res["out"] = ("raised", type(e).__name__)
    res["modified"] = not torch.equal(X, X0)
    return res


def validate_model():
    """translation validation of the environment model: the same concrete inputs through (i) the
    real source on real torch and (ii) the real source on the object-array model must agree
    (result, exception type, whether the input was modified) - whatever the code does."""
    n = 0
    cases = []
    for st in (-1, 0, 2, 3, 4, 5, 6):
        cases.append({"fn": "substitute", "A": 4, "x": [[0, 1, 2, 3, 0], [3, 3, 1, 0, 2]], "motif": {"kind": "ohe", "chars": [[3, 3]]}, "start": st})
        cases.append({"fn": "substitute", "A": 4, "x": [[0, 1, 2, 3, 0]], "motif": {"kind": "str", "chars": [[3, 1]]}, "start": st})
        cases.append({"fn": "insert", "A": 4, "x": [[0, 1, 2, 3, 0]], "motif": {"kind": "ohe", "chars": [[3, 2]]}, "start": st})
        cases.append({"fn": "delete", "A": 4, "x": [[0, 1, 2, 3, 0]], "start": st, "end": 4})
        cases.append({"fn": "delete", "A": 3, "x": [[0, 1, 2, 2, 0]], "start": 1, "end": st})
        cases.append({"fn": "multisubstitute", "A": 4, "x": [[0, 1, 2, 3, 0, 1]], "motifs": [{"kind": "ohe", "chars": [[3]]}, {"kind": "str", "chars": [[2, 2]]}], "spacing": 1, "start": st})
        cases.append({"fn": "multisubstitute", "A": 4, "x": [[0, 1, 2, 3, 0, 1]], "motifs": [{"kind": "ohe", "chars": [[3]]}, {"kind": "ohe", "chars": [[2, 2]]}], "spacing": [st], "start": None})
    for c in cases:
        a, b = _shim_run(c), _real_run(c)
        if a != b:
            raise core.Inconclusive("environment model disagrees with real torch on %s: model=%s real=%s" % (c, a, b))
        n += 1
    return n
