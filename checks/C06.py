"""C06 - attributions do not depend on batch size, co-batched examples or call order.

Engine A runs the real deep_lift_shap with a SYMBOLIC batch_size (the solver enumerates every batch size 1 .. n*n_shuffles
and "larger" as paths), symbolic inputs, a symbolic integer random_state and either a symbolic reference tensor or a
reference generator modelled as an uninterpreted function ref(x, seed).  Every output row must be the term obtained by
running the same example alone; permuting / sub-setting the examples permutes / sub-sets the result; shuffle j of an
example is generated with seed random_state + j in every batching.
"""
import itertools
from fractions import Fraction

import numpy as np
import z3

from symtm import core, tensor as T, harness, nn
from symtm.core import ite, s_and, s_or, s_not, s_sum
from . import common as C, dl

PROP = "C06"

_refchar = z3.Function("refchar", z3.IntSort(), z3.IntSort(), z3.IntSort(), z3.IntSort())


def make_refgen(ctx, A, L, log):
    """reference generator: ref(x, seed)[p] = refchar(seed, p, code(x)); called as references(X, n=1, random_state=s)"""
    def refgen(Xb, n=1, random_state=None, **kw):
        rows = []
        for b in range(Xb.shape[0]):
            chars = [s_sum([Xb.a[b, c, p] * c for c in range(A)]) for p in range(L)]
            code = s_sum([chars[p] * (A ** p) for p in range(L)])
            per_n = []
            for k in range(n):
                seed = core.zn(random_state if random_state is not None else -1)
                rc = []
                for p in range(L):
                    v = core.lift(_refchar(seed + k, z3.IntVal(p), core.zn(code)))
                    ctx.assume(s_and(v >= 0, v < A))
                    rc.append(v)
                log.append(("ref", b, random_state))
                per_n.append(rc)
            rows.append(per_n)
        return C.onehot_from_chars(np.array(rows, dtype=object), A, dtype="float32")
    return refgen


# ------------------------------------------------------------------ replay

def replay(r):
    C.real_tangermeme()
    import torch
    from tangermeme.deep_lift_shap import deep_lift_shap
    A, L, B, ns = r["A"], r["L"], r["B"], r["ns"]
    model = dl.real_model(r.get("arch", "dense1"), A, L)
    if r.get("dropout"):
        model = torch.nn.Sequential(torch.nn.Dropout(0.5), *list(model))
        model.train()
        if r.get("root_eval"):
            model.eval()
            model[0].train()
    g = torch.Generator().manual_seed(5)
    seqs = [[int(v) for v in torch.randint(0, A, (L,), generator=g)] for _ in range(B)]
    X = C.real_onehot(seqs, A).double()

    def refgen(Xb, n=1, random_state=None, **kw):
        out = []
        for b in range(Xb.shape[0]):
            code = int((Xb[b].argmax(dim=0) * (A ** torch.arange(L))).sum())
            gg = torch.Generator().manual_seed(1000 * int(random_state) + code)
            per = [torch.nn.functional.one_hot(torch.randint(0, A, (L,), generator=gg), A).T.double() for _ in range(n)]
            out.append(torch.stack(per))
        return torch.stack(out)
    refs_t = torch.stack([torch.stack([refgen(X[b:b + 1], 1, 7 + j)[0, 0] for j in range(ns)]) for b in range(B)])
    if r.get("mode") == "dinuc":
        # the library's own dinucleotide-shuffle references with a builtin / numpy integer seed: repeated calls and every
        # batching must give identical references and attributions
        import numpy
        Xd = C.real_onehot(r["x"], A).double()
        for seed in (numpy.int64(r.get("seed", 7)), numpy.int32(3), int(r.get("seed", 7))) if r.get("seed_kind") == "numpy" else (int(r.get("seed", 7)), 3):
            try:
                a0, r0 = deep_lift_shap(model, Xd, n_shuffles=ns, random_state=seed, batch_size=10 ** 6, device="cpu", return_references=True, warning_threshold=1e9)
                for bs in (1, 2, 3, ns, ns + 1):
                    a1, r1 = deep_lift_shap(model, Xd, n_shuffles=ns, random_state=seed, batch_size=bs, device="cpu", return_references=True, warning_threshold=1e9)
                    if not torch.equal(r0, r1):
                        return True, "random_state=%r (%s): the shuffled references differ between two calls / batch sizes (batch_size=%d)" % (seed, type(seed).__name__, bs)
                    if not torch.allclose(a0, a1, atol=1e-10):
                        return True, "random_state=%r (%s): attributions differ between two calls / batch sizes (batch_size=%d)" % (seed, type(seed).__name__, bs)
            except Exception as e:
                return True, "deep_lift_shap raised %s: %s" % (type(e).__name__, e)
        return False, "ok"
    for mode in ("fn", "tensor"):
        kw = dict(target=r.get("target", 0), device="cpu", hypothetical=r.get("hypothetical", False), raw_outputs=r.get("raw", False), warning_threshold=1e9)
        if mode == "fn":
            kw.update(references=refgen, n_shuffles=ns, random_state=7)
        else:
            kw.update(references=refs_t)
        try:
            base = [deep_lift_shap(model, X[i:i + 1], batch_size=10 ** 6, return_references=True, **(dict(kw, references=refs_t[i:i + 1]) if mode == "tensor" else kw)) for i in range(B)]
            for bs in sorted({r.get("batch_size", 1), 1, 2, 3, ns, ns + 1, B * ns, B * ns + 1}):
                if bs < 1:
                    continue
                a, rf = deep_lift_shap(model, X, batch_size=bs, return_references=True, **kw)
                for i in range(B):
                    if not torch.allclose(a[i], base[i][0][0], atol=1e-10):
                        return True, "%s references, batch_size=%d: attributions of example %d differ from running it alone" % (mode, bs, i)
                    if not torch.equal(rf[i], base[i][1][0]):
                        return True, "%s references, batch_size=%d: references used for example %d differ from running it alone" % (mode, bs, i)
            if r.get("history_ops"):
                b0 = deep_lift_shap(model, X, batch_size=2, **kw)
                other = dl.real_model(r.get("arch", "dense1"), A, L, seed=9)
                act_cls = [type(m_) for m_ in other if not isinstance(m_, (torch.nn.Linear, torch.nn.Conv1d, torch.nn.Flatten, torch.nn.AvgPool1d, torch.nn.MaxPool1d))][0]
                deep_lift_shap(other, X, additional_nonlinear_ops={act_cls: (lambda mod, gi, go: gi)}, **kw)
                b1 = deep_lift_shap(model, X, batch_size=2, **kw)
                if not torch.equal(b0, b1):
                    return True, "%s references: the same call returns different attributions after an intermediate call with additional_nonlinear_ops" % mode
            perm = list(range(B))[::-1]
            a2 = deep_lift_shap(model, X[perm], batch_size=r.get("batch_size", 2), **(dict(kw, references=refs_t[perm]) if mode == "tensor" else kw))
            a1 = deep_lift_shap(model, X, batch_size=r.get("batch_size", 2), **kw)
            for k, i in enumerate(perm):
                if not torch.allclose(a2[k], a1[i], atol=1e-10):
                    return True, "%s references: result depends on the order of the examples" % mode
        except Exception as e:
            return True, "deep_lift_shap raised %s: %s" % (type(e).__name__, e)
    return False, "ok"


# ------------------------------------------------------------------ symbolic harness

def worker(cfg):
    ld, shims = C.fresh_env()
    dls = ld.load("deep_lift_shap")
    dl.install_deferred_any(shims, None)
    NN = shims["torch"].nn
    stats = core.Stats()
    out = {"violations": [], "samples": []}
    if cfg.get("kind") == "lemma_rows":
        return _lemma_rows(cfg, dls, NN, stats, out)
    A, L, B, ns, mode = cfg["A"], cfg["L"], cfg["B"], cfg["ns"], cfg["mode"]

    def body(ctx):
        net = dl.build(cfg.get("arch", "dense1"), A, L, NN=NN)
        if cfg.get("dropout"):
            # a model with a mode-dependent layer that the caller left in training mode (torch's default after construction)
            inner_ = net

            class Wrap(NN.Module):
                def __init__(self):
                    super().__init__()
                    self.drop, self.inner = NN.Dropout(), inner_

                def forward(self, X_, *a):
                    return self.inner(self.drop(X_))
            nn._DROPOUT_CALLS[0] = 0
            net = Wrap()
            net.train()
            if cfg.get("root_mode") == "sym" and not bool(core.Bool("root_in_training_mode")):
                # the caller put the model into eval mode and afterwards a sub-module back into training mode
                net.eval()
                net.drop.train()
                ctx.state["root_eval"] = True
        if cfg.get("x"):
            xc = np.array(cfg["x"], dtype=object)            # concrete sequences (the real dinucleotide shuffle walks them)
        else:
            xc = C.sym_chars(ctx, "x", (B, L), A)
        X = C.onehot_from_chars(xc, A, dtype="float32")
        bs = core.Int("batch_size")
        ctx.assume(s_and(bs >= 1, bs <= B * ns + 1))
        rs = core.SNpInt(z3.Int("random_state")) if cfg.get("seed_kind") == "numpy" else core.Int("random_state")
        ctx.assume(rs >= 0)
        log = []
        kw = dict(target=cfg.get("target", 0), device="cpu", hypothetical=cfg.get("hypothetical", False), raw_outputs=cfg.get("raw", False), return_references=True)
        if mode == "fn":
            refgen = make_refgen(ctx, A, L, log)
            kw.update(references=refgen, n_shuffles=ns, random_state=rs)
            sub = lambda idx: kw
        elif mode == "dinuc":
            # the library's own default reference generator (real dinucleotide_shuffle on the RNG model: every draw is an
            # arbitrary outcome named by the seed it was drawn under), seeded with a builtin or a numpy integer
            kw.update(n_shuffles=ns, random_state=rs)
            sub = lambda idx: kw
        else:
            rc = C.sym_chars(ctx, "r", (B, ns, L), A)
            R = C.onehot_from_chars(rc, A, dtype="float32")
            kw.update(references=R)
            sub = lambda idx: dict(kw, references=R[idx])
        rp = lambda m: dict(cfg, batch_size=core.model_value(m, bs), root_eval=bool(ctx.state.get("root_eval")), seed=(core.model_value(m, rs) if m is not None else 7))
        try:
            before = None
            if cfg.get("history_ops"):
                before, _ = dls.deep_lift_shap(net, X, batch_size=10 ** 6, **kw)
                # call order: an intermediate call with additional_nonlinear_ops (other model) must not change later results
                other = dl.build(cfg.get("arch", "dense1"), A, L, seed=9, NN=NN)
                act_cls = [type(m_) for m_ in other._modules.values() if type(m_).__name__ in nn.ACT_NAMES][0]
                dls.deep_lift_shap(other, X, batch_size=10 ** 6, additional_nonlinear_ops={act_cls: (lambda mod, gi, go: gi)}, **dict(sub(list(range(B))), return_references=False))
            full, refs = dls.deep_lift_shap(net, X, batch_size=bs, **kw)
            singles = [dls.deep_lift_shap(net, X[[i]], batch_size=10 ** 6, **sub([i])) for i in range(B)]
            perm = list(range(B))[::-1]
            pfull, prefs = dls.deep_lift_shap(net, X[perm], batch_size=bs, **sub(perm))
        except Exception as e:
            if isinstance(e, core.Inconclusive):
                raise
            m = ctx.model() if ctx.check() == z3.sat else None
            out["violations"].append(C.violation("dls:raises", "deep_lift_shap raised %s: %s" % (type(e).__name__, e), rp(m), replay))
            return "raised"
        cl, cl_ref = [], []
        shape_ok = full.shape[0] == B and refs.shape[:2] == (B, ns)
        if not shape_ok:
            m = ctx.model() if ctx.check() == z3.sat else None
            out["violations"].append(C.violation("dls:batching-shape", "unexpected output shape %s / %s" % (full.shape, refs.shape), rp(m), replay))
            return "returned"
        for i in range(B):
            a1, r1 = singles[i]
            cl += [full.a[(i,) + c] == a1.a[(0,) + c] for c in np.ndindex(*full.shape[1:])]
            cl_ref += [refs.a[(i,) + c] == r1.a[(0,) + c] for c in np.ndindex(*refs.shape[1:])]
        for k, i in enumerate(perm):
            cl += [pfull.a[(k,) + c] == full.a[(i,) + c] for c in np.ndindex(*full.shape[1:])]
        if before is not None:
            cl += [full.a[c] == before.a[c] for c in np.ndindex(*full.shape)]          # same call before and after another call: identical
        if mode == "fn":
            # shuffle j of example i is ref(x_i, random_state + j) in every batching
            for i in range(B):
                code = s_sum([xc[i, p] * (A ** p) for p in range(L)])
                for j in range(ns):
                    for p in range(L):
                        want = core.lift(_refchar(core.zn(rs + j), z3.IntVal(p), core.zn(code)))
                        for c in range(A):
                            cl_ref.append(refs.a[i, j, c, p] == ite(want == c, 1, 0))
        m = ctx.prove(s_and(*cl_ref), "references used for an example do not depend on the batching")
        if m is not None:
            out["violations"].append(C.violation("dls:references-depend-on-batching", "the references (shuffle j / seed routing) of an example depend on batch size or co-batched examples", rp(m), replay))
            return "returned"
        m, unk = dl.split_prove(ctx, cl, "attributions independent of batch size / order")
        if unk:
            raise core.Inconclusive("%d obligations unknown" % unk)
        if m is not None:
            out["violations"].append(C.violation("dls:attributions-depend-on-batching", "attributions of an example depend on batch size, co-batched examples or order", rp(m), replay))
        if len(out["samples"]) < 2:
            out["samples"].append({"cfg": cfg, "batch_size_on_path": str(ctx.model().eval(bs.z)) if ctx.check() == z3.sat else None})
        return "returned"

    core.explore(body, stats=stats, max_paths=2000, reset=ld.restore)
    out["stats"] = stats.as_dict()
    return out


class FakeModule:
    pass


def _lemma_rows(cfg, dls, NN, stats, out):
    """row independence of the real hook rules on ARBITRARY captured tensors (activation = uninterpreted function): the new
    gradient of a pair (example row, reference row) computed inside a batch of Bp pairs equals the one computed for that pair
    alone.  This is the link the end-to-end runs (integer-valued deltas) cannot exercise: tiny / huge real differences."""
    Bp, n, rule = cfg["Bp"], cfg["n"], cfg["rule"]

    def body(ctx):
        shape = (n,) if rule == "nonlinear" else (1, n)
        f = z3.Function("act_any", z3.RealSort(), z3.RealSort())
        sym = lambda nm, rows: np.array([[core.Real("%s_%d_%d" % (nm, b, k)) for k in range(n)] for b in range(rows)], dtype=object).reshape((rows,) + shape)
        ix, ir = sym("ix", Bp), sym("ir", Bp)
        gin, g = sym("gin", 2 * Bp), sym("g", Bp)

        def run(rows):
            inp = T.Tensor(np.concatenate([ix[rows], ir[rows]]), dtype="float32")
            mod = FakeModule() if rule == "nonlinear" else NN.MaxPool1d(cfg["K"], padding=cfg.get("padding", 0))
            if rule == "nonlinear":
                outp = T.Tensor(np.vectorize(lambda v: core.lift(f(v.z)), otypes=[object])(inp.a), dtype="float32")
            else:
                old = T.GRAD_ENABLED[0]
                T.GRAD_ENABLED[0] = False
                outp = mod(inp)
                T.GRAD_ENABLED[0] = old
            mod.input, mod.output = inp, outp
            if rule == "nonlinear":
                go = np.concatenate([g[rows], g[rows]])
            else:
                Lo = outp.shape[-1]
                go = np.concatenate([g[rows][..., :Lo], g[rows][..., :Lo]])
            gi = np.concatenate([gin[rows], gin[[Bp + r_ for r_ in rows]]])
            fn = dls._nonlinear if rule == "nonlinear" else dls._maxpool
            (new,) = fn(mod, (T.Tensor(gi, dtype="float32"),), (T.Tensor(go, dtype="float32"),))
            return new
        try:
            full = run(list(range(Bp)))
            claims = []
            for b in range(Bp):
                one = run([b])
                for half in (0, 1):
                    for c in np.ndindex(*shape):
                        claims.append(full.a[(half * Bp + b,) + c] == one.a[(half,) + c])
        except Exception as e:
            if isinstance(e, core.Inconclusive):
                raise
            out["violations"].append(C.violation("rule:raises", "%s rule raised %s: %s" % (rule, type(e).__name__, e), dict(cfg, **LEMMA_REPLAY), replay_rows))
            return "raised"
        m, unk = dl.split_prove(ctx, claims, "hook rule is row-wise (pair by pair)")
        if unk:
            raise core.Inconclusive("%d obligations unknown" % unk)
        if m is not None:
            out["violations"].append(C.violation("rule:rows-interfere", "the %s rule's multipliers for one example-reference pair depend on the other pairs in the batch" % rule, dict(cfg, **LEMMA_REPLAY), replay_rows))
        return "returned"
    core.explore(body, stats=stats, max_paths=5000)
    out["stats"] = stats.as_dict()
    return out


LEMMA_REPLAY = dict(A=2, L=3, B=2, ns=2, arch="dense1")


def replay_rows(r):
    """real torch: the hook rule on a batch whose pairs have tiny / huge differences, against each pair alone"""
    C.real_tangermeme()
    import torch
    from tangermeme import deep_lift_shap as D
    g = torch.Generator().manual_seed(3)
    for trial in range(40):
        Bp, n = r["Bp"], r["n"]
        scale = torch.tensor([10.0 ** k for k in torch.randint(-6, 4, (Bp,), generator=g).tolist()], dtype=torch.float64)
        shape = (Bp, n) if r["rule"] == "nonlinear" else (Bp, 1, n)
        ir = torch.randn(shape, generator=g, dtype=torch.float64)
        ix = ir + torch.randn(shape, generator=g, dtype=torch.float64) * scale.reshape((Bp,) + (1,) * (len(shape) - 1))
        mod = torch.nn.ReLU() if r["rule"] == "nonlinear" else torch.nn.MaxPool1d(r["K"], padding=r.get("padding", 0))
        fn = D._nonlinear if r["rule"] == "nonlinear" else D._maxpool

        def run(rows):
            inp = torch.cat([ix[rows], ir[rows]])
            mod.input, mod.output = inp, mod(inp)
            gi = torch.ones_like(inp)
            return fn(mod, (gi,), (torch.cat([go_all[rows], go_all[rows]]),))[0]
        inp_all = torch.cat([ix, ir])
        go_all = torch.randn(mod(inp_all)[:Bp].shape, generator=g, dtype=torch.float64)
        try:
            full = run(list(range(Bp)))
            for b in range(Bp):
                one = run([b])
                if not (torch.allclose(full[b], one[0], atol=1e-12, rtol=1e-9) and torch.allclose(full[Bp + b], one[1], atol=1e-12, rtol=1e-9)):
                    return True, "%s rule: multipliers of pair %d differ between a batch of %d pairs and the pair alone (per-pair difference scales %s)" % (r["rule"], b, Bp, scale.tolist())
        except Exception as e:
            return True, "%s rule raised %s: %s" % (r["rule"], type(e).__name__, e)
    return False, "ok"


def configs(tier):
    q = tier == "quick"
    cf = [dict(mode="fn", A=2, L=2, B=2, ns=2), dict(mode="tensor", A=2, L=2, B=2, ns=2, raw=True), dict(mode="fn", A=2, L=2, B=2, ns=3, hypothetical=True),
          dict(mode="fn", A=2, L=2, B=3, ns=1), dict(mode="tensor", A=2, L=2, B=4, ns=1),
          dict(mode="tensor", A=2, L=2, B=2, ns=1, history_ops=True), dict(mode="tensor", A=2, L=2, B=2, ns=2, dropout=True, root_mode="sym"),
          dict(mode="dinuc", A=2, L=6, B=2, ns=2, x=[[0, 0, 1, 0, 1, 1], [1, 0, 0, 1, 1, 0]], seed_kind="numpy"), dict(mode="dinuc", A=2, L=6, B=2, ns=2, x=[[0, 1, 0, 0, 1, 1], [1, 1, 0, 1, 0, 0]])]
    cf += [dict(kind="lemma_rows", rule="nonlinear", Bp=2, n=2), dict(kind="lemma_rows", rule="maxpool", Bp=2, n=4, K=2)]
    if not q:
        cf += [dict(kind="lemma_rows", rule="nonlinear", Bp=3, n=2), dict(kind="lemma_rows", rule="maxpool", Bp=2, n=3, K=3, padding=1)]
    if not q:
        cf += [dict(mode="fn", A=2, L=3, B=3, ns=2), dict(mode="tensor", A=2, L=2, B=3, ns=3), dict(mode="fn", A=3, L=2, B=2, ns=3, raw=True, arch="conv")]
    return cf


def main(tier, seed):
    rep = harness.Report(PROP, tier, seed)
    ld, _ = C.fresh_env()
    rep.functions = [ld.func_info("deep_lift_shap", f) for f in ("deep_lift_shap", "hypothetical_attributions", "_nonlinear", "_maxpool")]
    cf = configs(tier)
    rep.bounds = {"batch_size": "symbolic Int in [1, n*n_shuffles + 1] - every value is a path (b < n_shuffles, b = k*n_shuffles, b coprime, b > n*n_shuffles)",
                  "examples x shuffles": sorted({(c["B"], c["ns"]) for c in cf if "B" in c}),
                  "rule lemmas": "_nonlinear / _maxpool on arbitrary real tensors of 2..3 pairs x 2..4 elements: per-pair result equals the pair run alone", "outputs": "default / raw / hypothetical, return_references"}
    rep.assumptions = ["reference generator = uninterpreted function of (example, seed); real RNG streams are outside the claim", "random_state = None is not promised and not checked",
                       "model rows are independent (depth-1 networks from the C04/C05 grammar)"]
    rep.absorb(harness.run_configs("checks.C06", "worker", cf))
    rep.witness_ok = rep.stats["returned"] > 0
    return harness.finish(rep)
