"""C15 - sequence representations convert losslessly and invert one another.

Engine A on the real utils.one_hot_encode / _fast_one_hot_encode / characters /
reverse_complement / chunk / unchunk.  Bytes of the sequence are symbolic (0..127), tensor
contents are symbolic, chunk size and overlap are symbolic Ints (enumerated by the solver).
"""
import itertools

import numpy as np
import z3

from symtm import core, tensor as T, harness
from symtm.core import SInt, ite, s_and, s_or, s_not
from symtm.loader import SymStr
from . import common as C

PROP = "C15"


def replay(r):
    C.real_tangermeme()
    import torch
    from tangermeme import utils
    k = r["kind"]
    if k in ("ohe", "roundtrip"):
        s = "".join(chr(c) for c in r["bytes"])
        alphabet, ignore = r["alphabet"], r["ignore"]
        if r.get("history"):
            utils.one_hot_encode("".join(alphabet) + r["history"], alphabet=list(alphabet), ignore=list(ignore) + list(r["history"]))
        try:
            Y = utils.one_hot_encode(s, alphabet=list(alphabet), ignore=list(ignore))
        except ValueError as e:
            ok = all(ch in alphabet or ch in ignore for ch in s)
            return ok, "raised on a string over alphabet+ignore: %s" % e if ok else "raised as expected"
        if not all(ch in alphabet or ch in ignore for ch in s):
            return True, "accepted a character outside alphabet and ignore"
        exp = torch.zeros(len(alphabet), len(s), dtype=torch.int8)
        for p, ch in enumerate(s):
            if ch in alphabet:
                exp[alphabet.index(ch), p] = 1
        if Y.shape != exp.shape or not torch.equal(Y.type(torch.int8), exp):
            return True, "wrong encoding %s" % Y.tolist()
        if k == "roundtrip":
            back = utils.characters(Y, alphabet=list(alphabet), allow_N=True)
            want = "".join(ch if ch in alphabet else "N" for ch in s)
            if back != want:
                return True, "characters(one_hot_encode(%r)) = %r, expected %r" % (s, back, want)
        return False, "ok"
    if k == "rc":
        chars = r["chars"]    # codes index the complement map's keys, -1 = N (unknown)
        cmap = dict(r.get("cmap") or [["A", "T"], ["C", "G"], ["G", "C"], ["T", "A"]])
        keys = list(cmap.keys())
        s = "".join(keys[c] if c >= 0 else "N" for c in chars)
        try:
            rc = utils.reverse_complement(s, complement_map=cmap)
            rr = utils.reverse_complement(rc, complement_map=cmap)
        except ValueError as e:
            return True, "string reverse_complement raised on %r: %s" % (s, e)
        if rr != s:
            return True, "string reverse_complement is not an involution on %r (map %s): %r" % (s, cmap, rr)
        X = C.real_onehot([chars], len(keys))[0]
        Xrc = utils.reverse_complement(X, complement_map=cmap)
        if not torch.equal(utils.reverse_complement(Xrc, complement_map=cmap), X):
            return True, "tensor reverse_complement is not an involution"
        want = utils.one_hot_encode(rc, alphabet=keys, ignore=[] if "N" in keys else ["N"])
        if not torch.equal(Xrc.type(torch.int8), want.type(torch.int8)):
            return True, "tensor and string reverse complements disagree on %r (map %s): string gives %r" % (s, cmap, rc)
        return False, "ok"
    if k == "chunk":
        size, overlap, lengths, Cn = r["size"], r["overlap"], r["lengths"], r["channels"]
        X = [torch.arange(Cn * L, dtype=torch.float64).reshape(Cn, L) + 1000 * i + 0.1 for i, L in enumerate(lengths)]        # not representable in float32
        try:
            ch = utils.chunk(X, size=size, overlap=overlap)
            y = utils.unchunk(ch, lengths=lengths, overlap=overlap)
        except Exception as e:
            return True, "chunk/unchunk raised %s: %s" % (type(e).__name__, e)
        for i, L in enumerate(lengths):
            n = (L - size) // (size - overlap) + 1
            cov = size + (n - 1) * (size - overlap)
            if y[i].shape != (Cn, cov) or not torch.equal(y[i], X[i][:, :cov]):
                return True, "sequence %d (L=%d, %d chunk(s), size=%d, overlap=%d): got shape %s, expected first %d positions" % (i, L, n, size, overlap, tuple(y[i].shape), cov)
        return False, "ok"
    raise KeyError(k)


def _sym_string(ctx, n):
    codes = []
    for i in range(n):
        v = z3.Int("c_%d" % i)
        ctx.assume(z3.And(v >= 0, v <= 127))
        codes.append(SInt(v))
    return SymStr(codes), codes


def worker(cfg):
    ld, shims = C.fresh_env()
    utils = ld.load("utils")
    stats = core.Stats()
    out = {"violations": [], "samples": []}
    kind = cfg["kind"]

    def add(key, what, r):
        out["violations"].append(C.violation(key, what, r, replay))

    def body(ctx):
        if kind in ("ohe", "roundtrip"):
            alphabet, ignore, n = cfg["alphabet"], cfg["ignore"], cfg["n"]
            s, codes = _sym_string(ctx, n)
            in_alpha = [s_or(*[c == ord(a) for a in alphabet]) for c in codes]
            in_ign = [s_or(*[c == ord(a) for a in ignore]) if ignore else False for c in codes]
            rp = lambda m: dict(cfg, bytes=[core.model_value(m, c) for c in codes])
            if cfg.get("history"):
                # an earlier call with the same alphabet and a LARGER ignore set must not change what this call accepts
                utils.one_hot_encode("".join(alphabet) + cfg["history"], alphabet=list(alphabet), ignore=list(ignore) + list(cfg["history"]))
            try:
                Y = utils.one_hot_encode(s, alphabet=list(alphabet), ignore=list(ignore))
            except ValueError as e:
                m = ctx.prove(s_not(s_and(*[s_or(a, b) for a, b in zip(in_alpha, in_ign)])), "raised => some char outside")
                if m is not None:
                    add("one_hot_encode:rejects-valid", "one_hot_encode raised on a string over alphabet+ignore", rp(m))
                return "raised"
            cl = [Y.shape == (len(alphabet), n)]
            cl += [s_or(a, b) for a, b in zip(in_alpha, in_ign)]
            if Y.shape == (len(alphabet), n):
                for p in range(n):
                    for i, a in enumerate(alphabet):
                        cl.append(Y.a[i, p] == ite(codes[p] == ord(a), 1, 0))
            m = ctx.prove(s_and(*cl), "encoding correct")
            if m is not None:
                add("one_hot_encode:wrong-encoding", "one_hot_encode output is not the indicator of byte == alphabet[i]", rp(m))
                return "returned"
            if kind == "roundtrip":
                try:
                    back = utils.characters(Y, alphabet=list(alphabet), allow_N=True)
                except (ValueError, IndexError) as e:
                    m = ctx.model() if ctx.check() == z3.sat else None
                    add("characters:raises", "characters raised on a valid encoding: %s" % e, rp(m))
                    return "returned"
                cl = [len(back) == n]
                for p in range(min(n, len(back))):
                    cl.append(s_or(s_and(in_alpha[p], codes[p] == ord(back[p])), s_and(s_not(in_alpha[p]), back[p] == "N")))
                m = ctx.prove(s_and(*cl), "characters inverts one_hot_encode")
                if m is not None:
                    add("characters:not-inverse", "characters(one_hot_encode(s)) != s with ignored -> N", rp(m))
            if not out["samples"]:
                out["samples"].append({"cfg": cfg, "path": "returned"})
            return "returned"
        if kind == "rc":
            n = cfg["n"]
            cmap = dict(cfg.get("cmap") or [["A", "T"], ["C", "G"], ["G", "C"], ["T", "A"]])
            keys = list(cmap.keys())
            K = len(keys)
            n_ok = "N" not in keys
            ch = C.sym_chars(ctx, "s", (n,), K, lo=-1 if n_ok else 0)
            rp = lambda m: dict(cfg, chars=C.eval_chars(m, ch))
            X = C.onehot_from_chars(ch.reshape(1, n), K)[0]
            comp = {i: keys.index(cmap[k_]) for i, k_ in enumerate(keys)}
            try:
                Xrc = utils.reverse_complement(X, complement_map=cmap)
                Xrr = utils.reverse_complement(Xrc, complement_map=cmap)
            except Exception as e:
                if isinstance(e, core.Inconclusive):
                    raise
                m = ctx.model() if ctx.check() == z3.sat else None
                add("reverse_complement:tensor-raises", "tensor reverse_complement raised: %s" % e, rp(m))
                return "raised"
            cl = [Xrr.shape == X.shape, Xrc.shape == X.shape]
            if Xrr.shape == X.shape and Xrc.shape == X.shape:
                cl += [Xrr.a[c] == X.a[c] for c in np.ndindex(*X.shape)]
                # string spec of the reverse complement: position p holds the complement of char n-1-p
                for p in range(n):
                    src = ch[n - 1 - p]
                    for k in range(K):
                        cl.append(Xrc.a[k, p] == ite(src == [i for i in range(K) if comp[i] == k][0], 1, 0))
            m = ctx.prove(s_and(*cl), "tensor reverse complement")
            if m is not None:
                add("reverse_complement:tensor", "tensor reverse_complement is not the involutive complement-reverse", rp(m))
                return "returned"
            # string form on the same (now concretised) characters
            codes = []
            for c in ch:
                r_ = ord("N") if n_ok else ord(keys[-1])
                for i in range(K - 1, -1, -1):
                    r_ = ite(c == i, ord(keys[i]), r_)
                codes.append(r_)
            s = SymStr(codes)
            try:
                rc = utils.reverse_complement(s, complement_map=cmap)
                rr = utils.reverse_complement(rc, complement_map=cmap)
            except ValueError as e:
                m = ctx.model() if ctx.check() == z3.sat else None
                add("reverse_complement:string-raises", "string reverse_complement raised: %s" % e, rp(m))
                return "returned"
            cl = [len(rc) == n, len(rr) == n]
            code_of = {k_: i for i, k_ in enumerate(keys)}
            if n_ok:
                code_of["N"] = -1
            for p in range(min(n, len(rc), len(rr))):
                cl.append(ch[p] == code_of.get(rr[p], -9))
                k = code_of.get(rc[p], -9)
                # rc[p] must be the complement of the character at n-1-p
                inv = {comp[i]: i for i in comp}
                cl.append(ch[n - 1 - p] == (inv[k] if k >= 0 else k))
            m = ctx.prove(s_and(*cl), "string reverse complement agrees")
            if m is not None:
                add("reverse_complement:string", "string reverse_complement disagrees with the tensor form / is not an involution", rp(m))
            if not out["samples"]:
                out["samples"].append({"cfg": cfg, "string_on_path": rc})
            return "returned"
        if kind == "chunk":
            lengths, Cn = cfg["lengths"], cfg["channels"]
            size = core.Int("size")
            overlap = core.Int("overlap")
            ctx.assume(s_and(size >= 1, size <= min(lengths), overlap >= 0, overlap < size))
            X = [T.Tensor(np.array([[core.Real("x%d_%d_%d" % (i, c, p)) for p in range(L)] for c in range(Cn)], dtype=object), dtype="float64")
                 for i, L in enumerate(lengths)]               # double precision in: every value must come back unrounded
            rp = lambda m: dict(cfg, size=core.model_value(m, size), overlap=core.model_value(m, overlap))
            try:
                chs = utils.chunk(X, size=size, overlap=overlap)
                y = utils.unchunk(chs, lengths=list(lengths), overlap=overlap)
            except (ValueError, IndexError, RuntimeError) as e:
                m = ctx.model() if ctx.check() == z3.sat else None
                add("chunk:raises", "chunk/unchunk raised %s: %s" % (type(e).__name__, e), rp(m))
                return "raised"
            cl = [len(y) == len(lengths)]
            for i, L in enumerate(lengths):
                if i >= len(y):
                    break
                n = (L - size) // (size - overlap) + 1
                cov = size + (n - 1) * (size - overlap)
                cl.append(cov == y[i].shape[-1])
                cl.append(y[i].shape[:-1] == (Cn,))
                if y[i].shape[:-1] == (Cn,):
                    for c in range(Cn):
                        for p in range(min(L, y[i].shape[-1])):
                            cl.append(y[i].a[c, p] == X[i].a[c, p])
            m = ctx.prove(s_and(*cl), "unchunk(chunk(X)) reproduces covered positions")
            if m is not None:
                mm = rp(m)
                ns = [(L - mm["size"]) // (mm["size"] - mm["overlap"]) + 1 for L in lengths]
                key = "unchunk:single-chunk-with-overlap" if (mm["overlap"] > 0 and 1 in ns) else "unchunk:wrong-reconstruction"
                add(key, "unchunk(chunk(X)) does not reproduce the positions covered by complete chunks (chunks per sequence: %s)" % ns, mm)
            if not out["samples"]:
                out["samples"].append({"cfg": cfg, "size": str(ctx.model().eval(size.z)) if ctx.check() == z3.sat else None})
            return "returned"
        raise KeyError(kind)

    core.explore(body, stats=stats, max_paths=40000)
    out["stats"] = stats.as_dict()
    return out


def configs(tier):
    cf = []
    alph = [("ACGT", "N"), ("AC", ""), ("ACGTU", "NX"), ("A", "N"), ("acgt", "n-")]
    if tier == "thorough":
        alph += [("ACGTUVWX", "N"), ("ABC", "XYZ")]
    nmax = 3 if tier == "quick" else 4
    for a, ig in alph:
        for n in range(0, nmax + 1):
            cf.append(dict(kind="ohe", alphabet=a, ignore=ig, n=n))
        for n in range(1, nmax):
            cf.append(dict(kind="roundtrip", alphabet=a, ignore=ig, n=n))
    cf.append(dict(kind="ohe", alphabet="ACGT", ignore="N", n=2, history="XZ"))
    cf.append(dict(kind="roundtrip", alphabet="AC", ignore="", n=2, history="N"))
    for n in range(1, (4 if tier == "quick" else 6)):
        cf.append(dict(kind="rc", n=n))
    maps = [[["A", "T"], ["T", "A"]], [["M", "N"], ["N", "M"]], [["A", "C"], ["C", "A"], ["N", "N"]]]
    if tier == "thorough":
        maps.append([["A", "T"], ["C", "G"], ["G", "C"], ["T", "A"], ["X", "Y"], ["Y", "X"]])
    for cm in maps:
        for n in range(1, (4 if tier == "quick" else 5)):
            cf.append(dict(kind="rc", n=n, cmap=cm))
    ls = [[4], [5, 7], [8, 3, 6], [6, 6]] if tier == "quick" else [[4], [5, 7], [8, 3, 6], [6, 6], [12], [9, 10, 4], [7, 12, 5, 5]]
    for lengths in ls:
        for Cn in (1, 2):
            if tier == "quick" and Cn == 2 and len(lengths) > 2:
                continue
            cf.append(dict(kind="chunk", lengths=lengths, channels=Cn))
    return cf


def validate_model():
    """environment-model validation: concrete chunk/unchunk and encode runs, model vs real torch"""
    C.real_tangermeme()
    import torch
    from tangermeme import utils as ru
    ld, _ = C.fresh_env()
    su = ld.load("utils")
    n = 0
    for size, overlap, lengths in [(3, 0, [7, 4]), (4, 2, [9, 6]), (5, 1, [5, 11]), (3, 2, [3, 8])]:
        Xr = [torch.arange(2 * L, dtype=torch.float64).reshape(2, L) + 100 * i for i, L in enumerate(lengths)]
        Xs = [T.Tensor(x.numpy().astype(object), dtype="float64") for x in Xr]
        res = {}

        def body(ctx):
            try:
                y = su.unchunk(su.chunk(Xs, size=size, overlap=overlap), lengths=list(lengths), overlap=overlap)
                res["s"] = [np.array(t.a.tolist(), dtype=float).tolist() for t in y]
            except Exception as e:
                res["s"] = type(e).__name__
        core.explore(body)
        try:
            yr = ru.unchunk(ru.chunk(Xr, size=size, overlap=overlap), lengths=list(lengths), overlap=overlap)
            rr = [t.tolist() for t in yr]
        except Exception as e:
            rr = type(e).__name__
        if res["s"] != rr:
            raise core.Inconclusive("environment model disagrees with real torch on chunk/unchunk size=%d overlap=%d: %s vs %s" % (size, overlap, res["s"], rr))
        n += 1
    for s in ("ACGTN", "GATTACA", "NNAC"):
        res = {}

        def body2(ctx):
            try:
                res["s"] = (su.one_hot_encode(s).a.tolist(), su.characters(su.one_hot_encode(s), allow_N=True),
                            su.reverse_complement(su.one_hot_encode(s)).a.tolist())
            except (ValueError, IndexError) as e:
                res["s"] = type(e).__name__
        core.explore(body2)
        try:
            real = (ru.one_hot_encode(s).tolist(), ru.characters(ru.one_hot_encode(s), allow_N=True), ru.reverse_complement(ru.one_hot_encode(s)).tolist())
        except (ValueError, IndexError) as e:
            real = type(e).__name__
        if res["s"] != real:
            raise core.Inconclusive("environment model disagrees with real torch on one_hot_encode/characters/reverse_complement(%r): %s vs %s" % (s, res["s"], real))
        n += 1
    return n


def main(tier, seed):
    rep = harness.Report(PROP, tier, seed)
    ld, _ = C.fresh_env()
    rep.functions = [ld.func_info("utils", f) for f in ("one_hot_encode", "_fast_one_hot_encode", "characters", "reverse_complement", "chunk", "unchunk", "_cast_as_tensor", "_validate_input")]
    cf = configs(tier)
    rep.bounds = {"string_length": "0..%d, every byte symbolic in 0..127" % max(c.get("n", 0) for c in cf if c["kind"] == "ohe"),
                  "alphabets": sorted({c["alphabet"] + "|" + c["ignore"] for c in cf if "alphabet" in c}),
                  "chunk": "sequence length sets %s, channels 1..2, every size in [1, min length], every overlap in [0, size) (symbolic, enumerated by the solver)" % [c["lengths"] for c in cf if c["kind"] == "chunk"],
                  "reverse_complement": "lengths 1..%d over ACGTN, all characters symbolic" % max(c["n"] for c in cf if c["kind"] == "rc")}
    rep.assumptions = ["bytes restricted to 0..127 (ASCII); multi-byte UTF-8 outside the claim", "dtype argument / casts outside the claim",
                       "chunk with zero complete chunks (size > length) outside the claim"]
    rep.absorb(harness.run_configs("checks.C15", "worker", cf))
    rep.witness_ok = rep.stats["returned"] > 0 and rep.stats["raised"] > 0
    rep.run_validation(validate_model)
    return harness.finish(rep)
