"""C17 - GC-matched background loci are valid, disjoint from the input and GC-balanced.

Engine A on statement ranges cut from the real match.extract_matching_loci by structural AST
anchors (the GC-bin matching block, the mask construction, the selection loop) and on the real
tiling helpers, with *unbounded* symbolic bin counts / coordinates.  Counterexamples are replayed
through the real extract_matching_loci on a synthetic FASTA whose tiles realise the bin counts.
"""
import ast
import os
import shutil
import tempfile

import numpy as np
import z3

from symtm import core, tensor as T, harness
from symtm.core import SInt, ite, s_and, s_or, s_not, s_sum
from . import common as C

PROP = "C17"


# ------------------------------------------------------------------ replay through the real function

def _tile(gc_num, W):
    return "G" * gc_num + "A" * (W - gc_num)


def replay(r):
    C.real_tangermeme()
    import pandas
    from tangermeme.match import extract_matching_loci
    if r["kind"] != "match":
        return _replay_tiles(r)
    bg, loci = r["bg"], r["loci"]
    n = len(bg)
    W = 2 * (n - 1)                      # tile width; GC fraction i/(n-1) falls into bin i for gc_bin_width = 1/(n-1)
    width = 1.0 / (n - 1)
    d = tempfile.mkdtemp(prefix="c17_")
    try:
        fa = os.path.join(d, "g.fa")
        bg_seq = "".join(_tile(2 * i, W) * bg[i] for i in range(n)) or "A" * W
        pk_seq = "".join(_tile(2 * i, W) * loci[i] for i in range(n)) or "A" * W
        with open(fa, "w") as f:
            f.write(">bg\n%s\n>pk\n%s\n" % (bg_seq, pk_seq))
        rows = [("pk", k * W, (k + 1) * W) for k in range(sum(loci))]
        df = pandas.DataFrame(rows, columns=["chrom", "start", "end"])
        try:
            res = extract_matching_loci(df, fa, in_window=W, out_window=W, gc_bin_width=width, chroms=["bg"], random_state=0, n_jobs=1)
        except Exception as e:
            return True, "extract_matching_loci raised %s: %s" % (type(e).__name__, e)
        got = [0] * n
        seen = set()
        for chrom, s, e in res.values[:, :3]:
            if chrom != "bg" or s % W or e != s + W or e > len(bg_seq):
                return True, "returned locus (%s, %d, %d) is not an aligned tile inside its chromosome" % (chrom, s, e)
            if (chrom, s) in seen:
                return True, "locus returned twice"
            seen.add((chrom, s))
            got[bg_seq[s:e].count("G") // 2] += 1
        for i in range(n):
            if got[i] > bg[i] or got[i] < min(bg[i], loci[i]):
                return True, "GC bin %d received %d loci (eligible background %d, input %d)" % (i, got[i], bg[i], loci[i])
        if sum(got) > sum(loci):
            return True, "more loci returned (%d) than usable input loci (%d)" % (sum(got), sum(loci))
        if sum(got) < sum(loci) and sum(got) < sum(bg):
            return True, "%d of %d input loci went unmatched although %d eligible background tiles remain (bins: background %s, input %s, chosen %s)" % (
                sum(loci) - sum(got), sum(loci), sum(bg) - sum(got), bg, loci, got)
        return False, "ok"
    finally:
        shutil.rmtree(d, ignore_errors=True)


def _replay_e2e(r):
    """the same genome text as a real FASTA file, the model's loci and seed through the real extract_matching_loci, judged by
    a direct re-computation over the text.  With several workers the completion order of the per-chromosome jobs is the
    scheduler's choice: the run is repeated on a variant whose first chromosome is thousands of times longer (it finishes last)."""
    W, recs = _genome(r["genome"])
    variants = [recs]
    if r.get("n_jobs", 1) not in (None, 1) and len(recs) > 1:
        variants.append([(c, sq * 6000 if i == 0 else sq) for i, (c, sq) in enumerate(recs)])
    for k, rc_ in enumerate(variants):
        for rep in range(1 if k == 0 else 3):
            if k == 0:
                bad, detail = _replay_e2e_on(r, W, rc_)
            else:
                # joblib runs sequentially inside the (daemonic) worker processes of the harness: use a fresh process
                import json
                import subprocess
                import sys
                code = ("import sys, json; sys.path[:0] = %r; from checks import C17, common as C; C.real_tangermeme(); "
                        "r = json.loads(sys.argv[1]); W, recs = C17._genome(r['genome']); "
                        "recs = [(c, sq * 6000 if i == 0 else sq) for i, (c, sq) in enumerate(recs)]; "
                        "print('RESULT ' + json.dumps(C17._replay_e2e_on(r, W, recs)))") % ([p_ for p_ in sys.path if p_],)
                pr = subprocess.run([sys.executable, "-c", code, json.dumps(r)], stdout=subprocess.PIPE, stderr=subprocess.PIPE, text=True, timeout=900)
                line = [l for l in pr.stdout.splitlines() if l.startswith("RESULT ")]
                bad, detail = json.loads(line[-1][7:]) if line else (False, "child replay failed: %s" % pr.stderr[-200:])
            if bad:
                return bad, detail + (" (first chromosome lengthened %d-fold so that it completes last)" % 6000 if k else "")
    return False, "ok"


def _replay_e2e_on(r, W, recs):
    import pandas
    from fractions import Fraction as Fr
    from tangermeme import match
    gcw, maxn = r.get("gc_bin_width", 0.5), r.get("max_n_perc", 0.25)
    loci = [tuple(l) for l in r["loci_v"]]
    seqs = dict(recs)
    d = tempfile.mkdtemp(prefix="c17_")
    try:
        fa = os.path.join(d, "g.fa")
        with open(fa, "w") as f:
            for c, sq in recs:
                f.write(">%s\n%s\n" % (c, sq))
        df = pandas.DataFrame(loci, columns=["chrom", "start", "end"])
        chroms = r.get("chroms")
        outs = []
        bw_kw, sig, thr = {}, r.get("signal"), None
        outw = r.get("out_window", W)
        if sig:
            import pyBigWig
            import numpy
            bwp = os.path.join(d, "s.bw")
            bw = pyBigWig.open(bwp, "w")
            bw.addHeader([(c, len(sq)) for c, sq in recs])
            for c, sq in recs:
                bw.addEntries(c, 0, values=[float(v) for v in sig[c]], span=1, step=1)
            bw.close()
            bw_kw = dict(bigwig=bwp, signal_beta=r.get("beta", 0.5))
            big = max(W, outw)
            cnts = []
            for c, a, b in loci:
                mid = a + (b - a) // 2
                if mid - big // 2 < 0 or mid + (big + 1) // 2 > len(seqs[c]):
                    continue
                cnts.append(sum(sig[c][mid - outw // 2:mid + (outw + 1) // 2]))
            thr = float(numpy.quantile(cnts, 0.01)) * r.get("beta", 0.5) if cnts else float("nan")
        for seed in sorted({r.get("seed", 0), 0, 1, 2, 3}) if len(recs[0][1]) < 10000 else [r.get("seed", 0)]:
            for nj in (1, 2):
                try:
                    outs.append((seed, nj, match.extract_matching_loci(df, fa, in_window=W, out_window=r.get("out_window", W), max_n_perc=maxn, gc_bin_width=gcw,
                                                                       chroms=chroms, random_state=seed, n_jobs=nj, **bw_kw)))
                except Exception as e:
                    return True, "extract_matching_loci raised %s: %s" % (type(e).__name__, e)
        eff = chroms if chroms is not None else sorted({l[0] for l in loci})
        wbin = Fr(gcw)
        nb = int(1 / wbin) + 1
        inp, usable = [0] * nb, 0
        for c, a, b in loci:
            mid = a + (b - a) // 2
            lo, hi = mid - W // 2, mid + (W + 1) // 2
            if lo < 0 or hi > len(seqs[c]):
                continue
            win = seqs[c][lo:hi]
            if not Fr(win.count("N"), W) < Fr(maxn):
                continue
            usable += 1
            inp[int((Fr(win.count("G") + win.count("C"), W) + wbin / 2) // wbin)] += 1
        by_seed = {}
        for seed, nj, res in outs:
            rows = [(c, int(a), int(b)) for c, a, b in res.values[:, :3]]
            by_seed.setdefault(seed, []).append(rows)
            if rows != sorted(rows) or len(set(rows)) != len(rows):
                return True, "result not sorted / not distinct: %s" % rows
            got, elig_hi, elig_lo = [0] * nb, [0] * nb, [0] * nb
            for c, sq in recs:
                if c not in eff:
                    continue
                for t in range(len(sq) // W):
                    tile = sq[t * W:(t + 1) * W]
                    if Fr(tile.count("N"), W) > Fr(maxn):
                        continue
                    k = int((Fr(tile.count("G") + tile.count("C"), W) + wbin / 2) // wbin)
                    overl = any(lc == c and t * W < b and (t + 1) * W > a for lc, a, b in loci)
                    touched = any(lc == c and a // W <= t <= b // W for lc, a, b in loci)
                    if sig:
                        tot = sum(sig[c][t * W + (W - outw) // 2:(t + 1) * W - (W - outw + 1) // 2])
                        if not tot <= thr + 1e-9:
                            overl = touched = True
                        elif not tot <= thr - 1e-9 and tot != thr:
                            touched = True           # borderline in floating point: may or may not be eligible
                        # (an EXACT tie - integer-valued track, threshold an exactly representable number - is "not above": eligible)
                    elig_hi[k] += not overl
                    elig_lo[k] += not touched
            for c, a, b in rows:
                if c not in eff or a % W or b != a + W or b > len(seqs[c]):
                    return True, "returned locus (%s, %d, %d) is not an aligned tile inside an allowed chromosome" % (c, a, b)
                tile = seqs[c][a:b]
                if Fr(tile.count("N"), W) > Fr(maxn):
                    return True, "returned tile (%s, %d) has N fraction above max_n_perc" % (c, a)
                if sig and not sum(sig[c][a + (W - outw) // 2:b - (W - outw + 1) // 2]) <= thr + 1e-9:
                    return True, "returned tile (%s, %d, %d) has central signal above signal_beta * robust minimum = %.4g" % (c, a, b, thr)
                if any(lc == c and a < le and b > ls for lc, ls, le in loci):
                    return True, "returned tile (%s, %d, %d) overlaps an input locus (input loci %s)" % (c, a, b, loci)
                got[int((Fr(tile.count("G") + tile.count("C"), W) + wbin / 2) // wbin)] += 1
            for k in range(nb):
                if got[k] < min(inp[k], elig_lo[k]) or got[k] > elig_hi[k]:
                    return True, "GC bin %d received %d loci; usable input %d, eligible background between %d and %d" % (k, got[k], inp[k], elig_lo[k], elig_hi[k])
            if len(rows) > usable or len(rows) < min(usable, sum(elig_lo)):
                return True, "%d loci returned for %d usable input loci and %d eligible background tiles" % (len(rows), usable, sum(elig_lo))
        for seed, lst in by_seed.items():
            if any(x != lst[0] for x in lst):
                return True, "result depends on n_jobs for random_state=%d" % seed
        return False, "ok"
    finally:
        shutil.rmtree(d, ignore_errors=True)


def _replay_tiles(r):
    from tangermeme import match
    if r["kind"] == "e2e":
        return _replay_e2e(r)
    if r["kind"] == "coords":
        tiles = list(match._chrom_coords_generator("c", r["chrom_size"], r["width"]))
        exp = [("c", k * r["width"], (k + 1) * r["width"]) for k in range(r["chrom_size"] // r["width"])]
        return tiles != exp, "tiles %s expected %s" % (tiles[:5], exp[:5])
    if r["kind"] == "resize":
        out = list(match._resize_coords_generator([("c", r["start"], r["end"])], r["width"]))
        c, s, e = out[0]
        mid = r["start"] + (r["end"] - r["start"]) // 2
        bad = (e - s != r["width"]) or not (s <= mid <= e) or (s != mid - r["width"] // 2)
        return bad, "resized to (%d, %d)" % (s, e)
    if r["kind"] == "mask":
        # an end-to-end confirmation of a mask counterexample: a tile overlapping an input locus must never be returned
        import pandas
        W = r["width"]
        n_tiles = r["n_tiles"]
        d = tempfile.mkdtemp(prefix="c17_")
        try:
            fa = os.path.join(d, "g.fa")
            with open(fa, "w") as f:
                f.write(">c\n%s\n" % ("GA" * (W * n_tiles))[:W * n_tiles])
            df = pandas.DataFrame([("c", r["start"], r["end"])], columns=["chrom", "start", "end"])
            try:
                res = match.extract_matching_loci(df, fa, in_window=W, out_window=r.get("out_window", W), gc_bin_width=0.5, random_state=0, n_jobs=1)
            except Exception as e:
                return False, "raised %s" % e
            for chrom, s, e in res.values[:, :3]:
                if s < r["end"] and e > r["start"]:
                    return True, "returned tile [%d, %d) overlaps the input locus [%d, %d)" % (s, e, r["start"], r["end"])
            return False, "ok"
        finally:
            shutil.rmtree(d, ignore_errors=True)
    if r["kind"] == "overmask":
        return _replay_overmask(r)
    if r["kind"] == "signalwin":
        return _replay_signal(r)
    if r["kind"] == "select":
        # end-to-end: every returned locus must be a distinct aligned tile of its bin (checked by the match replay)
        return replay({"kind": "match", "bg": [2, 1, 3], "loci": [2, 1, 3]})
    raise KeyError(r["kind"])


def _replay_overmask(r):
    """two chromosomes with identical tiles; loci only on c: every tile of c2 stays eligible and must be usable"""
    import pandas
    from tangermeme import match
    W = max(2, r["width"])
    d = tempfile.mkdtemp(prefix="c17_")
    try:
        fa = os.path.join(d, "g.fa")
        n_t = 6
        seq = ("G" * (W // 2) + "A" * (W - W // 2)) * n_t
        with open(fa, "w") as f:
            f.write(">c\n%s\n>c2\n%s\n" % (seq, seq))
        rows = [("c", k * W, (k + 1) * W) for k in range(n_t - 1)]
        df = pandas.DataFrame(rows, columns=["chrom", "start", "end"])
        try:
            res = match.extract_matching_loci(df, fa, in_window=W, out_window=W, gc_bin_width=0.5, random_state=0, n_jobs=1)
        except Exception as e:
            return True, "raised %s: %s" % (type(e).__name__, e)
        # eligible background: tile n_t-1 of c (one), all n_t tiles of c2  => min(5 input, 7 eligible) = 5 must be returned
        if len(res) < min(len(rows), n_t + 1):
            return True, "%d loci returned although %d input loci and %d eligible background tiles exist (tiles of c2 wrongly masked)" % (len(res), len(rows), n_t + 1)
        return False, "ok"
    finally:
        shutil.rmtree(d, ignore_errors=True)


def _replay_signal(r):
    """bigwig whose signal sits in the flanks of the input loci: the robust minimum must only see the central out_window"""
    import pandas
    import pyBigWig
    from tangermeme import match
    inw, ow = 20, 10
    d = tempfile.mkdtemp(prefix="c17_")
    try:
        fa, bwp = os.path.join(d, "g.fa"), os.path.join(d, "s.bw")
        n_t = 12
        seq = ("GA" * (inw // 2)) * n_t
        with open(fa, "w") as f:
            f.write(">c\n%s\n" % seq)
        import numpy
        vals = numpy.zeros(len(seq), dtype=numpy.float64)
        loci = [(0, inw), (inw, 2 * inw)]
        for s, e in loci:
            vals[s:e] = 5.0                 # flanks carry a lot of signal
            vals[s + 5:s + 15] = 1.0        # central out_window sums to 10
        for k in range(4, n_t):
            vals[k * inw + 5:k * inw + 15] = 0.7 + 0.1 * (k % 2)      # background tiles: central sum 7..8, above 0.5 * 10
        bw = pyBigWig.open(bwp, "w")
        bw.addHeader([("c", len(seq))])
        bw.addEntries("c", 0, values=[float(v) for v in vals], span=1, step=1)
        bw.close()
        df = pandas.DataFrame([("c", s, e) for s, e in loci], columns=["chrom", "start", "end"])
        try:
            res = match.extract_matching_loci(df, fa, bigwig=bwp, in_window=inw, out_window=ow, gc_bin_width=0.5, signal_beta=0.5, random_state=0, n_jobs=1)
        except Exception as e:
            return True, "raised %s: %s" % (type(e).__name__, e)
        for chrom, s, e in res.values[:, :3]:
            tot = vals[s + 5:s + 15].sum()
            if tot > 0.5 * 10 + 1e-9:
                return True, "returned tile [%d, %d) has central signal %.3g above signal_beta * robust minimum = 5" % (s, e, tot)
        return False, "ok"
    finally:
        shutil.rmtree(d, ignore_errors=True)


# ------------------------------------------------------------------ whole-function harness

E2E_GENOMES = {
    # tile width 4; every tile written by (GC count, N count); gc_bin_width 0.5 -> bins {0: gc 0, 1: gc 1..2 (0.25 rounds down? see _bin), ...}
    "g1": {"W": 4, "chroms": [("c", ["AAAA", "GCAA", "GGCC", "ACGA", "NNNA", "ATTA", "GCGC", "AGCT"], "AT"), ("d", ["CGAT", "TTAA", "GGGC"], "")]},
    "g3": {"W": 4, "chroms": [("c", ["AAAA", "GAAA", "GCAA", "GGCA", "GGCC", "NNAA", "ATTA", "CGAT"], "AT"), ("d", ["TTAG", "GGGC"], "C")]},
    "g2": {"W": 4, "chroms": [("c", ["GATC", "AAAT", "CCGG", "NATA", "GTAC", "TATA"], "A")]},
    # wide tiles (125): N fractions 13/125 = 0.104 and 12/125 = 0.096 straddle max_n_perc = 0.1 only at the third decimal
    "g4": {"W": 125, "chroms": [("c", ["A" * 125, "N" * 13 + "A" * 112, "T" * 60 + "N" * 12 + "A" * 53, "AT" * 62 + "A", "N" * 14 + "T" * 111], "AT")]},
}


def _genome(name):
    g = E2E_GENOMES[name]
    return g["W"], [(c, "".join(t) + tail) for c, t, tail in g["chroms"]]


def _kth_smallest(vals, k):
    """k-th smallest (0-based) of symbolic numbers, by rank counting (independent of the model's sorting network)"""
    out = 0
    taken = False
    for i, v in enumerate(vals):
        less = s_sum([ite(s_or(w < v, s_and(w == v, j < i)), 1, 0) for j, w in enumerate(vals) if j != i] or [0])
        out = out + ite(less == k, v, 0)
    return out


def _e2e_expect(W, recs, loci, chroms, gc_bin_width, max_n_perc, inw, signal=None, outw=None, beta=None, valid_flags=None):
    """independent oracle over the genome text: per GC bin the (symbolic) number of usable input loci, the tiles that may /
    must be available as background.  loci: [(chrom, start, end)] with symbolic coordinates."""
    from fractions import Fraction as Fr
    wbin = Fr(gc_bin_width)
    nb = int(1 / wbin) + 1
    seqs = dict(recs)

    def cnt(seq, lo, hi, chars):
        return s_sum([ite(s_and(lo <= p, p < hi), 1, 0) for p in range(len(seq)) if seq[p] in chars] or [0])
    inp = [0] * nb
    usable = 0
    for c, a, b in loci:
        seq = seqs[c]
        mid = a + (b - a) // 2
        lo, hi = mid - inw // 2, mid + (inw + 1) // 2
        valid = s_and(lo >= 0, hi <= len(seq))
        nfrac_ok = cnt(seq, lo, hi, "N") * Fr(1) < Fr(max_n_perc) * inw
        ok = s_and(valid, nfrac_ok)
        usable = usable + ite(ok, 1, 0)
        gcn = cnt(seq, lo, hi, "GC")
        for k in range(nb):
            # bin k  <=>  floor((gc/inw + w/2) / w) == k
            v = gcn * Fr(1) / inw + wbin / 2
            inp[k] = inp[k] + ite(s_and(ok, v >= wbin * k, v < wbin * (k + 1)), 1, 0)
    thr = None
    if signal is not None:
        from fractions import Fraction as Fr2
        cnts = []
        for (c, a, b), vf in zip(loci, valid_flags):
            if not vf:
                continue
            mid = a + (b - a) // 2
            lo, hi = mid - outw // 2, mid + (outw + 1) // 2
            cnts.append(s_sum([ite(s_and(lo <= p, p < hi), Fr2(signal[c][p]), 0) for p in range(len(signal[c]))]))
        if cnts:
            pos = Fr2(1, 100) * (len(cnts) - 1)
            k0 = int(pos)
            rm = _kth_smallest(cnts, k0) if pos == k0 else _kth_smallest(cnts, k0) + (_kth_smallest(cnts, k0 + 1) - _kth_smallest(cnts, k0)) * (pos - k0)
            thr = rm * Fr2(beta)
        else:
            thr = "nan"                     # no usable input locus: the threshold is NaN and no tile passes the signal filter
    tiles = []
    for c, seq in recs:
        if c not in chroms:
            continue
        for t in range(len(seq) // W):
            tile = seq[t * W:(t + 1) * W]
            nfrac = Fr(tile.count("N"), W)
            if nfrac > Fr(max_n_perc):
                continue
            k = int((Fr(sum(tile.count(x) for x in "GC"), W) + wbin / 2) // wbin)
            overl = s_or(*[s_and(c == lc, t * W < b, (t + 1) * W > a) for lc, a, b in loci if lc == c] or [False])
            touched = s_or(*[s_and(t >= a // W, t <= b // W) for lc, a, b in loci if lc == c] or [False])
            if thr is not None:
                lf, rf = (W - outw) // 2, (W - outw + 1) // 2
                tot = sum(Fr2(x) for x in signal[c][t * W + lf:(t + 1) * W - rf])
                low = (tot <= thr) if not isinstance(thr, str) else False                       # summed signal over the central out_window not above the threshold
                overl, touched = s_or(overl, s_not(low)), s_or(touched, s_not(low))
            tiles.append((c, t, k, overl, touched))
    return nb, inp, usable, tiles


def _e2e(cfg, ld, shims, match, stats, out, add):
    from symtm import env as E
    W, recs = _genome(cfg["genome"])
    DataFrame = shims["pandas"].DataFrame
    gcw, maxn = cfg.get("gc_bin_width", 0.5), cfg.get("max_n_perc", 0.25)
    out["functions"] += [ld.func_info("match", f) for f in ("extract_matching_loci", "_extract_and_filter_chrom", "_calculate_char_perc", "_char_perc_from_coords",
                                                             "_perc_generator", "_sequence_generator", "_loci_coords_generator", "_valid_generator", "_get_chrom_sizes_dict")]
    seqs = dict(recs)

    def body(ctx):
        E.FASTA_REGISTRY["sym.fa"] = list(recs)
        loci = []
        for i, spec in enumerate(cfg["loci"]):
            c = spec[0]
            if spec[1] == "sym":
                a, ln = core.Int("start%d" % i), core.Int("len%d" % i)
                ctx.assume(s_and(a >= 0, ln >= 1, ln <= cfg.get("max_len", 2 * W), a + ln <= len(seqs[c])))
                loci.append((c, a, a + ln))
            else:
                loci.append((c, spec[1], spec[2]))
        df = DataFrame({"chrom": [l[0] for l in loci], "start": [l[1] for l in loci], "end": [l[2] for l in loci]})
        bw_kw, sig, valid_flags = {}, None, None
        if cfg.get("signal"):
            sig = {c: list(v) for c, v in cfg["signal"].items()}
            E.BIGWIG_REGISTRY["sym.bw"] = sig
            bw_kw = dict(bigwig="sym.bw", signal_beta=cfg.get("beta", 0.5))
            # which input loci are inside their chromosome is decided here (one path per outcome)
            big = max(W, cfg.get("out_window", W))
            valid_flags = [bool(s_and(a + (b - a) // 2 - big // 2 >= 0, a + (b - a) // 2 + (big + 1) // 2 <= len(seqs[c]))) for c, a, b in loci]
        chroms = cfg.get("chroms")
        seed = core.Int("seed")
        ctx.assume(seed >= 0)

        def rp(m):
            return dict(cfg, kind="e2e", loci_v=[[c, core.model_value(m, a), core.model_value(m, b)] for c, a, b in loci], seed=core.model_value(m, seed))
        try:
            res = match.extract_matching_loci(df, "sym.fa", in_window=W, out_window=cfg.get("out_window", W), max_n_perc=maxn, gc_bin_width=gcw,
                                              chroms=chroms, random_state=seed, n_jobs=cfg.get("n_jobs", 1), **bw_kw)
        except Exception as e:
            if isinstance(e, core.Inconclusive):
                raise
            m = ctx.model() if ctx.check() == z3.sat else None
            add("e2e:raises", "extract_matching_loci raised %s: %s" % (type(e).__name__, e), rp(m))
            return "raised"
        eff_chroms = chroms if chroms is not None else sorted({l[0] for l in loci})
        nb, inp, usable, tiles = _e2e_expect(W, recs, loci, eff_chroms, gcw, maxn, W, signal=sig, outw=cfg.get("out_window", W), beta=cfg.get("beta", 0.5), valid_flags=valid_flags)
        rows = list(zip(res.data["chrom"], res.data["start"], res.data["end"]))
        rows = [(c, int(a), int(b)) for c, a, b in rows]
        tile_of = {(c, t): (k, overl, touched) for c, t, k, overl, touched in tiles}
        ok_shape = all(c in seqs and a % W == 0 and b == a + W and b <= len(seqs[c]) for c, a, b in rows) and len(set(rows)) == len(rows)
        ok_sorted = rows == sorted(rows)
        cl_valid = [ok_shape, ok_sorted]
        cl_disj, got = [], [0] * nb
        for c, a, b in rows:
            info = tile_of.get((c, a // W))
            if info is None:
                cl_valid.append(False)        # N-rich tile, tile of a chromosome outside `chroms`, or not a tile
                continue
            k, overl, touched = info
            got[k] += 1
            cl_disj.append(s_not(overl))
        elig_hi = [s_sum([ite(overl, 0, 1) for (_, _, k, overl, _) in tiles if k == kk] or [0]) for kk in range(nb)]
        elig_lo = [s_sum([ite(touched, 0, 1) for (_, _, k, _, touched) in tiles if k == kk] or [0]) for kk in range(nb)]
        cl_fill = [s_and(got[kk] >= core.s_min(inp[kk], elig_lo[kk]), got[kk] <= elig_hi[kk]) for kk in range(nb)]
        cl_total = s_and(len(rows) <= usable, len(rows) >= core.s_min(usable, s_sum(elig_lo)))
        for claim, key, what in ((s_and(*cl_valid), "e2e:invalid-locus", "a returned locus is not a distinct aligned tile inside an allowed chromosome with N fraction <= max_n_perc (or the result is not sorted)"),
                                 (s_and(*cl_disj) if cl_disj else True, "e2e:overlaps-input", "a returned tile overlaps an input locus (or its signal is above signal_beta times the robust minimum of the input loci)"),
                                 (s_and(*cl_fill), "e2e:bin-fill", "a GC bin received fewer than min(usable input, eligible background) or more than its eligible background"),
                                 (cl_total, "e2e:total", "more loci returned than usable input loci, or input loci left unmatched although eligible background remains")):
            m = ctx.prove(claim, key)
            if m is not None:
                add(key, what, rp(m))
                return "returned"
        if not out["samples"]:
            out["samples"].append({"cfg": cfg, "rows_on_path": rows})
        return "returned"
    core.explore(body, stats=stats, max_paths=60000, reset=ld.restore)


# ------------------------------------------------------------------ symbolic harness

def _is_assign_to(name):
    return lambda st, text: isinstance(st, ast.Assign) and any(isinstance(t, ast.Name) and t.id == name for t in st.targets)


def _is_for(target, iter_text):
    return lambda st, text: isinstance(st, ast.For) and isinstance(st.target, ast.Name) and st.target.id == target and iter_text in text.split("\n")[0]


def worker(cfg):
    ld, shims = C.fresh_env()
    stats = core.Stats()
    out = {"violations": [], "samples": [], "functions": []}
    kind = cfg["kind"]
    match = ld.load("match")
    numpy_s = shims["numpy"]

    def add(key, what, r):
        out["violations"].append(C.violation(key, what, r, replay))

    if kind == "match":
        block, info = ld.slice_function("match", "extract_matching_loci", _is_assign_to("matched_loci_bin_count"), _is_for("i", "range(n-1, -1, -1)"),
                                        ["bg_bin_count", "loci_bin_count"], ["matched_loci_bin_count", "bg_bin_count", "loci_bin_count"])
        out["functions"].append(info)
        n = cfg["n"]

        def body(ctx):
            bg = [core.Int("bg%d" % i) for i in range(n)]
            lc = [core.Int("loci%d" % i) for i in range(n)]
            for v in bg + lc:
                ctx.assume(v >= 0)
            bg_a = T.NDArray(np.array(bg, dtype=object), dtype="int64")
            lc_a = T.NDArray(np.array(lc, dtype=object), dtype="int64")

            def rp(m, small=True):
                return dict(cfg, bg=[core.model_value(m, v) for v in bg], loci=[core.model_value(m, v) for v in lc])
            matched, bg_left, lc_left = block(bg_a, lc_a)
            mt = [matched.a[i] for i in range(n)]
            cl1 = s_and(*[s_and(mt[i] <= bg[i], mt[i] >= core.s_min(bg[i], lc[i]), mt[i] >= 0) for i in range(n)])
            cl2 = s_sum(mt) <= s_sum(lc)
            cl3 = s_or(s_sum(mt) == s_sum(lc), s_sum(mt) == s_sum(bg))           # unmatched only when the eligible background is exhausted
            cl4 = s_and(*[bg_left.a[i] == bg[i] - mt[i] for i in range(n)], s_sum([lc_left.a[i] for i in range(n)]) == s_sum(lc) - s_sum(mt))
            for claim, key, what in ((cl1, "matching:bin-bounds", "a GC bin received fewer than min(input, background) or more than its background count"),
                                     (cl2, "matching:more-than-input", "more loci matched than input loci"),
                                     (cl4, "matching:bookkeeping", "remaining-count bookkeeping inconsistent"),
                                     (cl3, "matching:unmatched-with-background-left", "input loci stay unmatched although eligible background remains")):
                ctx.stats.obligations += 1
                r_ = ctx.check(s_not(claim))
                if r_ == z3.unsat:
                    ctx.stats.discharged += 1
                    continue
                if str(r_) == "unknown":
                    raise core.Inconclusive("solver unknown")
                # ask for a small counterexample so that the replay genome stays small
                r2 = ctx.check(s_not(claim), s_sum(bg) + s_sum(lc) <= 12)
                m = ctx.model() if r2 == z3.sat else (ctx.model() if ctx.check(s_not(claim)) == z3.sat else None)
                rr = rp(m)
                k2 = key
                if key == "matching:unmatched-with-background-left" and rr["bg"][0] > 0:
                    k2 = "matching:gc-bin-0-never-used-for-spill"
                add(k2, what, rr)
            if not out["samples"]:
                out["samples"].append({"cfg": cfg, "path": "returned"})
            return "returned"
        core.explore(body, stats=stats, max_paths=40000, reset=ld.restore)

    elif kind == "e2e":
        _e2e(cfg, ld, shims, match, stats, out, add)

    elif kind == "coords":
        def body(ctx):
            size, width = core.Int("chrom_size"), core.Int("width")
            ctx.assume(s_and(width >= 1, width <= cfg["max_width"], size >= 0, size <= cfg["max_size"]))
            tiles = list(match._chrom_coords_generator("c", size, width))
            cl = [len(tiles) == size // width]
            for k, (c, s, e) in enumerate(tiles):
                cl.append(s_and(s == k * width, e == (k + 1) * width, e <= size, c == "c"))
            m = ctx.prove(s_and(*cl), "tiles are the aligned tiling inside the chromosome")
            if m is not None:
                add("tiling:wrong-tiles", "tiles are not the aligned, in-chromosome tiling", dict(cfg, chrom_size=core.model_value(m, size), width=core.model_value(m, width)))
            return "returned"
        core.explore(body, stats=stats, max_paths=40000)

    elif kind == "resize":
        def body(ctx):
            s, e, w = core.Int("start"), core.Int("end"), core.Int("width")
            ctx.assume(s_and(s >= 0, e >= s, w >= 1))
            (c, a, b), = list(match._resize_coords_generator([("c", s, e)], w))
            mid = s + (e - s) // 2
            ok = s_and(b - a == w, a == mid - w // 2, a <= mid, mid <= b)
            m = ctx.prove(ok, "resized window is centred with the requested width")
            if m is not None:
                add("tiling:resize", "resized window is not the centred window of the requested width", dict(cfg, start=core.model_value(m, s), end=core.model_value(m, e), width=core.model_value(m, w)))
            cs = core.Int("chrom_size")
            v = match._valid_locus("c", a, b, {"c": cs})
            m = ctx.prove(s_or(s_not(v), s_and(a >= 0, b <= cs)), "_valid_locus => inside")
            if m is not None:
                add("tiling:valid-locus", "_valid_locus accepts a window outside the chromosome", dict(cfg, start=core.model_value(m, s), end=core.model_value(m, e), width=core.model_value(m, w)))
            return "returned"
        core.explore(body, stats=stats)

    elif kind == "mask":
        block, info = ld.slice_function("match", "extract_matching_loci", _is_assign_to("mask"), _is_for("chrom, values", "mask.items()") if False else (lambda st, text: isinstance(st, ast.For) and "mask.items()" in text.split("\n")[0]),
                                        ["loci", "chroms", "in_window", "out_window"], ["mask"])
        out["functions"].append(info)
        W = cfg["width"]

        class Row:
            def __init__(self, chrom, start, end):
                self.chrom, self.start, self.end = chrom, start, end

        class Loci:
            def __init__(self, rows):
                self.rows = rows

            def itertuples(self, index=False):
                return iter(self.rows)

        def body(ctx):
            s, e = core.Int("start"), core.Int("end")
            ctx.assume(s_and(s >= 0, s < e, e <= cfg["max_coord"]))
            t = core.Int("tile")
            ctx.assume(s_and(t >= 0, t <= cfg["max_coord"] // W + 1))
            ow = core.Int("out_window")
            ctx.assume(s_and(ow >= 1, ow <= 3 * W))
            (mask,) = block(Loci([Row("c", s, e), Row("other", 0, 1)]), ["c", "c2"], W, ow)
            tiles = mask["c"]
            in_mask = s_or(*[t == v for v in tiles]) if tiles else False
            overlaps = s_and(t * W < e, (t + 1) * W > s)
            m = ctx.prove(s_or(in_mask, s_not(overlaps)), "a tile outside the mask does not touch the locus")
            if m is not None:
                add("mask:tile-overlapping-input-not-masked", "a background tile overlapping an input locus is not in the exclusion mask",
                    dict(cfg, start=core.model_value(m, s), end=core.model_value(m, e), tile=core.model_value(m, t), n_tiles=cfg["max_coord"] // W + 2,
                         out_window=core.model_value(m, ow)))
            # the mask must not exclude tiles that no input locus of that chromosome comes near (eligible background is not shrunk)
            near = s_and(t >= s // W - 0, t <= e // W)
            m = ctx.prove(s_or(s_not(in_mask), near), "masked tiles are within the tile range of the locus")
            over2 = len(mask.get("c2", ())) > 0
            if m is not None or over2:
                mm = m if m is not None else (ctx.model() if ctx.check() == z3.sat else None)
                add("mask:over-masking", "the exclusion mask covers tiles that no input locus of that chromosome touches (shrinks the eligible background)",
                    dict(cfg, kind="overmask", start=core.model_value(mm, s), end=core.model_value(mm, e), width=W, out_window=core.model_value(mm, ow)))
            ok2 = "other" not in mask
            ctx.stats.obligations += 1
            ctx.stats.discharged += int(ok2)
            if not out["samples"]:
                out["samples"].append({"cfg": cfg, "mask_on_path": sorted(int(v) for v in tiles)})
            return "returned"
        core.explore(body, stats=stats, max_paths=40000)

    elif kind == "signal":
        recorded = []

        def fake_counts(bigwig, coords, num_regions=-1, buffer=False, verbose=False):
            coords = list(coords)
            recorded.append(coords)
            return T.NDArray(np.array([core.Real("cnt%d" % i) for i in range(len(coords))], dtype=object), dtype="float64")

        class Q:
            def __init__(self, v):
                self.v = v

            def item(self):
                return self.v
        block, info = ld.slice_function("match", "extract_matching_loci", _is_assign_to("threshold"),
                                        lambda st, text: isinstance(st, ast.Assign) and "_resize_coords_generator(coords, in_window)" in text,
                                        ["coords", "bigwig", "in_window", "out_window", "signal_beta", "num_regions", "verbose"], ["threshold", "coords"],
                                        extra_globals={"_counts_from_coords": fake_counts})
        out["functions"].append(info)

        def body(ctx):
            del recorded[:]
            inw, ow = core.Int("in_window"), core.Int("out_window")
            ctx.assume(s_and(inw >= 1, ow >= 1, inw >= ow))
            beta = core.Real("signal_beta")
            rows = []
            big = core.s_max(inw, ow)
            for i in range(cfg["n"]):
                mid = core.Int("mid%d" % i)
                ctx.assume(mid >= 0)
                rows.append(("c", mid - big // 2, mid + (big + 1) // 2))       # what the caller passes: loci resized to max(in, out)
            ld.load("match").numpy.nanquantile = lambda a, q: Q(core.Real("robust_min"))
            thr, coords = block(list(rows), "x.bw", inw, ow, beta, len(rows), False)
            cl = [len(recorded) == 1 and len(recorded[0]) == len(rows)]
            if cl[0]:
                for (c0, a0, b0), (c1, a1, b1) in zip(rows, recorded[0]):
                    mid = a0 + (b0 - a0) // 2
                    cl.append(s_and(c0 == c1, b1 - a1 == ow, a1 == mid - ow // 2))       # counts are summed over the centred out_window
            for (c0, a0, b0), (c1, a1, b1) in zip(rows, coords):
                mid = a0 + (b0 - a0) // 2
                cl.append(s_and(b1 - a1 == inw, a1 <= mid, mid <= b1))
            m = ctx.prove(s_and(*cl), "input-locus signal is summed over the centred out_window; GC windows have in_window width")
            if m is not None:
                add("signal:threshold-window", "the robust-minimum signal of the input loci is not computed over their centred out_window", dict(cfg, kind="signalwin"))
            # a threshold that this statement range no longer assigns is judged by the whole-function runs (kind e2e), not here
            m = ctx.prove(thr == core.Real("robust_min") * beta, "threshold = robust minimum * signal_beta") if thr is not None else None
            if m is not None:
                add("signal:threshold-value", "threshold is not signal_beta times the robust minimum", dict(cfg, kind="signalwin"))
            return "returned"
        core.explore(body, stats=stats)

    elif kind == "select":
        block, info = ld.slice_function("match", "extract_matching_loci", _is_assign_to("matched_loci"), lambda st, text: isinstance(st, ast.For) and "range(n)" in text.split("\n")[0],
                                        ["matched_loci_bin_count", "gc_percs", "in_window", "n"], ["matched_loci"])
        out["functions"].append(info)
        W = cfg["width"]
        gc_percs = {0: [("c", 3), ("d", 0)], 1: [("c", 5)], 2: [("c", 1), ("c", 7), ("d", 2)]}

        def body(ctx):
            cnt = [core.Int("m%d" % i) for i in range(3)]
            for i in range(3):
                ctx.assume(s_and(cnt[i] >= 0, cnt[i] <= len(gc_percs[i])))
            (sel,) = block(T.NDArray(np.array(cnt, dtype=object), dtype="int64"), gc_percs, W, 3)
            rows = list(zip(sel["chrom"], sel["start"], sel["end"]))
            ok = len(set(rows)) == len(rows) and all(e == s + W and s % W == 0 for _, s, e in rows)
            ok = ok and all(any((c, s // W) in gc_percs[i] for i in range(3)) for c, s, e in rows)
            m = ctx.prove(s_and(ok, len(rows) == s_sum(cnt)), "selection: distinct aligned tiles from the bins, as many as matched")
            if m is not None:
                add("selection:wrong", "selected loci are not distinct aligned tiles taken from their GC bins", dict(cfg))
            return "returned"
        core.explore(body, stats=stats, max_paths=40000)
    out["stats"] = stats.as_dict()
    return out


def configs(tier):
    q = tier == "quick"
    cf = [dict(kind="match", n=n) for n in ((2, 3, 4) if q else (2, 3, 4, 5))]
    cf.append(dict(kind="coords", max_width=4 if q else 6, max_size=12 if q else 24))
    cf.append(dict(kind="resize"))
    for W in ((1, 3) if q else (1, 2, 3, 5)):
        cf.append(dict(kind="mask", width=W, max_coord=3 * W + 1))
    cf.append(dict(kind="select", width=4))
    cf.append(dict(kind="signal", n=2))
    cf.append(dict(kind="e2e", genome="g2", loci=[("c", "sym")]))
    cf.append(dict(kind="e2e", genome="g2", loci=[("c", "sym"), ("c", 22, 25)], gc_bin_width=0.25, max_n_perc=0.0, max_len=5))
    # demand >= eligible background: every eligible tile is returned, so a wrongly eligible one shows
    cf.append(dict(kind="e2e", genome="g2", loci=[("c", "sym"), ("c", 17, 19), ("c", 21, 23)], max_len=3))
    sig2 = {"c": [1, 1, 1, 1, 0, 2, 1, 0, 3, 0, 1, 2, 1, 0, 0, 4, 0, 1, 1, 3, 2, 1, 0, 1, 2]}
    cf.append(dict(kind="e2e", genome="g2", loci=[("c", "sym"), ("c", 9, 10)], signal=sig2, out_window=2, beta=0.75, max_len=2))
    # in_window - out_window odd: the centred out_window starts (in - out) // 2 bases into the tile
    sig3 = {"c": [0, 1, 0, 0, 3, 0, 0, 0, 0, 1, 0, 0, 2, 0, 0, 0, 0, 0, 0, 1, 4, 0, 0, 0, 0]}
    cf.append(dict(kind="e2e", genome="g2", loci=[("c", "sym"), ("c", 9, 10)], signal=sig3, out_window=3, beta=1.0, max_len=2))
    cf.append(dict(kind="e2e", genome="g2", loci=[("c", "sym"), ("c", 1, 2)], signal=sig3, out_window=1, beta=1.0, max_len=2))
    # wide tiles: demand (3 loci in one tile) exceeds the eligible background, so every tile with N fraction <= 0.1 is returned - and no other
    cf.append(dict(kind="e2e", genome="g4", loci=[("c", "sym"), ("c", 10, 20), ("c", 30, 50), ("c", 60, 70)], max_n_perc=0.1, max_len=3))
    # two chromosomes, two workers: per-chromosome results must be attributed to their own chromosome whatever the completion order
    cf.append(dict(kind="e2e", genome="g1", loci=[("c", 9, 11), ("d", 5, 7)], chroms=["c", "d"], n_jobs=2))
    if not q:
        cf.append(dict(kind="e2e", genome="g1", loci=[("c", "sym"), ("d", 5, 7)], chroms=["c", "d"], max_len=5))
        cf.append(dict(kind="e2e", genome="g3", loci=[("c", "sym"), ("c", "sym")], gc_bin_width=0.25, max_len=4))
        cf.append(dict(kind="e2e", genome="g3", loci=[("d", "sym"), ("c", 9, 14), ("c", 30, 33)], chroms=["c"], gc_bin_width=0.25, max_len=6))
    return cf


def main(tier, seed):
    rep = harness.Report(PROP, tier, seed)
    ld, _ = C.fresh_env()
    rep.functions = [ld.func_info("match", f) for f in ("_chrom_coords_generator", "_resize_coords_generator", "_valid_locus")]
    cf = configs(tier)
    res = harness.run_configs("checks.C17", "worker", cf)
    for r in res:
        for f in r.get("functions", []):
            if f not in rep.functions:
                rep.functions.append(f)
    rep.absorb(res)
    rep.bounds = {"matching_block": "GC bins n in %s, background and input bin counts unbounded non-negative Ints" % [c["n"] for c in cf if c["kind"] == "match"],
                  "tiling": "chrom_size <= %d, width <= %d (tile enumeration); resize/valid: unbounded" % (max(c.get("max_size", 0) for c in cf), max(c.get("max_width", 0) for c in cf)),
                  "mask": "tile widths %s, locus coordinates up to 3*width+1, symbolic tile index" % [c["width"] for c in cf if c["kind"] == "mask"]}
    rep.assumptions = ["statement ranges are cut from extract_matching_loci by structural AST anchors and executed unchanged",
                       "N-fraction and signal filters (numpy float comparisons on file data), n_jobs independence (joblib) and the seeded shuffle order are outside the claim",
                       "replay realises bin counts with a synthetic FASTA (tile GC fraction i/(n-1), gc_bin_width 1/(n-1)) for n in {2, 3, 5}; other n are replayed with the nearest realisable n"]
    rep.witness_ok = rep.stats["returned"] > 0
    return harness.finish(rep)
