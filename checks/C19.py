"""C19 - called seqlets are well-formed spans whose reported statistics match the input.

(a) recursive_seqlets: the extraction loop of the numba kernel _recursive_seqlets is cut from its
    AST and run (engine A) from an *arbitrary* p-value matrix satisfying the invariant that the
    preceding p-value loop establishes (itself checked on the real loop with havoc'd CDF tables);
    X is symbolic, the threshold is a symbolic Real in (0, 1).
(b) tfmodisco_seqlets: its statement ranges before and after the threshold statistics (window sums; thresholding,
    the real _iterative_extract_seqlets, attribution/DataFrame assembly) with the thresholds arbitrary reals.
"""
import ast
import math

import numpy as np
import z3

from symtm import core, tensor as T, harness
from symtm.core import SInt, ite, s_and, s_or, s_not, s_sum
from . import common as C

PROP = "C19"


# ------------------------------------------------------------------ replay: real build on crafted tracks

def _check_recursive(X, df, min_len, max_len, flanks, threshold):
    l = X.shape[1]
    prev = -1.0
    for _, row in df.iterrows():
        i, s, e, attr, p = int(row["example_idx"]), int(row["start"]), int(row["end"]), float(row["attribution"]), float(row["p-value"])
        if not (0 <= i < X.shape[0]):
            return "invalid example index %d" % i
        if not (0 <= s < e <= l):
            return "seqlet [%d, %d) does not lie inside its example (length %d)" % (s, e, l)
        if abs(attr - float(X[i, s:e].sum())) > 1e-6 * max(1.0, abs(attr)):
            return "seqlet (%d, %d, %d) reports attribution %.6g but the input sums to %.6g over its span" % (i, s, e, attr, float(X[i, s:e].sum()))
        if p > threshold:
            return "p-value %.4g above threshold" % p
        if p < prev:
            return "table not sorted by p-value"
        prev = p
        if e - s < min_len or e - s > max_len + 2 * flanks:
            return "seqlet length %d outside [%d, %d] (+ flanks)" % (e - s, min_len, max_len)
    return None


def replay(r):
    C.real_tangermeme()
    import torch
    from tangermeme import seqlet as rs
    if r["kind"] == "numpy_input":
        g = np.random.RandomState(0)
        X = g.normal(0, 0.05, size=(2, 60))
        X[0, 10:16] += 3.0
        X0 = X.copy()
        try:
            df = rs.recursive_seqlets(X, threshold=0.05, min_seqlet_len=4, max_seqlet_len=8)
        except Exception as e:
            return True, "recursive_seqlets raised %s: %s" % (type(e).__name__, e)
        if not np.array_equal(X, X0):
            return True, "recursive_seqlets modified the numpy attribution array it was given"
        bad = _check_recursive(X0, df, 4, 8, 0, 0.05)
        return (bad is not None), (bad or "ok")
    if r["kind"] in ("extract", "pvalue", "wrapper"):
        mn, mx, fl = r["min_len"], r["max_len"], r["flanks"]
        thr = 0.05
        for seed in range(24):
            g = np.random.RandomState(seed)
            X = g.normal(0, 0.05, size=(3, 60))
            w = max(mn + 1, min(mx - 1, 6)) if seed < 6 else mn + (seed % (mx - mn + 2))
            gap = 1 if seed < 6 else (seed // 6)          # distance of the bumps from the two ends of the example: 1, 1, 2, 3
            X[0, gap:gap + w] += 3.0              # bump next to position 0
            X[1, 60 - w - gap:60 - gap] += 3.0    # bump next to the end
            X[2, 25:25 + w] -= 3.0
            try:
                df = rs.recursive_seqlets(torch.from_numpy(X), threshold=thr, min_seqlet_len=mn, max_seqlet_len=mx, additional_flanks=fl)
            except Exception as e:
                return True, "recursive_seqlets raised %s: %s" % (type(e).__name__, e)
            bad = _check_recursive(X, df, mn, mx, fl, thr)
            if bad:
                return True, "seed %d, flanks %d: %s" % (seed, fl, bad)
        return False, "ok"
    if r["kind"] == "tfmodisco":
        ws, fl = r["window"], r["flank"]
        for seed in range(6):
            g = np.random.RandomState(seed)
            X = g.normal(0, 0.05, size=(3, 80)).astype(np.float32)
            X[0, fl + 1:fl + 1 + ws] += 2.0
            X[1, 80 - fl - ws - 1:80 - fl - 1] += 2.0
            X[2, 30:30 + ws] -= 2.0
            X[2, 30 + ws + 2:30 + 2 * ws + 2] += 1.5
            off = seed % (fl + 2)
            X[1, 80 - ws - off:80 - off] += 3.0            # a strong window at / next to the very end of the example
            Xt = torch.from_numpy(X.copy())
            try:
                df = rs.tfmodisco_seqlets(Xt, window_size=ws, flank=fl)
            except Exception as e:
                return True, "tfmodisco_seqlets raised %s: %s" % (type(e).__name__, e)
            if not np.array_equal(Xt.numpy(), X):
                return True, "attribution tensor modified"
            sup = int(0.5 * ws) + fl
            rows = [(int(a), int(b), int(c), float(d)) for a, b, c, d in df.values]
            for (i, s, e, attr) in rows:
                if e - s != ws + 2 * fl or s < 0 or e > X.shape[1]:
                    return True, "seqlet (%d, %d, %d) does not span window+2*flank inside its example" % (i, s, e)
                if abs(attr - float(X[i, s + fl:s + fl + ws].sum())) > 1e-4:
                    return True, "seqlet (%d, %d, %d) attribution %.5g != central-window sum %.5g" % (i, s, e, attr, float(X[i, s + fl:s + fl + ws].sum()))
            for a in rows:
                for b in rows:
                    if a is not b and a[0] == b[0] and abs(a[1] - b[1]) < sup:
                        return True, "two seqlets of example %d start %d apart (< suppression radius %d)" % (a[0], abs(a[1] - b[1]), sup)
        return False, "ok"
    raise KeyError(r["kind"])


# ------------------------------------------------------------------ symbolic harness

def _for_over(text_start):
    return lambda st, text: isinstance(st, ast.For) and text.split("\n")[0].strip().startswith(text_start)


def worker(cfg):
    ld, shims = C.fresh_env()
    stats = core.Stats()
    out = {"violations": [], "samples": [], "functions": []}
    kind = cfg["kind"]
    numpy_s = shims["numpy"]

    def add(key, what, r):
        out["violations"].append(C.violation(key, what, r, replay))

    if kind in ("extract", "pvalue"):
        mn, mx, fl, l = cfg["min_len"], cfg["max_len"], cfg["flanks"], cfg["l"]
        outer = lambda n, text: isinstance(n, ast.For) and text.split("\n")[0].strip() == "for i in range(n):" and "p_value[j].argmin()" in text
        if kind == "pvalue":
            class Havoc:
                """CDF tables: any lookup returns an arbitrary value in [0, 1]"""
                def __init__(self, ctx):
                    self.ctx, self.k = ctx, 0

                def __getitem__(self, key):
                    self.k += 1
                    v = core.Real("cdf_%d" % self.k)
                    self.ctx.assume(s_and(v >= 0, v <= 1))
                    return v

            class FakeMath:
                @staticmethod
                def floor(x):
                    return 0
            blk, info = ld.slice_function("seqlet", "_recursive_seqlets", _for_over("for j in range(min_seqlet_len, max_seqlet_len+1):"),
                                          _for_over("for j in range(min_seqlet_len, max_seqlet_len+1):"),
                                          ["i", "p_value", "X_csum", "X_cdfs", "xmaxs", "xmins", "min_seqlet_len", "max_seqlet_len", "l"], ["p_value"],
                                          within=outer, extra_globals={"math": FakeMath})
            out["functions"].append(info)

            def body(ctx):
                pv = np.empty((mx + 1, l), dtype=object)
                for c in np.ndindex(*pv.shape):          # arbitrary state left by the previous example
                    v = core.Real("p_%d_%d" % c)
                    ctx.assume(s_and(v >= 0, v <= 1))
                    pv[c] = v
                    if c[1] == 0 or c[1] >= l - c[0] or c[0] < mn:
                        pv[c] = 1                        # never written by any example
                xs = np.array([[core.Real("x%d" % t) for t in range(l)]], dtype=object)
                csum = np.cumsum(xs, axis=1)
                one = T.NDArray(np.ones((mx + 1,), dtype=object), dtype="float64")
                (res,) = blk(0, T.NDArray(pv, dtype="float64"), T.NDArray(csum, dtype="float64"), Havoc(ctx), one, one, mn, mx, l)
                cl = []
                for j in range(mx + 1):
                    for k in range(l):
                        v = res.a[j, k]
                        cl.append(s_and(v >= 0, v <= 1))
                        if k == 0 or k >= l - j or j < mn:
                            cl.append(v == 1)
                        if j > mn and 1 <= k < l - j:
                            cl.append(v >= res.a[j - 1, k])
                m = ctx.prove(s_and(*cl), "p-value matrix invariant after the p-value loop")
                if m is not None:
                    add("recursive:pvalue-invariant", "the p-value loop does not establish the invariant the extraction relies on (entries in [0,1], untouched cells 1, monotone in length)", dict(cfg))
                return "returned"
            core.explore(body, stats=stats, max_paths=20000)
            out["stats"] = stats.as_dict()
            return out

        blk, info = ld.slice_function("seqlet", "_recursive_seqlets", _for_over("for j in range(max_seqlet_len - min_seqlet_len):"),
                                      _for_over("for j in range(max_seqlet_len - min_seqlet_len):"),
                                      ["i", "p_value", "X_csum", "seqlets", "threshold", "min_seqlet_len", "max_seqlet_len", "additional_flanks", "l"], ["seqlets"],
                                      within=outer)
        out["functions"].append(info)

        def body(ctx):
            thr = core.Real("threshold")
            ctx.assume(s_and(thr > 0, thr < 1))
            pv = np.empty((mx + 1, l), dtype=object)
            for c in np.ndindex(*pv.shape):
                j, k = c
                if k == 0 or k >= l - j or j < mn:
                    pv[c] = 1
                    continue
                v = core.Real("p_%d_%d" % c)
                ctx.assume(s_and(v >= 0, v <= 1))
                pv[c] = v
            for j in range(mn + 1, mx + 1):
                for k in range(1, l - j):
                    ctx.assume(pv[j, k] >= pv[j - 1, k])
            xs = [core.Real("x%d" % t) for t in range(l)]
            csum = np.cumsum(np.array([xs], dtype=object), axis=1)
            try:
                (seqs,) = blk(0, T.NDArray(pv, dtype="float64"), T.NDArray(csum, dtype="float64"), [], thr, mn, mx, fl, l)
            except IndexError as e:
                m = ctx.model() if ctx.check() == z3.sat else None
                add("recursive:out-of-bounds-read", "the extraction loop indexes outside an array (undefined behaviour in the compiled kernel): %s" % e, dict(cfg))
                return "raised"
            for (i, st, en, attr, p) in seqs:
                inside = s_and(st >= 0, st < en, en <= l)
                m = ctx.prove(inside, "seqlet inside its example")
                if m is not None:
                    add("recursive:span-outside", "a seqlet does not lie inside its example", dict(cfg, start=core.model_value(m, st), end=core.model_value(m, en)))
                    continue
                m = ctx.prove(s_and(en - st >= mn, en - st <= mx + 2 * fl), "seqlet length")
                if m is not None:
                    add("recursive:length", "seqlet length outside [min, max] (+ flanks)", dict(cfg, start=core.model_value(m, st), end=core.model_value(m, en)))
                m = ctx.prove(p <= thr, "p-value <= threshold")
                if m is not None:
                    add("recursive:p-above-threshold", "reported p-value above the threshold", dict(cfg))
                # attribution == sum of the input over [start, end)
                tot = s_sum([ite(s_and(st <= t, en > t), xs[t], 0) for t in range(l)])
                m = ctx.prove(attr == tot, "attribution == sum over the span")
                if m is not None:
                    sv = core.model_value(m, st)
                    key = "recursive:attribution-at-position-0" if sv == 0 else "recursive:attribution"
                    add(key, "reported attribution is not the sum of the input over [start, end) (start=%s)" % sv, dict(cfg, start=sv, end=core.model_value(m, en)))
            if not out["samples"] or len(out["samples"]) < 2:
                out["samples"].append({"cfg": cfg, "seqlets_on_path": len(seqs)})
            return "returned"
        core.explore(body, stats=stats, max_paths=cfg.get("max_paths", 60000))
        out["stats"] = stats.as_dict()
        return out

    if kind == "prefix":
        l, nrows = cfg["l"], 2
        blk, info = ld.slice_function("seqlet", "_recursive_seqlets", lambda st, text: isinstance(st, ast.Assign) and text.startswith("X_csum"),
                                      lambda st, text: isinstance(st, ast.For) and "X_csum[i, j]" in text, ["X", "n", "l"], ["X_csum"])
        out["functions"].append(info)

        def body(ctx):
            xs = np.array([[core.Real("x_%d_%d" % (i, t)) for t in range(l)] for i in range(nrows)], dtype=object)
            X = T.NDArray(xs.copy(), dtype="float64")
            snap = X.a.copy()
            (cs,) = blk(X, nrows, l)
            cl = [cs.a[i, j] == s_sum(list(xs[i, :j + 1])) for i in range(nrows) for j in range(l)]
            m = ctx.prove(s_and(*cl), "cumulative sums")
            if m is not None:
                add("recursive:prefix-sums", "X_csum is not the row-wise prefix sum of the input", dict(cfg, kind="numpy_input", min_len=4, max_len=8, flanks=0))
            if not C.same_objects(X.a, snap) and ctx.prove(s_and(*[X.a.flat[q] == snap.flat[q] for q in range(snap.size)]), "input unchanged") is not None:
                add("recursive:modifies-input", "the kernel overwrites the attribution array it is given", dict(cfg, kind="numpy_input", min_len=4, max_len=8, flanks=0))
            return "returned"
        core.explore(body, stats=stats)
        out["stats"] = stats.as_dict()
        return out

    if kind == "wrapper":
        sq = ld.load("seqlet")
        n = cfg["n"]

        def body(ctx):
            ps = [core.Real("p%d" % i) for i in range(n)]
            rows = [(i % 2, i, i + 3, core.Real("a%d" % i), ps[i]) for i in range(n)]
            sq._recursive_seqlets = lambda X, *a: list(rows)
            X = T.Tensor(np.zeros((2, 8), dtype=object), dtype="float32")
            df = sq.recursive_seqlets(X)
            got = df.data["p-value"]
            ok = s_and(*[got[i] <= got[i + 1] for i in range(n - 1)])
            m = ctx.prove(ok, "sorted by p-value")
            if m is not None:
                add("recursive:not-sorted", "table is not sorted by ascending p-value", dict(cfg, min_len=4, max_len=8, flanks=0))
            # rows are a permutation of the kernel's rows
            ctx.stats.obligations += 1
            keys = sorted((int(a), int(b)) for a, b in zip(df.data["example_idx"], df.data["start"]))
            if keys == sorted((r_[0], r_[1]) for r_ in rows):
                ctx.stats.discharged += 1
            else:
                add("recursive:rows-lost", "wrapper lost or duplicated seqlets", dict(cfg, min_len=4, max_len=8, flanks=0))
            return "returned"
        core.explore(body, stats=stats, max_paths=20000)
        out["stats"] = stats.as_dict()
        return out

    if kind == "tfmodisco":
        sq = ld.load("seqlet")
        ws, fl, L, B = cfg["window"], cfg["flank"], cfg["L"], cfg["B"]
        out["functions"].append(ld.func_info("seqlet", "_iterative_extract_seqlets"))
        asg = lambda name: (lambda st, text: isinstance(st, ast.Assign) and any(isinstance(t_, ast.Name) and t_.id == name for t_ in st.targets))
        p1, i1 = ld.slice_function("seqlet", "tfmodisco_seqlets", asg("suppress"), asg("X_sum"), ["X_attr", "window_size", "flank"], ["suppress", "X_sum"])
        p2, i2 = ld.slice_function("seqlet", "tfmodisco_seqlets", asg("idxs"), asg("seqlets"), ["X_sum", "pos_threshold", "neg_threshold", "window_size", "flank", "suppress"], ["seqlets"])
        p3, i3 = ld.slice_function("seqlet", "tfmodisco_seqlets", asg("seqlets_"), lambda st, text: isinstance(st, ast.Return), ["seqlets", "X_attr", "window_size"], None)
        out["functions"] += [i1, i2, i3]

        def body(ctx):
            pos_t, neg_t = core.Real("pos_threshold"), core.Real("neg_threshold")
            ctx.assume(s_and(pos_t > 0, neg_t < 0))
            xs = np.array([[core.Real("x_%d_%d" % (b, t)) for t in range(L)] for b in range(B)], dtype=object)
            X = T.Tensor(xs.copy(), dtype="float32")
            snap = X.a.copy()
            try:
                sup, X_sum = p1(X, ws, fl)
                (seqlets,) = p2(X_sum, pos_t, neg_t, ws, fl, sup)
                df = p3(seqlets, X, ws)
            except Exception as e:
                if isinstance(e, core.Inconclusive):
                    raise
                add("tfmodisco:raises", "tfmodisco_seqlets (extraction part) raised %s: %s" % (type(e).__name__, e), dict(cfg))
                return "raised"
            rows = list(zip(df.data["example_idx"], df.data["start"], df.data["end"], df.data["attribution"]))
            cl = [sup == int(0.5 * ws) + fl]
            for (i, s, e, attr) in rows:
                i = int(i)
                cl.append(s_and(e - s == ws + 2 * fl, s >= 0, e <= L))
                cl.append(attr == s_sum([ite(s_and(s + fl <= t, t < s + fl + ws), xs[i, t], 0) for t in range(L)]))
            for a in range(len(rows)):
                for b in range(a + 1, len(rows)):
                    if int(rows[a][0]) == int(rows[b][0]):
                        d = rows[a][1] - rows[b][1]
                        cl.append(s_or(d >= sup, -d >= sup))
            m = ctx.prove(s_and(*cl), "tfmodisco seqlets well-formed")
            if m is not None:
                add("tfmodisco:malformed", "a tfmodisco seqlet is not a window+2*flank span inside its example with the central-window sum, or two seqlets are closer than the suppression radius", dict(cfg))
            if not C.same_objects(X.a, snap):
                mm = ctx.prove(s_and(*[X.a.flat[q] == snap.flat[q] for q in range(snap.size)]), "attribution tensor unchanged")
                if mm is not None:
                    add("tfmodisco:modifies-input", "tfmodisco_seqlets modified the attribution tensor", dict(cfg))
            if len(out["samples"]) < 2:
                out["samples"].append({"cfg": cfg, "seqlets_on_path": len(rows)})
            return "returned"
        core.explore(body, stats=stats, max_paths=cfg.get("max_paths", 60000), reset=ld.restore)
        out["stats"] = stats.as_dict()
        return out
    raise KeyError(kind)


def configs(tier):
    q = tier == "quick"
    cf = []
    for (mn, mx, l) in ([(2, 3, 6), (2, 4, 6), (3, 4, 7)] if q else [(2, 3, 6), (2, 4, 6), (3, 4, 7), (2, 4, 8), (3, 5, 8)]):
        for fl in ((0, 1) if q else (0, 1, 2)):
            cf.append(dict(kind="extract", min_len=mn, max_len=mx, flanks=fl, l=l))
        cf.append(dict(kind="pvalue", min_len=mn, max_len=mx, flanks=0, l=l))
    # flanks wider than the shortest seqlet: the flank-extended span has to be clipped at both ends of the example
    cf.append(dict(kind="extract", min_len=2, max_len=3, flanks=4, l=6))
    if not q:
        cf.append(dict(kind="extract", min_len=2, max_len=4, flanks=5, l=7))
    cf.append(dict(kind="wrapper", n=3))
    cf.append(dict(kind="prefix", l=4))
    for (ws, fl, L, B) in ([(2, 1, 7, 1), (3, 0, 6, 1), (1, 0, 3, 2), (2, 0, 7, 1)] if q else [(2, 1, 7, 1), (3, 0, 6, 1), (1, 0, 3, 2), (2, 0, 7, 1), (1, 1, 5, 2), (3, 1, 9, 1), (2, 2, 9, 1)]):
        cf.append(dict(kind="tfmodisco", window=ws, flank=fl, L=L, B=B))
    return cf


def main(tier, seed):
    rep = harness.Report(PROP, tier, seed)
    ld, _ = C.fresh_env()
    rep.functions = [ld.func_info("seqlet", f) for f in ("_recursive_seqlets", "recursive_seqlets", "tfmodisco_seqlets", "_iterative_extract_seqlets")]
    cf = configs(tier)
    res = harness.run_configs("checks.C19", "worker", cf)
    for r in res:
        for f in r.get("functions", []):
            if f not in rep.functions:
                rep.functions.append(f)
    rep.absorb(res)
    rep.bounds = {"recursive": "(min_len, max_len, length) in %s, additional_flanks 0..%d; p-value matrix arbitrary in [0,1] under the loop invariant; X symbolic; threshold symbolic in (0,1)" % (
        sorted({(c["min_len"], c["max_len"], c["l"]) for c in cf if c["kind"] == "extract"}), max(c["flanks"] for c in cf if c["kind"] == "extract")),
        "tfmodisco": "(window, flank, length, examples) in %s; thresholds arbitrary reals" % sorted({(c["window"], c["flank"], c["L"], c["B"]) for c in cf if c["kind"] == "tfmodisco"})}
    rep.assumptions = ["the p-value / threshold statistics themselves (CDF tables, Laplacian null, isotonic regression, quantiles) are outside the claim: they are replaced by arbitrary values of their range",
                       "statement ranges of the numba kernel are executed from their Python source with numpy index semantics (negative indices wrap, like numba; out-of-range reads are reported)",
                       "replay runs the real recursive_seqlets / tfmodisco_seqlets on crafted tracks with bumps adjacent to position 0 and to the end"]
    rep.witness_ok = rep.stats["returned"] > 0
    return harness.finish(rep)
