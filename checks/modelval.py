"""Translation validation of the environment model: the tensor / numpy facade (symtm.tensor, symtm.env) against the real torch and
numpy on concrete inputs.  Every check calls `validate(seed)` before its symbolic phase; a disagreement is an Inconclusive (exit 3)
of that check - the model is the trusted base of every claim, so it is exercised on every run, with seeded random shapes/values."""
import itertools
import random
from fractions import Fraction

import numpy as np

from symtm import core, tensor as T, env


def _to_list(x):
    if isinstance(x, T.Arr):
        return _norm(x.a.tolist())
    if isinstance(x, (tuple, list)):
        return [_to_list(v) for v in x]
    if hasattr(x, "tolist"):
        return _norm(x.tolist())
    return _norm(x)


def _norm(v):
    if isinstance(v, (list, tuple)):
        return [_norm(x) for x in v]
    if isinstance(v, bool):
        return int(v)
    if isinstance(v, (int, float, Fraction)):
        f = float(v)
        return round(f, 9) + 0.0
    if hasattr(v, "item"):
        return _norm(v.item())
    return v


def validate(seed=0, n_cases=6):
    """returns the number of (operation, input) pairs compared; raises core.Inconclusive on the first disagreement"""
    import torch
    shims = env.standard_shims()
    st, sn = shims["torch"], shims["numpy"]
    rnd = random.Random(seed)
    count = 0

    def mk(shape, lo=-3, hi=4):
        a = np.array([rnd.randint(lo, hi) for _ in range(int(np.prod(shape)))], dtype=np.int64).reshape(shape)
        return a

    def pair(a, dtype=None):
        rt = torch.from_numpy(a.copy()) if dtype is None else torch.from_numpy(a.copy()).type(dtype)
        stt = T.Tensor(a.astype(object), dtype=str(rt.dtype).replace("torch.", ""))
        return rt, stt

    def cmp(name, f_real, f_model, *arrs, dtype=None):
        nonlocal count
        rs, ss = zip(*[pair(a, dtype) for a in arrs])
        try:
            r = ("ok", _to_list(f_real(*rs)))
        except Exception as e:
            r = ("raised", type(e).__name__ in ("IndexError",) and "IndexError" or "error")
        try:
            s_ = ("ok", _to_list(f_model(*ss)))
        except core.Inconclusive:
            raise
        except Exception as e:
            s_ = ("raised", type(e).__name__ in ("IndexError",) and "IndexError" or "error")
        count += 1
        if r != s_:
            raise core.Inconclusive("environment model disagrees with real torch on %s%s: model=%s real=%s" % (name, [a.tolist() for a in arrs], str(s_)[:300], str(r)[:300]))

    for _ in range(n_cases):
        B, A, L = rnd.randint(1, 3), rnd.randint(2, 4), rnd.randint(2, 5)
        x = mk((B, A, L))
        y = mk((B, A, L))
        i0 = rnd.randint(0, L)
        i1 = rnd.randint(i0, L + 1)
        idx = np.array([rnd.randint(0, L - 1) for _ in range(rnd.randint(1, 4))])
        bidx = np.array([rnd.randint(0, B - 1) for _ in range(len(idx))])
        reps = rnd.randint(1, 3)
        cmp("slice", lambda t: t[:, :, i0:i1], lambda t: t[:, :, i0:i1], x)
        cmp("cat", lambda a, b: torch.cat([a[:, :, :i0], b, a[:, :, i0:]], dim=-1), lambda a, b: st.cat([a[:, :, :i0], b, a[:, :, i0:]], dim=-1), x, y)
        cmp("stack+permute", lambda a, b: torch.stack([a, b]).permute(1, 0, 2, 3), lambda a, b: st.stack([a, b]).permute(1, 0, 2, 3), x, y)
        cmp("repeat", lambda a: a.repeat(reps, 1, 1), lambda a: a.repeat(reps, 1, 1), x)
        cmp("repeat_interleave", lambda a: a.repeat_interleave(reps, dim=0), lambda a: a.repeat_interleave(reps, dim=0), x)
        cmp("reshape+transpose", lambda a: a.reshape(B, -1).transpose(0, 1), lambda a: a.reshape(B, -1).transpose(0, 1), x)
        cmp("flip+gather", lambda a: torch.flip(a, dims=(-1,))[:, list(range(A))[::-1]], lambda a: st.flip(a, dims=(-1,))[:, list(range(A))[::-1]], x)
        cmp("advanced-index", lambda a: a[torch.from_numpy(bidx), :, torch.from_numpy(idx)], lambda a: a[T.Tensor(bidx.astype(object), dtype="int64"), :, T.Tensor(idx.astype(object), dtype="int64")], x)
        cmp("sum/max/argmax", lambda a: [a.sum(dim=1), a.max(dim=-1).values, a.argmax(dim=1), a.sum(dim=(1, 2))], lambda a: [a.sum(dim=1), a.max(dim=-1).values, a.argmax(dim=1), a.sum(dim=(1, 2))], x)
        cmp("cumsum/compare", lambda a, b: [torch.cumsum(a, dim=-1), (a <= b).sum(dim=-1), abs(a - b)], lambda a, b: [st.cumsum(a, dim=-1), (a <= b).sum(dim=-1), abs(a - b)], x, y)
        cmp("unfold", lambda a: a.unfold(-1, 2, 1).permute(1, 0, 2, 3) if L >= 2 else a, lambda a: a.unfold(-1, 2, 1).permute(1, 0, 2, 3) if L >= 2 else a, x)
        cmp("moveaxis+reshape", lambda a: a.moveaxis(0, -2).reshape(A, -1), lambda a: a.moveaxis(0, -2).reshape(A, -1), x)
        cmp("unique/sort", lambda a: [torch.unique(a), torch.sort(a.flatten())[0]], lambda a: [st.unique(a), st.sort(a.flatten())[0]], x)

        def set_r(a):
            a = a.clone()
            a[:, :, i0:i1] = 7
            a[torch.from_numpy(bidx), 0, torch.from_numpy(idx)] = 9
            return a

        def set_s(a):
            a = a.clone()
            a[:, :, i0:i1] = 7
            a[T.Tensor(bidx.astype(object), dtype="int64"), 0, T.Tensor(idx.astype(object), dtype="int64")] = 9
            return a
        cmp("setitem", set_r, set_s, x)
        sc_idx = mk((B, L), 0, A - 1)
        cmp("scatter_add_", lambda a, i_: torch.zeros(B, A, dtype=torch.int64).scatter_add_(1, i_, a[:, 0]), lambda a, i_: st.zeros(B, A, dtype="int64").scatter_add_(1, i_, a[:, 0]), x, sc_idx)
        xf = mk((B, A, L)).astype(np.float64)
        w = mk((2, A, 2)).astype(np.float64)
        cmp("conv1d", lambda a, w_: torch.nn.functional.conv1d(a, w_), lambda a, w_: st.nn.functional.conv1d(a, w_), xf, w, dtype=torch.float64)
        cmp("max_pool1d", lambda a: torch.nn.functional.max_pool1d(a, 2, 2, 0, 1, False, True), lambda a: st.nn.functional.max_pool1d(a, 2, 2, 0, 1, False, True), xf, dtype=torch.float64)
    # numpy facade
    for _ in range(n_cases):
        n = rnd.randint(1, 6)
        v = mk((n,), 0, 5)
        m2 = mk((rnd.randint(1, 3), n), -2, 3)
        rn = lambda f: _to_list(f(np, v.copy(), m2.copy()))
        sn_ = lambda f: _to_list(f(sn, T.NDArray(v.astype(object), dtype="int64"), T.NDArray(m2.astype(object), dtype="int64")))
        for name, f in (("cumsum/concat", lambda N, a, b: [N.cumsum(a), N.concatenate([a, a]), N.stack([a, a])]),
                        ("where/nonzero", lambda N, a, b: [N.where(a > 2)[0], N.nonzero(b[0])[0]]),
                        ("argsort/unique", lambda N, a, b: [N.argsort(a, kind="stable") if N is np else N.argsort(a), N.unique(a)]),
                        ("minimum/sum", lambda N, a, b: [N.minimum(a, a[::-1]), b.sum(axis=0), b.max(axis=1), b.argmin(axis=1)])):
            count += 1
            if rn(f) != sn_(f):
                raise core.Inconclusive("environment model disagrees with real numpy on %s (%s, %s): %s vs %s" % (name, v.tolist(), m2.tolist(), sn_(f), rn(f)))
    return count
