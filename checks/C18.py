"""C18 - annotation and k-mer counting equal direct enumeration.

Engine A on the real annotate.count_annotations / pairwise_annotations /
pairwise_annotations_spacing and kmers.kmers: every field of every annotation row is symbolic
(example, annotation type, start, end), sequence characters and scores are symbolic; the result
must equal brute-force counting written as sums of If-terms.
"""
import itertools
from fractions import Fraction

import numpy as np
import z3

from symtm import core, tensor as T, harness
from symtm.core import SInt, ite, s_and, s_or, s_not, s_sum
from . import common as C

PROP = "C18"


# ------------------------------------------------------------------ direct enumeration (generic: concrete or symbolic)

def brute_count(rows, E, Tn):
    return [[s_sum([ite(s_and(r[0] == e, r[1] == a), 1, 0) for r in rows]) for a in range(Tn)] for e in range(E)]


def brute_pairs(rows, Tn, symmetric=True):
    y = [[0 for _ in range(Tn)] for _ in range(Tn)]
    for i, j in itertools.combinations(range(len(rows)), 2):
        same = rows[i][0] == rows[j][0]
        for a in range(Tn):
            for b in range(Tn):
                fwd = s_and(same, rows[i][1] == a, rows[j][1] == b)
                bwd = s_and(same, rows[i][1] == b, rows[j][1] == a, a != b)
                if symmetric:
                    y[a][b] = y[a][b] + ite(s_or(fwd, bwd), 1, 0)
                else:
                    y[a][b] = y[a][b] + ite(fwd, 1, 0)
    return y


def brute_spacing(rows, Tn, D, symmetric=True):
    """rows: (example, annotation, start, end); entry (a, b, d): pairs whose left annotation is a (b if symmetric too),
    gap end_left -> start_right == d, 0 <= d < D.  Ties in start: the later row counts as the left one (the code's
    convention); for symmetric counting the convention is irrelevant unless a == b, where it is irrelevant too."""
    y = [[[0 for _ in range(D)] for _ in range(Tn)] for _ in range(Tn)]
    for i, j in itertools.combinations(range(len(rows)), 2):
        same = rows[i][0] == rows[j][0]
        i_left = rows[i][2] < rows[j][2]
        la = ite(i_left, rows[i][1], rows[j][1])
        ra = ite(i_left, rows[j][1], rows[i][1])
        gap = ite(i_left, rows[j][2] - rows[i][3], rows[i][2] - rows[j][3])
        for a in range(Tn):
            for b in range(Tn):
                for d in range(D):
                    hit = s_and(same, gap == d, la == a, ra == b)
                    if symmetric:
                        hit = s_or(hit, s_and(same, gap == d, la == b, ra == a, a != b))
                    y[a][b][d] = y[a][b][d] + ite(hit, 1, 0)
    return y


def brute_kmers(chars, k, A, scores=None):
    L = len(chars)
    out = [0 for _ in range(A ** k)]
    for p in range(L - k + 1):
        j = s_sum([chars[p + i] * (A ** i) for i in range(k)])
        val = 1 if scores is None else s_sum([scores[p + i] for i in range(k)])
        for t in range(A ** k):
            out[t] = out[t] + ite(j == t, val, 0)
    return out


def _conc(x):
    """evaluate a nested structure of concrete ite-results"""
    if isinstance(x, list):
        return [_conc(v) for v in x]
    return x


# ------------------------------------------------------------------ replay

def replay(r):
    C.real_tangermeme()
    import torch
    from tangermeme import annotate, kmers as km
    k = r["kind"]
    try:
        if k == "count":
            rows = r["rows"]
            X = torch.tensor(rows, dtype=torch.int64).reshape(len(rows), 2)
            y = annotate.count_annotations(X, dtype=torch.int64, shape=tuple(r["shape"]) if r.get("shape") else None, dim=r.get("dim"))
            E = r["shape"][0] if r.get("shape") else max(x[0] for x in rows) + 1
            Tn = r["shape"][1] if r.get("shape") else max(x[1] for x in rows) + 1
            full = np.array(_conc(brute_count(rows, E, Tn)))
            exp = full if r.get("dim") is None else full.sum(axis=r["dim"])
            if tuple(y.shape) != exp.shape or not np.array_equal(y.numpy(), exp):
                return True, "count_annotations(dim=%s) = %s, direct count = %s" % (r.get("dim"), y.tolist(), exp.tolist())
        elif k == "pairs":
            rows = r["rows"]
            X = torch.tensor(rows, dtype=torch.int64).reshape(len(rows), 2)
            y = annotate.pairwise_annotations(X, symmetric=r["symmetric"], shape=r.get("shape"))
            Tn = r.get("shape") or max(x[1] for x in rows) + 1
            exp = np.array(_conc(brute_pairs(rows, Tn, r["symmetric"])))
            if tuple(y.shape) != exp.shape or not np.array_equal(y.numpy(), exp):
                return True, "pairwise_annotations = %s, direct count = %s" % (y.tolist(), exp.tolist())
        elif k == "spacing":
            rows = r["rows"]
            X = torch.tensor(rows, dtype=torch.int64).reshape(len(rows), 4)
            D = r["max_distance"]
            y = annotate.pairwise_annotations_spacing(X, max_distance=D, dtype=torch.int64, symmetric=r["symmetric"], shape=r.get("shape"))
            Tn = r.get("shape") or max(x[1] for x in rows) + 1
            exp = np.array(_conc(brute_spacing(rows, Tn, D, r["symmetric"])))
            if tuple(y.shape) != exp.shape or not np.array_equal(y.numpy(), exp):
                return True, "pairwise_annotations_spacing = %s, direct count = %s" % (y.tolist(), exp.tolist())
        elif k == "kmers":
            A, kk = r["A"], r["k"]
            X = C.real_onehot(r["x"], A)
            sc = torch.tensor(r["scores"], dtype=torch.float32) if r.get("scores") is not None else None
            if r.get("history_A"):
                km.kmers(C.real_onehot([[i % r["history_A"] for i in range(len(r["x"][0]))]], r["history_A"]), kk)
            y = km.kmers(X, kk, scores=sc)
            for b, row in enumerate(r["x"]):
                exp = _conc(brute_kmers(row, kk, A, r["scores"][b] if r.get("scores") is not None else None))
                if tuple(y[b].shape) != (A ** kk,) or not np.allclose(y[b].numpy(), np.array(exp, dtype=float), atol=1e-4):
                    return True, "kmers row %d = %s, direct count = %s" % (b, y[b].tolist(), exp)
        return False, "ok"
    except Exception as e:
        return True, "raised %s: %s" % (type(e).__name__, e)


# ------------------------------------------------------------------ symbolic harness

def worker(cfg):
    ld, shims = C.fresh_env()
    ann = ld.load("annotate")
    km = ld.load("kmers")
    stats = core.Stats()
    out = {"violations": [], "samples": []}
    kind = cfg["kind"]

    def add(key, what, r):
        out["violations"].append(C.violation(key, what, r, replay))

    def table_claim(y, exp, shape):
        if tuple(y.shape) != tuple(shape):
            return False
        ea = np.array(exp, dtype=object).reshape(shape)
        return s_and(*[y.a[c] == ea[c] for c in np.ndindex(*shape)])

    def body(ctx):
        if kind in ("count", "pairs", "spacing"):
            n, E, Tn = cfg["rows"], cfg["E"], cfg["T"]
            rows = []
            for r_ in range(n):
                ex, an = core.Int("e%d" % r_), core.Int("a%d" % r_)
                ctx.assume(s_and(ex >= 0, ex < E, an >= 0, an < Tn))
                row = [ex, an]
                if kind == "spacing":
                    st, ln = core.Int("s%d" % r_), core.Int("l%d" % r_)
                    ctx.assume(s_and(st >= 0, st <= cfg["S"], ln >= 1, ln <= cfg["W"]))
                    row += [st, st + ln]
                rows.append(row)
            X = T.Tensor(np.array(rows, dtype=object).reshape(n, len(rows[0])), dtype="int64")
            rp = lambda m: dict(cfg, rows=[[core.model_value(m, v) for v in row] for row in rows])
            shape = cfg.get("shape")
            try:
                if kind == "count":
                    y = ann.count_annotations(X, dtype="int64", shape=tuple(shape) if shape else None, dim=cfg.get("dim"))
                elif kind == "pairs":
                    y = ann.pairwise_annotations(X, symmetric=cfg["symmetric"], shape=shape)
                else:
                    y = ann.pairwise_annotations_spacing(X, max_distance=cfg["max_distance"], dtype="int64", symmetric=cfg["symmetric"], shape=shape)
            except Exception as e:
                if isinstance(e, core.Inconclusive):
                    raise
                m = ctx.model() if ctx.check() == z3.sat else None
                rr = rp(m)
                key = "%s:raises" % kind
                if kind == "spacing":
                    key = _spacing_key(rr)
                add(key, "%s raised %s: %s" % (kind, type(e).__name__, e), rr)
                return "raised"
            mx_e = core.s_max(*[r[0] for r in rows]) + 1 if n > 1 else rows[0][0] + 1
            mx_a = core.s_max(*[r[1] for r in rows]) + 1 if n > 1 else rows[0][1] + 1
            if kind == "count":
                dim = cfg.get("dim")
                Ec, Tc = (shape if shape else (None, None))
                if not shape:
                    mdl = ctx.model() if ctx.check() == z3.sat else None
                    Ec, Tc = core.model_value(mdl, mx_e), core.model_value(mdl, mx_a)
                    pins = [mx_e == Ec] * (dim != 0) + [mx_a == Tc] * (dim != 1)      # only the kept axis is materialised
                    if ctx.prove(s_and(*pins), "table extent pinned") is not None:
                        raise core.Inconclusive("extent not determined")
                    if dim == 0:
                        Ec = E
                    if dim == 1:
                        Tc = Tn
                full = brute_count(rows, Ec, Tc)
                if dim is None:
                    claim = table_claim(y, full, (Ec, Tc))
                elif dim == 0:
                    claim = table_claim(y, [s_sum([full[e][a] for e in range(Ec)]) for a in range(Tc)], (Tc,))
                else:
                    claim = table_claim(y, [s_sum(full[e]) for e in range(Ec)], (Ec,))
            else:
                Tc = shape
                if not shape:
                    mdl = ctx.model() if ctx.check() == z3.sat else None
                    Tc = core.model_value(mdl, mx_a)
                    if ctx.prove(mx_a == Tc, "table extent pinned") is not None:
                        raise core.Inconclusive("extent not determined")
                if kind == "pairs":
                    claim = table_claim(y, brute_pairs(rows, Tc, cfg["symmetric"]), (Tc, Tc))
                else:
                    claim = table_claim(y, brute_spacing(rows, Tc, cfg["max_distance"], cfg["symmetric"]), (Tc, Tc, cfg["max_distance"]))
            m = ctx.prove(claim, "table == direct enumeration")
            if m is not None:
                rr = rp(m)
                key = _spacing_key(rr) if kind == "spacing" else "%s:wrong-count" % kind
                add(key, "%s differs from direct enumeration" % kind, rr)
            if not out["samples"]:
                out["samples"].append({"cfg": cfg, "path": "returned"})
            return "returned"
        if kind == "kmers":
            A, B, L, k = cfg["A"], cfg["B"], cfg["L"], cfg["k"]
            xc = C.sym_chars(ctx, "x", (B, L), A)
            X = C.onehot_from_chars(xc, A)
            sc = None
            if cfg["scores"]:
                sc = T.Tensor(np.array([[core.Real("w_%d_%d" % (b, p)) for p in range(L)] for b in range(B)], dtype=object), dtype="float32")
                for v in sc.a.flat:
                    ctx.assume(s_and(v >= -8, v <= 8))             # small magnitudes: a counterexample stays visible in float32
            rp = lambda m: dict(cfg, x=C.eval_chars(m, xc), scores=(C.eval_chars(m, sc.a) if sc is not None else None))
            try:
                if cfg.get("history_A"):
                    # call history: the same k on sequences over an alphabet of another size earlier in the process
                    xh = C.sym_chars(ctx, "xh", (1, L), cfg["history_A"])
                    km.kmers(C.onehot_from_chars(xh, cfg["history_A"]), k)
                y = km.kmers(X, k, scores=sc)
            except Exception as e:
                if isinstance(e, core.Inconclusive):
                    raise
                m = ctx.model() if ctx.check() == z3.sat else None
                add("kmers:raises", "kmers raised %s: %s" % (type(e).__name__, e), rp(m))
                return "raised"
            cl = [tuple(y.shape) == (B, A ** k)]
            if tuple(y.shape) == (B, A ** k):
                for b in range(B):
                    exp = brute_kmers(list(xc[b]), k, A, list(sc.a[b]) if sc is not None else None)
                    cl += [y.a[b, t] == exp[t] for t in range(A ** k)]
            m = ctx.prove(s_and(*cl), "kmers == direct enumeration")
            if m is not None:
                add("kmers:wrong-count", "kmers differs from direct enumeration", rp(m))
            if not out["samples"]:
                out["samples"].append({"cfg": cfg, "path": "returned"})
            return "returned"
        raise KeyError(kind)

    core.explore(body, stats=stats, max_paths=60000, reset=ld.restore)
    out["stats"] = stats.as_dict()
    return out


def _spacing_key(r):
    """classify a spacing counterexample: overlapping pair (negative gap) / gap == max_distance / other"""
    rows, D = r["rows"], r["max_distance"]
    kinds = set()
    for i, j in itertools.combinations(range(len(rows)), 2):
        if rows[i][0] != rows[j][0]:
            continue
        a, b = (rows[i], rows[j]) if rows[i][2] < rows[j][2] else (rows[j], rows[i])
        gap = b[2] - a[3]
        if gap < 0:
            kinds.add("overlap")
        elif gap == D:
            kinds.add("gap==max_distance")
    if "overlap" in kinds:
        return "spacing:overlapping-pair-wraps"
    if "gap==max_distance" in kinds:
        return "spacing:gap-equal-max-distance-raises"
    return "spacing:wrong-count"


def configs(tier):
    cf = []
    q = tier == "quick"
    for n in ((1, 2, 3) if q else (1, 2, 3, 4)):
        for dim in (None, 0, 1):
            cf.append(dict(kind="count", rows=n, E=2, T=2 if n > 2 else 3, dim=dim))
        cf.append(dict(kind="count", rows=n, E=2, T=2, dim=None, shape=[3, 3]))
        cf.append(dict(kind="count", rows=n, E=2, T=2, dim=n % 2, shape=[3, 4]))          # explicit shape AND a reduction
    for n in ((2, 3) if q else (2, 3, 4)):
        for sym in (True, False):
            cf.append(dict(kind="pairs", rows=n, E=2, T=2, symmetric=sym))
        cf.append(dict(kind="pairs", rows=n, E=1, T=2, symmetric=True, shape=3))
    for n in ((2,) if q else (2, 3)):
        for sym in (True, False):
            cf.append(dict(kind="spacing", rows=n, E=2 if n == 2 else 1, T=2, S=3 if q else 4, W=2, max_distance=2, symmetric=sym))
    cf.append(dict(kind="spacing", rows=2, E=1, T=1, S=4, W=1, max_distance=3, symmetric=True, shape=2))
    for A, L, k in ([(2, 3, 1), (2, 4, 2), (3, 3, 2), (4, 3, 1)] if q else [(2, 3, 1), (2, 4, 2), (3, 3, 2), (4, 3, 1), (2, 5, 3), (4, 4, 2), (3, 5, 2)]):
        for sc in (False, True):
            cf.append(dict(kind="kmers", A=A, B=2 if L <= 3 else 1, L=L, k=k, scores=sc))
    # call history: the same k with another alphabet size earlier (larger and smaller)
    cf.append(dict(kind="kmers", A=3, B=1, L=3, k=2, scores=False, history_A=2))
    cf.append(dict(kind="kmers", A=2, B=1, L=4, k=2, scores=True, history_A=4))
    return cf


def main(tier, seed):
    rep = harness.Report(PROP, tier, seed)
    ld, _ = C.fresh_env()
    rep.functions = [ld.func_info("annotate", f) for f in ("count_annotations", "pairwise_annotations", "pairwise_annotations_spacing")] + [ld.func_info("kmers", "kmers")]
    cf = configs(tier)
    rep.bounds = {"annotation_rows": "1..%d, every field symbolic" % max(c.get("rows", 0) for c in cf), "examples": "<= 2", "annotation_types": "<= 3",
                  "coordinates": "start in [0, 4], length in [1, 2]", "max_distance": "2..3", "kmers": sorted({(c["A"], c["L"], c["k"]) for c in cf if c["kind"] == "kmers"}), "kmer scores": "symbolic reals in [-8, 8]"}
    rep.assumptions = ["tensor input form (tuple / DataFrame forms go through pandas, outside the model)", "counts stay far below dtype range; int64 result dtype requested",
                       "rows with equal start: either order of the pair is accepted only where the statement does not distinguish (symmetric / same type)"]
    rep.absorb(harness.run_configs("checks.C18", "worker", cf))
    rep.witness_ok = rep.stats["returned"] > 0
    return harness.finish(rep)
