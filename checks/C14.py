"""C14 - TOMTOM scores and p-values match an independent complete-score reference.

Engine A on the real tomtom kernels, executed from their Python source on the numpy model (numpy.empty = arbitrary memory):
  N  _p_value_backgrounds (+ _pairwise_max): the whole score histogram f is symbolic (reals > 0, rows sum to 1); every cell of
     the returned null table B[nt, s] must equal 1 - prod_alignments CDF_alignment(s) computed by explicit convolution in the
     harness; both sides are polynomials in f, decided by exact polynomial normal form (z3 on any residual)
  P  _p_values: symbolic integerised score matrix, symbolic null table, arbitrary (uninitialised) result buffer: reported score =
     max over alignments of the complete-score sum, reported (offset, overlap) belong to SOME alignment attaining it, p-value =
     table entry just below the score
  M  _merge_rc_results: 1 - (1 - min p)^2 and the higher-scoring strand
"""
import itertools
from fractions import Fraction

import numpy as np
import z3

from symtm import core, tensor as T, harness, poly
from symtm.core import ite, s_and, s_or, s_not, s_sum
from . import common as C

PROP = "C14"


# ------------------------------------------------------------------ replay: real tomtom vs an independent float reference

def _reference_tomtom(Q, Ts, n_score_bins):
    """independent complete-score reference built on the real integerisation kernel (scores) + explicit convolution (null)"""
    import numpy
    from tangermeme.tools import tomtom as tt
    nq = Q.shape[1]
    T_all = numpy.concatenate(Ts, axis=1)
    nt_all = T_all.shape[1]
    gamma = numpy.empty((nt_all, nq))
    gint = numpy.empty((nt_all, nq), dtype="int8")
    f = numpy.empty((nq, n_score_bins + 1))
    med = numpy.empty(nq)
    mb = numpy.empty((1000, 2))
    off = int(tt._integer_distances_and_histogram(Q, T_all, gamma, gint, f, med, mb, (Q ** 2).sum(axis=0), (T_all ** 2).sum(axis=0), numpy.ones(nt_all), 0, nq, n_score_bins))
    # gint[j, k] holds (score of query column nq-1-k vs target column j) - off
    out = []
    start = 0
    for Tm in Ts:
        nt = Tm.shape[1]
        best = None
        for k in range(nt + nq - 1):
            sc = nq * off
            for t in range(nt):
                l = k - t
                if 0 <= l < nq:
                    sc += int(gint[start + t, l])
            ov = min(k + 1, nq) - max(0, k - nt + 1)
            if best is None or sc > best[0]:
                best = (sc, {(k - nq + 1, ov)})
            elif sc == best[0]:
                best[1].add((k - nq + 1, ov))
        # null: product over alignments of the CDF of that alignment's score at best-1
        prod = 1.0
        for k in range(nt + nq - 1):
            cols = [nq - 1 - (k - t) for t in range(nt) if 0 <= k - t < nq]
            pmf = {off * (nq - len(cols)): 1.0}
            for c in cols:
                new = {}
                for s_, p in pmf.items():
                    for x in range(0, n_score_bins + 1):
                        if f[c, x] > 0:
                            new[s_ + x] = new.get(s_ + x, 0.0) + p * f[c, x]
                pmf = new
            prod *= sum(p for s_, p in pmf.items() if s_ <= best[0] - 1)
        out.append((best[0], best[1], 1.0 - prod))
        start += nt
    return out


def _replay_kernels(r):
    """direct numeric runs of the real compiled kernels against the same reference formulas"""
    import numpy
    from tangermeme.tools import tomtom as tt
    rng = numpy.random.RandomState(1)
    if r["kind"] == "pairmax":
        for _ in range(20):
            n = r["n"]
            x, y = rng.dirichlet(numpy.ones(n)), rng.dirichlet(numpy.ones(n))
            z = numpy.empty(n)
            tt._pairwise_max(x, y, numpy.cumsum(y), z, n)
            want = x * numpy.cumsum(y) + y * numpy.cumsum(x) - x * y
            if not numpy.allclose(z, want, atol=1e-12):
                return True, "_pairwise_max(%s, %s) = %s, pmf of the maximum = %s" % (x, y, z, want)
        return False, "ok"
    if r["kind"] == "merge":
        for _ in range(30):
            n = r["n"]
            res = rng.rand(2 * n, 5)
            res[:, 1] = rng.randint(0, 4, size=2 * n)
            R = res.copy()
            tt._merge_rc_results(R)
            for i in range(n):
                pm = min(res[i, 0], res[i + n, 0])
                if abs(R[i, 0] - (1 - (1 - pm) ** 2)) > 1e-12:
                    return True, "merged p-value %g, expected %g" % (R[i, 0], 1 - (1 - pm) ** 2)
                src = i if res[i, 1] > res[i + n, 1] else (i + n if res[i, 1] < res[i + n, 1] else None)
                if src is not None and (list(R[i, 1:4]) != list(res[src, 1:4]) or R[i, 4] != (0 if src == i else 1)):
                    return True, "merged fields are not those of the higher-scoring strand"
        return False, "ok"
    if r["kind"] == "null":
        nq, nb, tmax, off = r["nq"], r["n_bins"], r["t_max"], r["offset"]
        n_len = nq * nb + nq * (off + 1)
        for _ in range(6):
            f = numpy.zeros((nq, nb + 1))
            if r.get("bin0", True):
                f[:, :] = rng.dirichlet(numpy.ones(nb + 1), size=nq)
            else:
                f[:, 1:] = rng.dirichlet(numpy.ones(nb), size=nq)
            A, Ac, B = numpy.empty((nq, nq, n_len)), numpy.empty((nq, nq, n_len)), numpy.empty((tmax + 1, n_len))
            tt._p_value_backgrounds(f, A, B, Ac, nq, nb, tmax, off)
            for nt in range(1, tmax + 1):
                for sidx in range(nq * nb + nq * off):
                    prod = 1.0
                    for a in range(nt + nq - 1):
                        cols = [nq - 1 - l for l in range(nq) if 0 <= a - l < nt]
                        pmf = {off * (nq - len(cols)): 1.0}
                        for cc in cols:
                            new = {}
                            for sc, p in pmf.items():
                                for x in range(0, nb + 1):
                                    new[sc + x] = new.get(sc + x, 0) + p * f[cc, x]
                            pmf = new
                        prod *= sum(p for sc, p in pmf.items() if sc <= sidx)
                    if abs(B[nt, sidx] - (1 - prod)) > 1e-9:
                        return True, "null table B[nt=%d, score=%d] = %.10g, reference %.10g" % (nt, sidx, B[nt, sidx], 1 - prod)
        return False, "ok"
    return None


def replay(r):
    C.real_tangermeme()
    import numpy
    from tangermeme.tools.tomtom import tomtom
    if r.get("kind") in ("pairmax", "merge", "null"):
        return _replay_kernels(r)
    if r.get("kind") == "rcflag":
        # a truthy reverse_complement flag that is not the object True (numpy.bool_, 1) must behave like True
        rs = numpy.random.RandomState(2)
        Qs = [rs.dirichlet([0.5] * 4, size=l).T for l in (5, 7)]
        Ts = [rs.dirichlet([0.5] * 4, size=l).T for l in (6, 8, 5)]
        try:
            want = tomtom(Qs, Ts, n_jobs=1, reverse_complement=True).numpy()
            for flag in (numpy.bool_(True), 1, numpy.int64(1)):
                got = tomtom(Qs, Ts, n_jobs=1, reverse_complement=flag).numpy()
                if got.shape != want.shape or not numpy.array_equal(got, want):
                    return True, "reverse_complement=%r (%s) gives a result of shape %s that differs from reverse_complement=True (shape %s)" % (flag, type(flag).__name__, got.shape, want.shape)
            off = tomtom(Qs, Ts, n_jobs=1, reverse_complement=False).numpy()
            for flag in (numpy.bool_(False), 0):
                got = tomtom(Qs, Ts, n_jobs=1, reverse_complement=flag).numpy()
                if got.shape != off.shape or not numpy.array_equal(got, off):
                    return True, "reverse_complement=%r differs from reverse_complement=False" % (flag,)
        except Exception as e:
            return True, "tomtom raised %s: %s" % (type(e).__name__, e)
        return False, "ok"
    if r.get("kind") == "hashprep":
        # targets in which some nucleotide row is constant over all pooled columns (A/T-only motifs): hashing must still work
        rs = numpy.random.RandomState(4)
        for trial in range(4):
            Ts = []
            for l in (4, 6, 5):
                a = rs.randint(0, 5, size=l) / 4.0
                Ts.append(numpy.array([a, numpy.zeros(l) + (0.0 if trial % 2 == 0 else 0.0), numpy.zeros(l), 1 - a]))
            Q = Ts[1][:, 1:5].copy()
            try:
                a_ = tomtom([Q], Ts, n_jobs=1, n_target_bins=100).numpy()
                b_ = tomtom([Q], Ts, n_jobs=1, n_target_bins=None).numpy()
            except Exception as e:
                return True, "tomtom with column hashing raised %s: %s on targets with a constant nucleotide row" % (type(e).__name__, e)
            if not numpy.allclose(a_, b_, atol=1e-9):
                return True, "hashed and un-hashed results differ on targets with a constant nucleotide row"
        return False, "ok"
    if r.get("kind") == "hash":
        rs = numpy.random.RandomState(0)
        for trial in range(6):
            # one-hot columns pin every row's min/max to 0/1, so the binned digits are round(99 * value)
            cols = [numpy.array([10, 60, 14, 15]) / 99., numpy.array([60, 9, 15, 15]) / 99.] + [numpy.eye(4)[k] for k in range(4)]
            for _ in range(6):
                c = rs.multinomial(99, [0.25] * 4)
                cols.append(c / 99.)
            rs.shuffle(cols)
            Ts = [numpy.array(cols[:5]).T.copy(), numpy.array(cols[5:]).T.copy()]
            Q = numpy.array([cols[i] for i in rs.randint(0, len(cols), size=3)]).T.copy()
            a = tomtom([Q], Ts, n_jobs=1, n_target_bins=r["n_target_bins_real"], n_score_bins=r["n_score_bins_real"]).numpy()
            b = tomtom([Q], Ts, n_jobs=1, n_target_bins=None, n_score_bins=r["n_score_bins_real"]).numpy()
            if not numpy.allclose(a, b, atol=1e-9):
                return True, "hashed (n_target_bins=%d) and un-hashed results differ although the binning is injective on these columns" % r["n_target_bins_real"]
        return False, "ok"
    grid = [0.0, 0.25, 0.5, 0.75, 1.0]
    cols = [c for c in itertools.product(grid, repeat=4) if abs(sum(c) - 1) < 1e-9]
    rng = numpy.random.RandomState(r.get("seed", 0))
    kw = dict(n_jobs=1, reverse_complement=False, n_target_bins=None, n_score_bins=r.get("n_score_bins", 20))
    cases = []
    # the known trigger shape for a zero best score, then random coarse-grid PWM sets
    q = numpy.array([[0., 0., 0.25, 0.75]]).T
    far = [0.25, 0.75, 0., 0.]
    cases.append((q, [numpy.array([far, far, far]).T, numpy.array([[0., 0.75, 0., 0.25]]).T], numpy.array([[0.25, 0.75, 0., 0.]]).T))
    for _ in range(r.get("trials", 40)):
        nq = rng.randint(1, 4)
        Q = numpy.array([cols[rng.randint(len(cols))] for _ in range(nq)]).T.copy()
        Ts = [numpy.array([cols[rng.randint(len(cols))] for _ in range(rng.randint(1, 5))]).T.copy() for _ in range(rng.randint(1, 4))]
        prev = numpy.array([cols[rng.randint(len(cols))] for _ in range(rng.randint(1, 5))]).T.copy()
        cases.append((Q, Ts, prev))
    for Q, Ts, prev in cases:
        try:
            res = tomtom([Q], Ts, **kw)
            res2 = tomtom([prev, Q], Ts, **kw)
        except Exception as e:
            return True, "tomtom raised %s: %s" % (type(e).__name__, e)
        p, sc, off, ov = [res[i][0].numpy() for i in range(4)]
        if not numpy.array_equal(res[:, 0].numpy(), res2[:, 1].numpy()):
            return True, "result for the same query/targets differs when another query is processed first: %s vs %s (Q=%s)" % (res[:, 0].tolist(), res2[:, 1].tolist(), Q.T.tolist())
        try:
            ref = _reference_tomtom(Q, Ts, kw["n_score_bins"])
        except Exception:
            continue
        for j, (bsc, aligns, pref) in enumerate(ref):
            if int(sc[j]) != bsc:
                return True, "target %d: reported score %s, complete-score maximum %d" % (j, sc[j], bsc)
            if (int(off[j]), int(ov[j])) not in aligns:
                return True, "target %d: reported (offset, overlap) = (%d, %d) does not attain the best score (alignments attaining it: %s)" % (j, off[j], ov[j], sorted(aligns))
            if abs(float(p[j]) - pref) > 1e-9:
                return True, "target %d: p-value %.10g, reference %.10g (score %d)" % (j, p[j], pref, bsc)
    return False, "ok"


# ------------------------------------------------------------------ symbolic harness

def _to_poly(v, memo, subst):
    z = core.zn(v)
    if z3.is_int(z):
        z = z3.ToReal(z)
    return poly.to_poly(z3.simplify(z), memo, subst)


def _prove_each(ctx, claims, what):
    """a conjunction proved conjunct by conjunct (many small queries instead of one large one); returns the first counter-model"""
    for cl in claims:
        if cl is True:
            continue
        m = ctx.prove(cl, what)
        if m is not None:
            return m
    return None


def worker(cfg):
    ld, shims = C.fresh_env()
    tt = ld.load("tools.tomtom")
    stats = core.Stats()
    out = {"violations": [], "samples": []}
    kind = cfg["kind"]
    numpy_s = shims["numpy"]

    def add(key, what, r):
        out["violations"].append(C.violation(key, what, r, replay))

    if kind == "null":
        nq, nb, tmax, off = cfg["nq"], cfg["n_bins"], cfg["t_max"], cfg["offset"]
        n_len = nq * nb + nq * (off + 1)

        def body(ctx):
            f = np.empty((nq, nb + 1), dtype=object)
            subst = {}
            for i in range(nq):
                for l in range(nb + 1):
                    v = core.Real("f%d_%d" % (i, l))
                    ctx.assume(v > 0)
                    f[i, l] = v
                lo = 0
                if not cfg.get("bin0", True):      # no target column falls into the lowest score bin
                    f[i, 0] = 0
                    lo = 1
                ctx.assume(s_sum(list(f[i, lo:])) == 1)
                pl = {(): Fraction(1)}
                for l in range(lo, nb):
                    pl[(("f%d_%d" % (i, l), 1),)] = Fraction(-1)
                subst["f%d_%d" % (i, nb)] = pl
            A = numpy_s.empty((nq, nq, n_len), dtype="float64")        # uninitialised scratch
            Ac = numpy_s.empty((nq, nq, n_len), dtype="float64")
            B = numpy_s.empty((tmax + 1, n_len), dtype="float64")
            try:
                tt._p_value_backgrounds(T.NDArray(f, dtype="float64"), A, B, Ac, nq, nb, tmax, off)
            except IndexError as e:
                add("null:out-of-bounds", "_p_value_backgrounds indexes outside its scratch arrays: %s" % e, dict(cfg))
                return "raised"
            memo = {}
            bad = 0
            for nt in range(1, tmax + 1):
                cdfs = []
                for a in range(nt + nq - 1):
                    cols = [nq - 1 - l for l in range(nq) if 0 <= a - l < nt]
                    pmf = {off * (nq - len(cols)): 1}
                    for cc in cols:
                        new = {}
                        for sc, p in pmf.items():
                            for x in range(0, nb + 1):
                                new[sc + x] = new.get(sc + x, 0) + p * f[cc, x]
                        pmf = new
                    cdfs.append(pmf)
                for sidx in range(nq * nb + nq * off):
                    prod = 1
                    for pmf in cdfs:
                        prod = prod * s_sum([p for sc, p in pmf.items() if sc <= sidx])
                    ref = 1 - prod
                    got = B.a[nt, sidx]
                    ctx.stats.obligations += 1
                    try:
                        P = _to_poly(got - ref, memo, subst)
                    except ValueError:
                        P = None
                    if P is not None and not P:
                        ctx.stats.discharged += 1
                        continue
                    m = ctx.prove(got == ref, "null table cell")
                    ctx.stats.obligations -= 1
                    if m is not None:
                        bad += 1
                        if bad <= 1:
                            add("null:wrong-cell", "null table B[nt=%d, score=%d] is not 1 - prod_alignments CDF(score)" % (nt, sidx), dict(cfg))
            if not out["samples"]:
                out["samples"].append({"cfg": cfg, "cells": tmax * (nq * nb + nq * off)})
            return "returned"
        core.explore(body, stats=stats, max_paths=2000)

    elif kind == "pvalues":
        nq, Tl, NB, off = cfg["nq"], cfg["T_lens"], cfg["n_scores"], cfg["offset"]
        ntot = sum(Tl)

        def body(ctx):
            g = np.empty((ntot, nq), dtype=object)
            for c in np.ndindex(ntot, nq):
                v = core.Int("g_%d_%d" % c)
                ctx.assume(s_and(v >= -off, v <= cfg["gmax"]))          # gamma_int = x - offset with x >= 0
                g[c] = v
            Bc = np.empty((max(Tl) + 1, NB), dtype=object)
            for c in np.ndindex(*Bc.shape):
                Bc[c] = core.Real("B_%d_%d" % c)
            results = numpy_s.empty((len(Tl), 5), dtype="float64")      # arbitrary leftovers of an earlier query
            rr_inv = T.NDArray(np.arange(ntot).astype(object), dtype="uint64")
            rp = lambda m: dict(cfg)
            try:
                tt._p_values(T.NDArray(g, dtype="int8"), T.NDArray(Bc, dtype="float64"), rr_inv, T.NDArray(np.array(Tl, dtype=object), dtype="int64"), -1, nq, off, results)
            except IndexError as e:
                m = ctx.model() if ctx.check() == z3.sat else None
                add("pvalues:score-zero-table-index-out-of-range", "_p_values indexes the null table out of range (uint64(score - 1) with score 0): %s" % e, rp(m))
                return "raised"
            start = 0
            for i, nt in enumerate(Tl):
                sums = []
                for k in range(nt + nq - 1):
                    sc = nq * off
                    for t in range(nt):
                        l = k - t
                        if 0 <= l < nq:
                            sc = sc + g[start + t, l]
                    sums.append((k, sc, min(k + 1, nq) - max(0, k - nt + 1)))
                best = core.s_max(*[s_[1] for s_ in sums]) if len(sums) > 1 else sums[0][1]
                rsc, roff, rov, rp_ = results.a[i, 1], results.a[i, 2], results.a[i, 3], results.a[i, 0]
                deps = [str(core.zn(v)) for v in (rsc, roff, rov, rp_) if isinstance(v, core.Sym)]
                uninit = any("uninit!" in d for d in deps)
                cl = [rsc == best, s_or(*[s_and(s_[1] == best, roff == s_[0] - nq + 1, rov == s_[2]) for s_ in sums])]
                pv = 1
                for sv in range(1, NB + 1):
                    pv = ite(best == sv, Bc[nt, sv - 1], pv)
                cl.append(s_or(best < 1, best > NB, rp_ == pv))
                cl.append(s_or(best != 0, rp_ == 1))                  # nothing scores above 0: p = P(max >= 0) = 1
                m = ctx.prove(s_and(*cl), "score = max over alignments; offset/overlap attain it; p = table[score-1]")
                if m is not None or uninit:
                    key = "pvalues:stale-result-buffer-when-best-score-is-zero" if uninit or core.model_value(m, best) == 0 else "pvalues:wrong-result"
                    add(key, "_p_values result for target %d is wrong or depends on the previous contents of the result buffer" % i, dict(cfg))
                    return "returned"
                start += nt
            if not out["samples"]:
                out["samples"].append({"cfg": cfg, "path": "returned"})
            return "returned"
        core.explore(body, stats=stats, max_paths=60000)


    elif kind == "self":
        # a target set that contains the query itself (target 0).  What the integerisation guarantees for a column compared
        # with itself (kinds "dist" / "bin_tail" / "median": distance 0 -> largest similarity of its row, not below the median
        # score) is assumed of the score matrix; the real _p_values must then report the offset-0 full-overlap alignment.
        nq, Tl, NB, off = cfg["nq"], [cfg["nq"]] + list(cfg.get("others", [])), cfg["n_scores"], cfg["offset"]
        ntot = sum(Tl)
        strict = cfg.get("strict", False)

        def body(ctx):
            g = np.empty((ntot, nq), dtype=object)
            for c in np.ndindex(ntot, nq):
                v = core.Int("g_%d_%d" % c)
                ctx.assume(s_and(v >= -off, v <= cfg["gmax"]))
                g[c] = v
            for i in range(nq):                       # query column i is stored in column l = nq-1-i
                l = nq - 1 - i
                ctx.assume(g[i, l] > 0 if strict else g[i, l] >= 0)
                for t in range(nq):
                    if t != i:
                        ctx.assume(g[i, l] > g[t, l] if strict else g[i, l] >= g[t, l])
            Bc = np.empty((max(Tl) + 1, NB), dtype=object)
            for c in np.ndindex(*Bc.shape):
                Bc[c] = core.Real("B_%d_%d" % c)
            results = numpy_s.empty((len(Tl), 5), dtype="float64")
            rr_inv = T.NDArray(np.arange(ntot).astype(object), dtype="uint64")
            try:
                tt._p_values(T.NDArray(g, dtype="int8"), T.NDArray(Bc, dtype="float64"), rr_inv, T.NDArray(np.array(Tl, dtype=object), dtype="int64"), -1, nq, off, results)
            except IndexError as e:
                add("self:out-of-range", "_p_values indexes out of range on a self-comparison: %s" % e, dict(cfg))
                return "raised"
            diag = nq * off + s_sum([g[i, nq - 1 - i] for i in range(nq)])
            cl = [results.a[0, 1] == diag]
            if strict:
                cl += [results.a[0, 2] == 0, results.a[0, 3] == nq]
            m = ctx.prove(s_and(*cl), "self-match: best score is the offset-0 full-overlap score")
            if m is not None:
                add("self:not-at-offset-0", "a motif compared with itself does not report the score of the offset-0 full-overlap alignment%s" % (" / reports another offset although that alignment is strictly best" if strict else ""), dict(cfg))
            return "returned"
        core.explore(body, stats=stats, max_paths=60000)

    elif kind == "dist":
        # column similarity is minus the Euclidean distance: the distance statement range of _integer_distances_and_histogram
        # with the wrapper's own norm statements; sqrt is an uninterpreted strictly increasing function
        import ast as _ast
        outer = lambda nd, text: isinstance(nd, _ast.For) and text.startswith("for i in range(nq)") and "z_min_, z_max_" in text
        dist, info = ld.slice_function("tools.tomtom", "_integer_distances_and_histogram", lambda st, text: text.startswith("z_min_, z_max_ ="),
                                       lambda st, text: isinstance(st, _ast.For) and text.startswith("for j in range(Y.shape[-1])"),
                                       ["X", "Y", "gamma", "X_norm", "Y_norm", "nq_csum", "i"], ["gamma", "z_min_", "z_max_"], within=outer)
        qn, info2 = ld.slice_function("tools.tomtom", "tomtom", lambda st, text: text.startswith("Q_norm ="), lambda st, text: text.startswith("Q_norm ="), ["Q"], ["Q_norm"])
        tn, info3 = ld.slice_function("tools.tomtom", "tomtom", lambda st, text: text.startswith("T_norm ="), lambda st, text: text.startswith("T_norm ="), ["T"], ["T_norm"])
        out.setdefault("functions", []).extend([info, info2, info3])
        A, NT, NQ, qi = cfg["A"], cfg["NT"], cfg["NQ"], cfg["i"]

        def body(ctx):
            x = [[core.Real("x%d_%d" % (k, i)) for i in range(NQ)] for k in range(A)]
            y = [[core.Real("y%d_%d" % (k, j)) for j in range(NT)] for k in range(A)]
            for v in [w for row in x + y for w in row]:
                ctx.assume(s_and(v >= 0, v <= 1))
            if cfg.get("self_col"):
                for k in range(A):
                    ctx.assume(y[k][0] == x[k][qi])
            X = T.NDArray(np.array(x, dtype=object), dtype="float64")
            Y = T.NDArray(np.array(y, dtype=object), dtype="float64")
            (Xn,) = qn(X)
            (Yn,) = tn(Y)
            gamma = numpy_s.empty((NT, NQ), dtype="float64")
            g, zmin, zmax = dist(X, Y, gamma, Xn, Yn, 0, qi)
            gs = [g.a[j, qi] for j in range(NT)]
            d = [s_sum([(x[k][qi] - y[k][j]) * (x[k][qi] - y[k][j]) for k in range(A)]) for j in range(NT)]
            cl = [v <= 0 for v in gs] + [zmax == core.s_max(*gs), zmin == core.s_min(*gs)]
            for j in range(NT):
                cl.append(s_or(d[j] != 0, gs[j] == 0))
                for j2 in range(NT):
                    if j != j2:
                        cl.append(s_or(d[j] > d[j2], gs[j] >= gs[j2]))        # closer (or as close) => at least as similar
                        cl.append(s_or(d[j] >= d[j2], gs[j] > gs[j2]))        # strictly closer => strictly more similar
            if cfg.get("self_col"):
                cl.append(gs[0] == 0)
            # the argument of every sqrt is the squared Euclidean distance (polynomial identity)
            memo = {}
            for (zx, _r) in ctx.state.get("sqrt_terms", []):
                ctx.stats.obligations += 1
                if any(not _to_poly(core.lift(zx) - dj, memo, None) for dj in d):
                    ctx.stats.discharged += 1
                else:
                    add("dist:not-euclidean", "the value under the square root is not the squared Euclidean distance of the two columns", dict(cfg))
            m = ctx.prove(s_and(*cl), "similarity is monotone in Euclidean distance; a column has similarity 0 (the maximum) with itself")
            if m is not None:
                add("dist:not-monotone", "column similarity is not monotone in Euclidean distance / a column is not maximally similar to itself / row extrema wrong", dict(cfg))
            return "returned"
        core.explore(body, stats=stats, max_paths=5000)

    elif kind == "bin_tail":
        # from `i_min = ...` to the return of _integer_distances_and_histogram: integerisation, histogram, offset
        import ast as _ast
        import math as _math
        tail, info = ld.slice_function("tools.tomtom", "_integer_distances_and_histogram", lambda st, text: text.startswith("i_min = "), lambda st, text: isinstance(st, _ast.Return),
                                       ["gamma", "gamma_int", "f", "medians", "Y", "Y_counts", "nq", "n_bins", "z_min", "z_max"], None)
        out.setdefault("functions", []).append(info)
        nq, NT, n_bins, counts = cfg["nq"], cfg["NT"], cfg["n_bins"], cfg["counts"]
        z_min, z_max = Fraction(*cfg["z_min"]), Fraction(*cfg["z_max"])

        def body(ctx):
            g = np.empty((NT, nq), dtype=object)
            m0 = []
            for i in range(nq):
                m0.append(core.Real("m%d" % i))
                for j in range(NT):
                    g[j, i] = core.Real("g%d_%d" % (j, i))
                    ctx.assume(s_and(g[j, i] - m0[i] >= z_min, g[j, i] - m0[i] <= z_max))
            gint = numpy_s.empty((NT, nq), dtype="int8")
            f = numpy_s.empty((nq, n_bins + 1), dtype="float64")
            med = T.NDArray(np.array(m0, dtype=object), dtype="float64")
            try:
                ret = tail(T.NDArray(g.copy(), dtype="float64"), gint, f, med, T.NDArray(np.zeros((4, NT), dtype=object), dtype="float64"), T.NDArray(np.array(counts, dtype=object), dtype="int64"), nq, n_bins, z_min, z_max)
            except IndexError as e:
                add("bin:out-of-range", "the integerisation indexes its histogram out of range: %s" % e, dict(cfg))
                return "raised"
            i_min = _math.floor(z_min)
            scale = _math.floor(n_bins / (z_max - i_min))
            off = -i_min * scale
            ys = sum(counts)
            cl = [core.unwrap0(ret) == off]
            for i in range(nq):
                k = nq - 1 - i
                cl.append(med.a[i] == m0[i] + i_min)
                xs = [gint.a[j, k] + off for j in range(NT)]
                for j in range(NT):
                    cl.append(s_and(xs[j] >= 0, xs[j] <= n_bins))
                    cl.append(s_or(g[j, i] < m0[i], gint.a[j, k] >= 0))            # at least as similar as the median => not below the unaligned-column score
                    for j2 in range(NT):
                        cl.append(s_or(g[j, i] < g[j2, i], gint.a[j, k] >= gint.a[j2, k]))
                for b in range(n_bins + 1):
                    cl.append(f.a[i, b] == s_sum([ite(xs[j] == b, Fraction(counts[j], ys), 0) for j in range(NT)]))
            m = _prove_each(ctx, cl, "integerised similarity: in range, monotone, >= 0 at the median, histogram of the weighted target columns, offset")
            if m is not None:
                add("bin:wrong", "integerised scores are not a monotone in-range binning of the similarities with the weighted histogram / stored column / offset stated", dict(cfg))
            return "returned"
        core.explore(body, stats=stats, max_paths=20000)

    elif kind == "median":
        n, n_bins, counts = cfg["n"], cfg["n_bins"], cfg["counts"]

        def body(ctx):
            xs = [core.Real("x%d" % i) for i in range(n)]
            lo, hi = core.Real("lo"), core.Real("hi")
            ctx.assume(lo < hi)
            ctx.assume(s_or(*[v == lo for v in xs]))
            ctx.assume(s_or(*[v == hi for v in xs]))
            for v in xs:
                ctx.assume(s_and(v >= lo, v <= hi))
            bins = numpy_s.empty((n_bins, 2), dtype="float64")
            try:
                mres = core.unwrap0(tt._binned_median(T.NDArray(np.array(xs, dtype=object), dtype="float64"), bins, lo, hi, T.NDArray(np.array(counts, dtype=object), dtype="float64")))
            except IndexError as e:
                add("median:out-of-range", "_binned_median indexes its bins out of range: %s" % e, dict(cfg))
                return "raised"
            half = Fraction(sum(counts), 2)
            width = (hi - lo) / (n_bins - 1)
            cl = [mres >= lo, mres <= hi]
            near = []
            for i in range(n):
                le = s_sum([ite(xs[j] <= xs[i], counts[j], 0) for j in range(n)])
                lt = s_sum([ite(xs[j] < xs[i], counts[j], 0) for j in range(n)])
                is_med = s_or(s_and(le >= half, lt < half), s_and(le > half, lt <= half))       # lower or upper weighted median (the statement fixes neither)
                near.append(s_and(is_med, mres - xs[i] < width, xs[i] - mres < width))
            cl.append(s_or(*near))
            m = _prove_each(ctx, cl, "binned median lies between min and max and within one bin width of a weighted median")
            if m is not None:
                add("median:wrong", "_binned_median is outside [min, max] or further than one bin width from the weighted median", dict(cfg))
            return "returned"
        core.explore(body, stats=stats, max_paths=20000)

    elif kind == "rclist":
        # the wrapper's reverse-complement statement: second half = both axes flipped, same order; doing it to the flipped
        # targets yields the two halves exchanged
        import ast as _ast
        blk, info = ld.slice_function("tools.tomtom", "tomtom", lambda st, text: text.startswith("Ts = Ts + ["), lambda st, text: text.startswith("Ts = Ts + ["),
                                      ["Ts"], ["Ts"], within=lambda nd, text: isinstance(nd, _ast.If) and text.startswith("if reverse_complement"))
        out.setdefault("functions", []).append(info)
        lens = cfg["lens"]

        def body(ctx):
            Ts = [T.NDArray(np.array([[core.Real("t%d_%d_%d" % (n_, k, p)) for p in range(L_)] for k in range(4)], dtype=object), dtype="float64") for n_, L_ in enumerate(lens)]
            (both,) = blk(list(Ts))
            n = len(lens)
            cl = [len(both) == 2 * n]
            ok = len(both) == 2 * n and all(both[i].a.shape == Ts[i].a.shape and both[n + i].a.shape == Ts[i].a.shape for i in range(n))
            if ok:
                for i in range(n):
                    for k in range(4):
                        for p in range(lens[i]):
                            cl.append(both[i].a[k, p] == Ts[i].a[k, p])
                            cl.append(both[n + i].a[k, p] == Ts[i].a[3 - k, lens[i] - 1 - p])
                (again,) = blk([both[n + i] for i in range(n)])
                for i in range(n):
                    for k in range(4):
                        for p in range(lens[i]):
                            cl.append(again[n + i].a[k, p] == both[i].a[k, p])
                            cl.append(again[i].a[k, p] == both[n + i].a[k, p])
            m = ctx.prove(s_and(*cl), "reverse-complement target list") if ok else True
            if m is not None:
                add("rclist:wrong", "the reverse-complement target list is not [targets..., flipped targets...] in the same order", dict(cfg))
            return "returned"
        core.explore(body, stats=stats)

    elif kind == "hash_e2e":
        # the whole real tomtom() with and without column hashing on coarse-grid PWM sets that contain duplicated target columns
        # (merged and weighted by the hashing path): identical results.  Scratch memory is arbitrary (havoc), values are concrete.
        from . import C13 as _C13
        qs, ts = _C13.case(cfg["seed"])
        ts = [list(t) for t in ts] + [list(ts[0])[::-1] + [ts[-1][0]]]          # duplicates of existing columns in another target
        numba_s = shims["numba"]
        numba_s.get_thread_id = lambda: 0
        tt.numba.get_thread_id = numba_s.get_thread_id
        arr = lambda p_: T.NDArray(np.array(p_, dtype=object).T.copy(), dtype="float64")

        def body(ctx):
            res = []
            for ntb in (None, 100):
                try:
                    r_ = tt.tomtom([arr(q_) for q_ in qs], [arr(t_) for t_ in ts], n_score_bins=cfg["n_score_bins"], n_median_bins=50, n_target_bins=ntb, n_cache=30,
                                   reverse_complement=cfg["rc"], n_jobs=1)
                except Exception as e:
                    if isinstance(e, core.Inconclusive):
                        raise
                    add("hash_e2e:raises", "tomtom(n_target_bins=%s) raised %s: %s" % (ntb, type(e).__name__, e), dict(cfg, kind="hash", n_target_bins_real=100, n_score_bins_real=50))
                    return "raised"
                res.append(r_.a)
            ctx.stats.obligations += 1
            if T.has_sym(res[0]) or T.has_sym(res[1]) or not np.allclose(np.array(res[0].tolist(), dtype=float), np.array(res[1].tolist(), dtype=float), atol=1e-9):
                add("hash_e2e:differs", "tomtom with column hashing differs from tomtom without it although the binning is injective on these columns", dict(cfg, kind="hash", n_target_bins_real=100, n_score_bins_real=50))
            else:
                ctx.stats.discharged += 1
            return "returned"
        core.explore(body, stats=stats, reset=ld.restore)

    elif kind == "rcflag":
        # the wrapper's `if reverse_complement:` statement under every truthy / falsy flag value a caller may pass, together with
        # the int(flag) handed to the compiled core: the target list is doubled exactly when the core is told so
        import ast as _ast
        is_if = lambda st, text: isinstance(st, _ast.If) and text.startswith("if reverse_complement")
        blk, info = ld.slice_function("tools.tomtom", "tomtom", is_if, is_if, ["Ts", "reverse_complement"], ["Ts"])
        out.setdefault("functions", []).append(info)
        lens = cfg["lens"]

        def body(ctx):
            for flag in (True, False, 1, 0, np.bool_(True), np.bool_(False), np.int64(1)):
                Ts = [T.NDArray(np.array([[core.Real("t%d_%d_%d" % (n_, k, p)) for p in range(L_)] for k in range(4)], dtype=object), dtype="float64") for n_, L_ in enumerate(lens)]
                (both,) = blk(list(Ts), flag)
                ctx.stats.obligations += 1
                if len(both) == (2 * len(lens) if int(flag) == 1 else len(lens)):
                    ctx.stats.discharged += 1
                else:
                    add("rcflag:inconsistent", "reverse_complement=%r (%s): %d target matrices are handed to a core that is told reverse_complement=%d" % (flag, type(flag).__name__, len(both), int(flag)), dict(cfg))
                    break
            return "returned"
        core.explore(body, stats=stats)

    elif kind == "hashprep":
        # binning of the target columns before hashing, on symbolic targets (a nucleotide row may be constant): every binned entry
        # is an integer digit 0..n_target_bins-1 (no division by a zero range)
        import ast as _ast
        within = lambda nd, text: isinstance(nd, _ast.If) and text.startswith("if n_target_bins is not None")
        blk, info = ld.slice_function("tools.tomtom", "tomtom", lambda st, text: text.startswith("T_min ="), lambda st, text: isinstance(st, _ast.Assign) and text.startswith("T_ints = numpy.around"),
                                      ["T", "n_target_bins"], ["T_ints"], within=within)
        out.setdefault("functions", []).append(info)
        ntb, ncol = cfg["n_target_bins"], cfg["cols"]

        def body(ctx):
            t = np.empty((4, ncol), dtype=object)
            for c in np.ndindex(4, ncol):
                v = core.Real("t_%d_%d" % c)
                ctx.assume(s_and(v >= 0, v <= 1))
                t[c] = v
            (ti,) = blk(T.NDArray(t.copy(), dtype="float64"), ntb)
            cl = []
            for v in ti.a.flat:
                cl.append(s_and(v >= 0, v <= ntb - 1, s_or(*[v == d_ for d_ in range(ntb)])))
            m = ctx.prove(s_and(*cl), "binned target entries are digits 0..n_target_bins-1")
            if m is not None:
                add("hashprep:not-a-digit", "a binned target entry is not an integer in 0..n_target_bins-1 (a nucleotide row that is constant over the pooled target columns divides by a zero range)", dict(cfg))
            return "returned"
        core.explore(body, stats=stats, max_paths=5000)

    elif kind == "merge":
        n = cfg["n"]

        def body(ctx):
            res = np.empty((2 * n, 5), dtype=object)
            for c in np.ndindex(2 * n, 5):
                res[c] = core.Real("r_%d_%d" % c)
            for i in range(2 * n):
                ctx.assume(s_and(res[i, 0] >= 0, res[i, 0] <= 1))
            R = T.NDArray(res.copy(), dtype="float64")
            tt._merge_rc_results(R)
            cl = []
            for i in range(n):
                pm = core.s_min(res[i, 0], res[i + n, 0])
                cl.append(R.a[i, 0] == 1 - (1 - pm) * (1 - pm))
                fwd_better = res[i, 1] > res[i + n, 1]
                rc_better = res[i, 1] < res[i + n, 1]
                for c_ in (1, 2, 3):
                    cl.append(s_or(s_not(fwd_better), R.a[i, c_] == res[i, c_]))
                    cl.append(s_or(s_not(rc_better), R.a[i, c_] == res[i + n, c_]))
                cl.append(s_or(s_not(fwd_better), R.a[i, 4] == 0))
                cl.append(s_or(s_not(rc_better), R.a[i, 4] == 1))
                cl.append(s_or(s_and(R.a[i, 4] == 0, R.a[i, 1] == res[i, 1], R.a[i, 2] == res[i, 2], R.a[i, 3] == res[i, 3]),
                               s_and(R.a[i, 4] == 1, R.a[i, 1] == res[i + n, 1], R.a[i, 2] == res[i + n, 2], R.a[i, 3] == res[i + n, 3])))
            m = ctx.prove(s_and(*cl), "strand merge")
            if m is not None:
                add("merge:wrong", "_merge_rc_results is not 1-(1-min p)^2 with the higher-scoring strand's fields", dict(cfg))
            # reverse-complementing the targets exchanges the two halves: only the strand flag may change
            sw = np.concatenate([res[n:], res[:n]]).copy()
            R2 = T.NDArray(sw, dtype="float64")
            tt._merge_rc_results(R2)
            cl2 = []
            for i in range(n):
                cl2 += [R2.a[i, 0] == R.a[i, 0], R2.a[i, 1] == R.a[i, 1]]
                differ = res[i, 1] != res[i + n, 1]
                cl2.append(s_or(s_not(differ), s_and(R2.a[i, 2] == R.a[i, 2], R2.a[i, 3] == R.a[i, 3], R2.a[i, 4] == 1 - R.a[i, 4])))
            m2 = ctx.prove(s_and(*cl2), "exchanging the strands changes only the strand flag")
            if m2 is not None:
                add("merge:not-strand-symmetric", "exchanging forward and reverse-complement results changes more than the reported strand", dict(cfg))
            return "returned"
        core.explore(body, stats=stats)

    elif kind == "hash":
        # column hashing in tomtom(): two target columns may only be merged if all their binned entries agree
        import ast as _ast
        blk, info = ld.slice_function("tools.tomtom", "tomtom", lambda st, text: isinstance(st, _ast.Assign) and text.startswith("T_ints = T_ints.T.dot"),
                                      lambda st, text: isinstance(st, _ast.Assign) and text.startswith("T_ints = T_ints.T.dot"),
                                      ["T_ints", "T", "n_target_bins", "n_score_bins"], ["T_ints"], within=lambda nd, text: isinstance(nd, _ast.If) and text.startswith("if n_target_bins is not None"))
        out.setdefault("functions", []).append(info)
        ntb, nsb = cfg["n_target_bins"], cfg["n_score_bins"]

        def body(ctx):
            d = np.empty((4, 2), dtype=object)
            for c in np.ndindex(4, 2):
                v = core.Int("d_%d_%d" % c)
                ctx.assume(s_and(v >= 0, v <= ntb - 1))
                d[c] = v
            (h,) = blk(T.NDArray(d.copy(), dtype="float64"), T.NDArray(np.zeros((4, 2), dtype=object), dtype="float64"), ntb, nsb)
            hv = list(h.a.flat)
            m = ctx.prove(s_or(hv[0] != hv[1], s_and(*[d[k, 0] == d[k, 1] for k in range(4)])), "hash is injective on binned columns")
            if m is not None:
                add("hash:collision", "two different binned target columns receive the same hash (they would be merged): %s vs %s" % (
                    [core.model_value(m, d[k, 0]) for k in range(4)], [core.model_value(m, d[k, 1]) for k in range(4)]), dict(cfg))
            return "returned"
        core.explore(body, stats=stats)

    elif kind == "pairmax":
        n = cfg["n"]

        def body(ctx):
            x = [core.Real("x%d" % i) for i in range(n)]
            y = [core.Real("y%d" % i) for i in range(n)]
            for v in x + y:
                ctx.assume(v >= 0)             # probabilities (the sentinel x[0] == -1 means "no distribution yet")
            ycs = np.cumsum(np.array(y, dtype=object))
            z = numpy_s.empty((n,), dtype="float64")
            tt._pairwise_max(T.NDArray(np.array(x, dtype=object), dtype="float64"), T.NDArray(np.array(y, dtype=object), dtype="float64"), T.NDArray(ycs, dtype="float64"), z, n)
            memo = {}
            for i in range(n):
                # P(max = i) = x_i * P(Y <= i) + y_i * P(X <= i) - x_i y_i
                want = x[i] * s_sum(y[:i + 1]) + y[i] * s_sum(x[:i + 1]) - x[i] * y[i]
                ctx.stats.obligations += 1
                if not _to_poly(z.a[i] - want, memo, None):
                    ctx.stats.discharged += 1
                else:
                    add("pairmax:wrong", "_pairwise_max is not the pmf of the maximum of two independent scores", dict(cfg))
                    break
            return "returned"
        core.explore(body, stats=stats)
    out["stats"] = stats.as_dict()
    return out


def configs(tier):
    q = tier == "quick"
    cf = [dict(kind="null", nq=1, n_bins=2, t_max=2, offset=1), dict(kind="null", nq=2, n_bins=2, t_max=2, offset=1), dict(kind="null", nq=2, n_bins=2, t_max=3, offset=0),
          dict(kind="null", nq=2, n_bins=2, t_max=1, offset=1), dict(kind="null", nq=3, n_bins=2, t_max=2, offset=0), dict(kind="null", nq=3, n_bins=2, t_max=1, offset=1),
          dict(kind="null", nq=2, n_bins=2, t_max=2, offset=1, bin0=False), dict(kind="null", nq=3, n_bins=2, t_max=2, offset=0, bin0=False),
          dict(kind="hash", n_target_bins=5, n_score_bins=3, n_target_bins_real=100, n_score_bins_real=50),
          dict(kind="pvalues", nq=1, T_lens=[1, 2], n_scores=3, offset=0, gmax=2), dict(kind="pvalues", nq=2, T_lens=[2], n_scores=4, offset=1, gmax=1),
          dict(kind="pvalues", nq=2, T_lens=[1, 3], n_scores=4, offset=0, gmax=2), dict(kind="merge", n=2), dict(kind="pairmax", n=4)]
    cf += [dict(kind="self", nq=2, others=[1], n_scores=6, offset=1, gmax=2), dict(kind="self", nq=2, others=[3], n_scores=6, offset=1, gmax=2, strict=True),
           dict(kind="self", nq=3, others=[], n_scores=9, offset=1, gmax=2, strict=True),
           dict(kind="dist", A=4, NT=2, NQ=2, i=1), dict(kind="dist", A=4, NT=3, NQ=1, i=0, self_col=True),
           dict(kind="bin_tail", nq=1, NT=2, n_bins=4, z_min=(-13, 10), z_max=(2, 5), counts=[1, 2]), dict(kind="bin_tail", nq=2, NT=2, n_bins=10, z_min=(-13, 10), z_max=(2, 5), counts=[1, 1]),
           dict(kind="bin_tail", nq=2, NT=3, n_bins=5, z_min=(-1, 1), z_max=(1, 4), counts=[2, 1, 1]),
           dict(kind="median", n=3, n_bins=3, counts=[1, 1, 1]), dict(kind="median", n=3, n_bins=4, counts=[1, 2, 1]), dict(kind="median", n=4, n_bins=3, counts=[1, 1, 1, 1]),
           dict(kind="rclist", lens=[2, 1, 3]), dict(kind="rcflag", lens=[2, 1]), dict(kind="hash_e2e", seed=1, rc=False, n_score_bins=6), dict(kind="hash_e2e", seed=2, rc=True, n_score_bins=6), dict(kind="hashprep", n_target_bins=3, cols=2)]
    if not q:
        cf += [dict(kind="null", nq=2, n_bins=3, t_max=3, offset=2), dict(kind="null", nq=3, n_bins=2, t_max=3, offset=1), dict(kind="null", nq=3, n_bins=3, t_max=4, offset=1),
               dict(kind="pvalues", nq=3, T_lens=[2, 1], n_scores=6, offset=1, gmax=1), dict(kind="pvalues", nq=2, T_lens=[4], n_scores=4, offset=0, gmax=2),
               dict(kind="pvalues", nq=3, T_lens=[3], n_scores=9, offset=0, gmax=3),
               dict(kind="self", nq=3, others=[2], n_scores=9, offset=1, gmax=2), dict(kind="self", nq=4, others=[], n_scores=12, offset=1, gmax=1, strict=True),
               dict(kind="dist", A=4, NT=3, NQ=2, i=0), dict(kind="dist", A=4, NT=4, NQ=1, i=0, self_col=True),
               dict(kind="bin_tail", nq=3, NT=3, n_bins=20, z_min=(-7, 5), z_max=(3, 10), counts=[1, 3, 2]), dict(kind="bin_tail", nq=2, NT=4, n_bins=100, z_min=(-141, 100), z_max=(9, 10), counts=[1, 1, 2, 1]),
               dict(kind="median", n=4, n_bins=4, counts=[1, 2, 1, 3]), dict(kind="median", n=4, n_bins=6, counts=[2, 1, 1, 1])]
    # (binned median of 5 values: z3 returns unknown within the 60 s query limit - measured - so 4 values is the stated bound)
    return cf


def main(tier, seed):
    rep = harness.Report(PROP, tier, seed)
    ld, _ = C.fresh_env()
    rep.functions = [ld.func_info("tools.tomtom", f) for f in ("_p_value_backgrounds", "_pairwise_max", "_p_values", "_merge_rc_results")]
    cf = configs(tier)
    rep.bounds = {"null": sorted({(c["nq"], c["n_bins"], c["t_max"], c["offset"]) for c in cf if c["kind"] == "null"}),
                  "pvalues": [(c["nq"], c["T_lens"], c["offset"]) for c in cf if c["kind"] == "pvalues"], "merge": "2 target pairs, all fields symbolic"}
    rep.assumptions = ["_integer_distances_and_histogram / _binned_median (float distances, sqrt, floor binning) are outside the claim, hence also 'self-match at offset 0' and the monotonicity clause; column hashing (numpy.unique) outside",
                       "histogram entries are strictly positive and each row sums to 1 (zero entries only skip work in the kernel); bin0=False configurations put no mass into the lowest score bin",
                       "polynomial identities are decided by an exact polynomial normal form (symtm/poly.py), z3 only on residuals",
                       "tie-break between equally scoring alignments is not fixed by the statement: any alignment attaining the maximum is accepted"]
    rep.absorb(harness.run_configs("checks.C14", "worker", cf))
    rep.witness_ok = rep.stats["returned"] > 0
    return harness.finish(rep)
