"""C03 - predict is transparent to batching and keeps extra arguments aligned.

Engine A runs the real predict.predict with a *symbolic batch size* (unbounded Int >= 1), fully
symbolic X / args contents and a model whose forward is an uninterpreted function of each row.
"""
import itertools

import numpy as np
import z3

from symtm import core, tensor as T, harness, nn
from symtm.core import SInt, SReal, ite, s_and, s_or, s_not
from . import common as C

PROP = "C03"


def _uf(name, arity):
    return z3.Function(name, *([z3.RealSort()] * arity + [z3.RealSort()]))


class UFModel(nn.Module):
    """forward(X, *args): row i of output t is F_t(X[i], args[0][i], ...) (uninterpreted)"""

    def __init__(self, n_out, kind, out_dim=2, has_param=True, out_shapes=None):
        super().__init__()
        self.n_out, self.kind, self.out_dim = n_out, kind, out_dim
        # per-output trailing shape (default: (out_dim,) for every output)
        self.out_shapes = [tuple(s_) for s_ in out_shapes] if out_shapes else [(out_dim,)] * n_out
        if has_param:
            self.w = nn.Parameter(np.array([1], dtype=object), dtype="float32")
        self.drop = nn.Dropout()
        self.seen = []

    def forward(self, X, *args):
        self.seen.append({"training": self.training, "drop_training": self.drop.training, "grad": T.GRAD_ENABLED[0],
                          "n": X.shape[0], "arg_n": [a.shape[0] for a in args], "arg_dtypes": [str(a.dtype) for a in args],
                          "x_dtype": str(X.dtype)})
        n = X.shape[0]
        for a in args:
            if a.shape[0] != n:
                raise RuntimeError("model received misaligned batch")
        outs = []
        for t in range(self.n_out):
            shp = self.out_shapes[t]
            arr = np.empty((n,) + shp, dtype=object)
            for i in range(n):
                argrows = [list(a.a[i].flat) for a in args]
                for k, cell in enumerate(np.ndindex(*shp)):
                    arr[(i,) + cell] = expected_row(t, k, list(X.a[i].flat), argrows)
            outs.append(T.Tensor(arr, dtype="float32"))
        if self.kind == "tensor":
            return outs[0]
        return tuple(outs) if self.kind == "tuple" else list(outs)


def expected_row(t, d, xrow, argrows):
    feats = [core.zn(v) for v in xrow] + [core.zn(v) for r in argrows for v in r]
    feats = [z3.ToReal(f) if z3.is_int(f) else f for f in feats]
    return core.lift(_uf("F%d_%d_%d" % (t, d, len(feats)), len(feats))(*feats))


def replay(r):
    """real torch: a generic row-wise model; predict must equal row-by-row evaluation"""
    C.real_tangermeme()
    import torch
    from tangermeme.predict import predict
    n, n_args, kind, n_out, bs = r["n"], r["n_args"], r["kind"], r["n_out"], r["batch_size"]
    g = torch.Generator().manual_seed(1234)
    X = torch.randn(n, 2, 3, generator=g, dtype=torch.float64)
    args = [torch.randn(n, 2, generator=g, dtype=torch.float64) for _ in range(n_args)]
    if r.get("bad_arg") is not None:
        args[r["bad_arg"]] = torch.randn(n + r.get("bad_delta", 1), 2, generator=g, dtype=torch.float64)

    class M(torch.nn.Module):
        def __init__(self):
            super().__init__()
            self.w = torch.nn.Parameter(torch.randn(6, 2, generator=g, dtype=torch.float64))
            self.drop = torch.nn.Dropout(0.5)
            self.flags = []

        def row(self, X, *a):
            y = torch.tanh(X.reshape(X.shape[0], -1) @ self.w)
            for k, ai in enumerate(a):
                y = y + (k + 2) * torch.sin(ai)
            return y

        def forward(self, X, *a):
            self.flags.append((self.training or self.drop.training, torch.is_grad_enabled()))
            self.arg_dtypes = [ai.dtype for ai in a]
            y = self.drop(self.row(X, *a))
            outs = [y * (t + 1) for t in range(n_out)]
            return outs[0] if kind == "tensor" else (tuple(outs) if kind == "tuple" else list(outs))
    if not r.get("has_param", True):
        class M0(torch.nn.Module):
            # no parameters: exact arithmetic on X in whatever dtype it arrives in
            def __init__(self):
                super().__init__()
                self.drop = torch.nn.Dropout(0.5)
                self.flags, self.x_dtypes = [], []

            def row(self, X, *a):
                return X.reshape(X.shape[0], -1)[:, :2] * 3

            def forward(self, X, *a):
                self.flags.append((self.training or self.drop.training, torch.is_grad_enabled()))
                self.arg_dtypes = [ai.dtype for ai in a]
                self.x_dtypes.append(X.dtype)
                outs = [self.row(X) * (t + 1) for t in range(n_out)]
                return outs[0] if kind == "tensor" else (tuple(outs) if kind == "tuple" else list(outs))
        xd = getattr(torch, r.get("x_dtype", "float32"))
        if xd.is_floating_point:
            X = (X + 1e-9 * torch.arange(n * 6, dtype=torch.float64).reshape(n, 2, 3) + 1.0 / 3).to(xd)      # not representable in float32
        else:
            X = (torch.arange(n * 6, dtype=torch.int64).reshape(n, 2, 3) + (1 << 25) + 1).to(xd)              # exact only as integers
        m0 = M0()
        y = predict(m0, X, args=tuple(args) if n_args else None, batch_size=bs, device="cpu")
        if any(f != (False, False) for f in m0.flags):
            return True, "model was called in training mode or with gradients enabled"
        if any(d != xd for d in m0.x_dtypes):
            return True, "a model without parameters received X as %s instead of the caller's %s" % (m0.x_dtypes[0], xd)
        ys = [y] if kind == "tensor" else list(y)
        for t, yt in enumerate(ys):
            if yt.dtype != xd or not torch.equal(yt, m0.row(X) * (t + 1)):
                return True, "output %d is not the model on X in the caller's dtype" % t
        return False, "ok"
    m = M()
    if r.get("x_requires_grad"):
        X = X.float().requires_grad_(True)
    m.train(r.get("top_training", True))
    m.drop.train(r.get("child_training", True))
    m.float()
    if n_args and r.get("bad_arg") is None:
        args[-1] = torch.arange(n, dtype=torch.int64).reshape(n, 1).repeat(1, 2) + (1 << 25) + 1
    want_dtypes = [a.dtype for a in args]
    X0 = X.clone()
    a0 = [a.clone() for a in args]
    try:
        y = predict(m, X, args=tuple(args) if n_args else None, batch_size=bs, device="cpu")
    except Exception as e:
        if r.get("bad_arg") is not None:
            return False, "rejected misaligned arg"
        return True, "predict raised %s: %s" % (type(e).__name__, e)
    if r.get("bad_arg") is not None:
        return True, "an args entry with a different leading dimension was accepted"
    if any(f != (False, False) for f in m.flags):
        return True, "model was called in training mode or with gradients enabled: %s" % (m.flags[:3],)
    if m.arg_dtypes != want_dtypes:
        return True, "extra arguments reached the model with dtypes %s instead of %s" % (m.arg_dtypes, want_dtypes)
    if not torch.equal(X, X0) or any(not torch.equal(a, b) for a, b in zip(args, a0)):
        return True, "inputs modified"
    with torch.no_grad():
        exp = m.row(X.float(), *args)
    ys = [y] if kind == "tensor" else list(y)
    if any(yt.requires_grad or yt.grad_fn is not None for yt in ys):
        return True, "an output carries an autograd graph: the model was not evaluated with gradients disabled" 
    if len(ys) != (1 if kind == "tensor" else n_out):
        return True, "wrong number of outputs"
    for t, yt in enumerate(ys):
        if yt.shape != exp.shape or not torch.allclose(yt.double(), exp.double() * (t + 1), atol=1e-4, rtol=1e-5):
            return True, "output %d differs from the row-wise evaluation (shape %s vs %s)" % (t, tuple(yt.shape), tuple(exp.shape))
    return False, "ok"


def worker(cfg):
    n, n_args, kind, n_out = cfg["n"], cfg["n_args"], cfg["kind"], cfg["n_out"]
    ld, shims = C.fresh_env()
    pred = ld.load("predict")
    stats = core.Stats()
    out = {"violations": [], "samples": []}

    def body(ctx):
        X = T.Tensor(np.array([[core.Real("x_%d_%d" % (i, j)) for j in range(2)] for i in range(n)], dtype=object), dtype=cfg.get("x_dtype", "float32"))
        if cfg.get("x_requires_grad"):
            X.requires_grad_(True)            # the caller's tensor takes part in an autograd graph of its own
        args = [T.Tensor(np.array([[core.Real("a%d_%d" % (k, i))] for i in range(n)], dtype=object), dtype="float32") for k in range(n_args)]
        bad = cfg.get("bad_arg")
        if bad is not None:
            nb = n + cfg["bad_delta"]
            args[bad] = T.Tensor(np.array([[core.Real("b_%d" % i)] for i in range(nb)], dtype=object), dtype="float32")
        snapX = X.a.copy()
        snapA = [a.a.copy() for a in args]
        bs = core.Int("batch_size")
        ctx.assume(bs.z >= 1)
        model = UFModel(n_out, kind, has_param=cfg.get("has_param", True))
        # arbitrary pre-state of the mode flags: the top-level module and the dropout child independently
        top_tr, child_tr = core.Bool("top_training"), core.Bool("child_training")
        model.__dict__["training"] = bool(top_tr)
        model.drop.__dict__["training"] = bool(child_tr)
        if n_args:
            args[-1].dtype = "int64"
        if n_args >= 2:
            args[0].dtype = "float64"            # wider than the model's parameters: must reach the model unrounded
        arg_dtypes = [str(a.dtype) for a in args]

        def rp(m):
            return dict(cfg, batch_size=core.model_value(m, bs), top_training=bool(core.model_value(m, top_tr)), child_training=bool(core.model_value(m, child_tr)))
        try:
            y = pred.predict(model, X, args=tuple(args) if n_args else None, batch_size=bs, device="cpu")
        except (ValueError, RuntimeError, IndexError) as e:
            if bad is None:
                m = ctx.model() if ctx.check() == z3.sat else None
                out["violations"].append(C.violation("predict:raises", "predict raised %s" % e, rp(m), replay))
            return "raised"
        if bad is not None:
            m = ctx.model() if ctx.check() == z3.sat else None
            out["violations"].append(C.violation("predict:accepts-misaligned-arg", "args entry with different leading dimension accepted", rp(m), replay))
            return "returned"
        cl = []
        for s in model.seen:
            cl.append(not s["training"] and not s["drop_training"] and not s["grad"])
            cl.append(s["arg_dtypes"] == arg_dtypes)          # extra arguments reach the model as given
            if not cfg.get("has_param", True):
                cl.append(s["x_dtype"] == str(cfg.get("x_dtype", "float32")))      # a model without parameters sees X in the caller's own dtype
        ys = [y] if kind == "tensor" else list(y)
        cl.append(isinstance(y, T.Tensor) if kind == "tensor" else (len(ys) == n_out))
        for t, yt in enumerate(ys):
            if yt.shape != (n, 2):
                cl.append(False)
                continue
            for i in range(n):
                for d in range(2):
                    cl.append(yt.a[i, d] == expected_row(t, d, list(X.a[i].flat), [list(a.a[i].flat) for a in args]))
        cl.append(C.same_objects(X.a, snapX) and all(C.same_objects(a.a, s) for a, s in zip(args, snapA)))
        m = ctx.prove(s_and(*cl), "rows == F(X[i], args[i]) in eval/no-grad")
        if m is not None:
            out["violations"].append(C.violation("predict:wrong-rows", "predict output is not the row-wise model evaluation / mode flags wrong", rp(m), replay))
        if not out["samples"]:
            out["samples"].append({"cfg": cfg, "batch_size_on_this_path": str(ctx.model().eval(bs.z)) if ctx.check() == z3.sat else None,
                                   "forward_calls": len(model.seen)})
        return "returned"

    core.explore(body, stats=stats)
    out["stats"] = stats.as_dict()
    return out


def configs(tier):
    cf = []
    ns = (1, 2, 3, 5, 6) if tier == "quick" else (1, 2, 3, 4, 5, 7, 9, 12)
    for n in ns:
        for n_args in (0, 1, 2, 3):
            for kind, n_out in (("tensor", 1), ("tuple", 2), ("list", 3), ("tuple", 1)):
                if tier == "quick" and n > 3 and (n_args == 3 or kind == "list"):
                    continue
                cf.append(dict(n=n, n_args=n_args, kind=kind, n_out=n_out))
    for n in (2, 4):
        for delta in (-1, 1):
            cf.append(dict(n=n, n_args=2, kind="tensor", n_out=1, bad_arg=1, bad_delta=delta))
    cf.append(dict(n=3, n_args=1, kind="tensor", n_out=1, has_param=False))
    # a model without parameters: X reaches it in the caller's dtype (float64 unrounded, integers exact)
    cf.append(dict(n=3, n_args=0, kind="tensor", n_out=1, has_param=False, x_dtype="float64"))
    cf.append(dict(n=2, n_args=1, kind="tuple", n_out=2, has_param=False, x_dtype="int64"))
    # the caller's X requires grad: the forward passes still run with gradients disabled
    cf.append(dict(n=3, n_args=1, kind="tensor", n_out=1, x_requires_grad=True))
    cf.append(dict(n=2, n_args=0, kind="list", n_out=3, x_requires_grad=True))
    return cf


def validate_model():
    """concrete agreement of the harness's replay oracle with the unmodified expectation"""
    n = 0
    for r in (dict(n=5, n_args=2, kind="tuple", n_out=2, batch_size=2), dict(n=4, n_args=0, kind="tensor", n_out=1, batch_size=7),
              dict(n=3, n_args=1, kind="list", n_out=3, batch_size=3)):
        replay(r)
        n += 1
    return n


def main(tier, seed):
    rep = harness.Report(PROP, tier, seed)
    ld, _ = C.fresh_env()
    rep.functions = [ld.func_info("predict", "predict")]
    cf = configs(tier)
    rep.bounds = {"n_examples": sorted({c["n"] for c in cf}), "batch_size": "unbounded symbolic Int >= 1 (one path per effective size 1..n; every b >= n is one path)",
                  "args": "0..3", "outputs": "tensor / tuple / list, 1..3"}
    rep.assumptions = ["model = uninterpreted function of each example row (any deterministic row-wise model)",
                       "device transfer and dtype cast are identities", "batch_size <= 0 outside the claim"]
    rep.absorb(harness.run_configs("checks.C03", "worker", cf))
    rep.witness_ok = rep.stats["returned"] > 0 and rep.stats["raised"] > 0
    rep.run_validation(validate_model)
    return harness.finish(rep)
