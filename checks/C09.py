"""C09 - saturation mutagenesis reports each single-character mutant at its own index.

Engine A on the real ism.saturation_mutagenesis / _edit_distance_one / _attribution_score with the
real predict underneath: symbolic sequences, symbolic window (start, end), symbolic batch size,
uninterpreted row-wise model (tensor output with trailing dimension, or tuple of outputs).
"""
import itertools
from fractions import Fraction

import numpy as np
import z3

from symtm import core, tensor as T, harness
from symtm.core import SInt, ite, s_and, s_or, s_not, s_sum
from . import common as C
from .C03 import UFModel, expected_row

PROP = "C09"
T_OUT = 2


def replay(r):
    C.real_tangermeme()
    import torch
    from tangermeme.ism import saturation_mutagenesis
    A, x, kind, n_args = r["A"], r["x"], r["kind"], r["n_args"]
    B, L = len(x), len(x[0])
    start, end, bs = r["start"], r["end"], r["batch_size"]
    X = C.real_onehot(x, A).type(torch.float64)
    g = torch.Generator().manual_seed(7)
    shapes = [tuple(s_) for s_ in r["shapes"]]
    Ws = [torch.randn(A * L, int(np.prod(sh)), generator=g, dtype=torch.float64) for sh in shapes]
    args = [torch.randn(B, 2, generator=g, dtype=torch.float64) for _ in range(n_args)]
    if n_args:
        args[-1] = torch.arange(B, dtype=torch.int64).reshape(B, 1).repeat(1, 2) * 3 + (1 << 25) + 1      # integer argument, not representable in float32

    class M(torch.nn.Module):
        def forward(self, X, *a):
            outs = []
            for t, sh in enumerate(shapes):
                y = torch.tanh(X.reshape(X.shape[0], -1) @ Ws[t])
                for k, ai in enumerate(a):
                    y = y + (k + 2) * torch.sin((ai.sum(dim=-1, keepdim=True) + torch.arange(y.shape[1])).double())
                    if not ai.is_floating_point():
                        y = y + (ai[:, :1] % 7).double()
                outs.append(y.reshape(X.shape[0], *sh))
            return outs[0] if kind == "tensor" else tuple(outs)
    m = M()
    e = L if end == -1 else end
    W = e - start
    kw = dict(start=start, end=end, batch_size=bs, device="cpu")
    try:
        if r.get("history") == "window":
            # an earlier call on same-shaped sequences with another window of the same width
            class Mw(torch.nn.Module):
                def forward(self, X):
                    return X.sum(dim=(1, 2))[:, None].repeat(1, 2)
            prevs = [r["start_prev"]] if r.get("start_prev") is not None else [s2 for s2 in range(0, L - W + 1) if s2 != start]
            for s2 in prevs:
                saturation_mutagenesis(Mw(), X.clone(), raw_outputs=True, start=s2, end=s2 + W, batch_size=bs, device="cpu")
        elif r.get("history"):
            class Mh(torch.nn.Module):
                def forward(self, X):
                    return X.sum(dim=(1, 2))[:, None].repeat(1, 2)
            saturation_mutagenesis(Mh(), C.real_onehot([[i % (A - 1) for i in range(L)]], A - 1).type(torch.float64), raw_outputs=True, **kw)
        y0, yh = saturation_mutagenesis(m, X, args=tuple(args) if n_args else None, raw_outputs=True, **kw)
    except Exception as ex:
        return True, "raised %s: %s" % (type(ex).__name__, ex)
    outs0 = [y0] if kind == "tensor" else list(y0)
    outsh = [yh] if kind == "tensor" else list(yh)
    with torch.no_grad():
        ref0 = m(X, *args)
        ref0 = [ref0] if kind == "tensor" else list(ref0)
        for t, (a0, ah) in enumerate(zip(outs0, outsh)):
            if not torch.allclose(a0, ref0[t]):
                return True, "y0 differs from the model on the original sequences"
            if tuple(ah.shape) != (B, A, W) + shapes[t]:
                return True, "y_hat output %d has shape %s, expected %s" % (t, tuple(ah.shape), (B, A, W) + shapes[t])
            for n in range(B):
                for c in range(A):
                    for p in range(start, e):
                        Xm = X[n:n + 1].clone()
                        Xm[0, :, p] = 0
                        Xm[0, c, p] = 1
                        ym = m(Xm, *[a[n:n + 1] for a in args])
                        ym = ([ym] if kind == "tensor" else list(ym))[t]
                        if not torch.allclose(ah[n, c, p - start], ym[0], atol=1e-12):
                            return True, "y_hat[%d][n=%d, c=%d, p-start=%d] is not the model on sequence %d with position %d set to %d" % (t, n, c, p - start, n, p, c)
    if kind == "tensor":
        for target in r.get("targets", [None, 0]):
            tg = slice(*target) if isinstance(target, list) else target
            for hyp in (False, True):
                attr = saturation_mutagenesis(m, X, args=tuple(args) if n_args else None, target=tg, hypothetical=hyp, **kw)
                d = yh - y0[:, None, None]
                d = d - d.mean(dim=1, keepdim=True)
                if isinstance(target, int):
                    d = d[:, :, :, [target]]
                elif isinstance(target, list):
                    d = d[:, :, :, target[0]:target[1]]
                exp = d.reshape(B, A, W, -1).mean(dim=-1)
                if not hyp:
                    exp = exp * X[:, :, start:e]
                if attr.shape != exp.shape or not torch.allclose(attr, exp, atol=1e-10):
                    return True, "attribution output (target=%s, hypothetical=%s) differs from the documented formula" % (target, hyp)
    return False, "ok"


def worker(cfg):
    ld, shims = C.fresh_env()
    ism = ld.load("ism")
    stats = core.Stats()
    out = {"violations": [], "samples": []}
    A, B, L, kind, n_args, window = cfg["A"], cfg["B"], cfg["L"], cfg["kind"], cfg["n_args"], cfg["window"]

    def body(ctx):
        xc = C.sym_chars(ctx, "x", (B, L), A)
        X = C.onehot_from_chars(xc, A, dtype="float32")
        snap = X.a.copy()
        args = [T.Tensor(np.array([[core.Real("a%d_%d" % (k, i))] for i in range(B)], dtype=object), dtype="float32") for k in range(n_args)]
        if n_args:
            args[-1].dtype = "int64"          # e.g. integer ids / coordinates: must reach the model as given
        arg_dtypes = [str(a.dtype) for a in args]
        bs = core.Int("batch_size")
        ctx.assume(bs.z >= 1)
        if window == "default":
            start, end = 0, -1
            s_, e_ = 0, L
        else:
            start, end = core.Int("start"), core.Int("end")
            ctx.assume(s_and(start >= 0, start < end, end <= L))
            s_, e_ = start, end
        shapes = [tuple(s_) for s_ in cfg["shapes"]]
        model = UFModel(len(shapes), "tuple" if kind == "tuple" else "tensor", out_shapes=shapes)

        s_prev = None
        if cfg.get("history") == "window":
            s_prev = core.Int("start_prev")
            ctx.assume(s_and(s_prev >= 0, s_prev + (end - start) <= L, s_prev != start))

        def rp(m):
            return dict(cfg, x=C.eval_chars(m, xc), start=core.model_value(m, start), end=core.model_value(m, end), batch_size=core.model_value(m, bs),
                        **({"start_prev": core.model_value(m, s_prev)} if s_prev is not None else {}))
        kw = dict(start=start, end=end, batch_size=bs, device="cpu")
        try:
            if cfg.get("history") == "window":
                # an earlier call on same-shaped sequences with ANOTHER window of the same width
                xh = C.sym_chars(ctx, "xh", (B, L), A)
                ism.saturation_mutagenesis(UFModel(1, "tensor", out_shapes=[(2,)]), C.onehot_from_chars(xh, A, dtype="float32"), raw_outputs=True,
                                           start=s_prev, end=s_prev + (end - start), batch_size=bs, device="cpu")
            elif cfg.get("history"):
                # an earlier call on the same window with a smaller alphabet (results must not depend on the call history)
                xh = C.sym_chars(ctx, "xh", (1, L), A - 1)
                ism.saturation_mutagenesis(UFModel(1, "tensor", out_shapes=[(2,)]), C.onehot_from_chars(xh, A - 1, dtype="float32"), raw_outputs=True, **kw)
            y0, yh = ism.saturation_mutagenesis(model, X, args=tuple(args) if n_args else None, raw_outputs=True, **kw)
        except Exception as e:
            if isinstance(e, core.Inconclusive):
                raise
            m = ctx.model() if ctx.check() == z3.sat else None
            out["violations"].append(C.violation("ism:raises", "saturation_mutagenesis raised %s: %s" % (type(e).__name__, e), rp(m), replay))
            return "raised"
        # the window is normally pinned by the code's own indexing; where it is not (e.g. coordinates taken from elsewhere),
        # fork on its values here so that every window is still judged
        sv = s_.__index__() if isinstance(s_, core.Sym) else s_
        ev = e_.__index__() if isinstance(e_, core.Sym) else e_
        Wn = ev - sv
        outs0 = [y0] if kind == "tensor" else list(y0)
        outsh = [yh] if kind == "tensor" else list(yh)
        cl = [len(outs0) == len(outsh)]
        cl.append(all(sn["arg_dtypes"] == arg_dtypes for sn in model.seen))          # extra arguments reach the model with their own dtype
        for t, (a0, ah) in enumerate(zip(outs0, outsh)):
            shp = shapes[t]
            cl.append(a0.shape == (B,) + shp)
            cl.append(ah.shape == (B, A, Wn) + shp)
            if a0.shape != (B,) + shp or ah.shape != (B, A, Wn) + shp:
                continue
            for n in range(B):
                argrows = [list(a.a[n].flat) for a in args]
                for d, cell in enumerate(np.ndindex(*shp)):
                    cl.append(a0.a[(n,) + cell] == expected_row(t, d, list(X.a[n].flat), argrows))
                for c in range(A):
                    for p in range(sv, ev):
                        row = X.a[n].copy()
                        row[:, p] = 0
                        row[c, p] = 1
                        for d, cell in enumerate(np.ndindex(*shp)):
                            cl.append(ah.a[(n, c, p - sv) + cell] == expected_row(t, d, list(row.flat), argrows))
        m = ctx.prove(s_and(*cl), "y0 / y_hat indices")
        if m is not None:
            key = "ism:tuple-output-mutant-order" if kind == "tuple" else "ism:wrong-mutant-index"
            out["violations"].append(C.violation(key, "raw outputs: y_hat[n, c, p-start] is not the model on the (n, p:=c) mutant", rp(m), replay))
            return "returned"
        if not C.same_objects(X.a, snap):
            m = ctx.prove(s_and(*[X.a.flat[i] == snap.flat[i] for i in range(snap.size)]), "input unchanged")
            if m is not None:
                out["violations"].append(C.violation("ism:modifies-input", "input modified", rp(m), replay))
        if kind == "tensor":
            shp = shapes[0]
            for target in cfg["targets"]:
                tg = slice(*target) if isinstance(target, list) else target
                for hyp in (False, True):
                    model2 = UFModel(1, "tensor", out_shapes=shapes)
                    try:
                        attr = ism.saturation_mutagenesis(model2, X, args=tuple(args) if n_args else None, target=tg, hypothetical=hyp, **kw)
                    except Exception as e:
                        if isinstance(e, core.Inconclusive):
                            raise
                        m = ctx.model() if ctx.check() == z3.sat else None
                        out["violations"].append(C.violation("ism:attribution-raises", "attribution call raised %s: %s" % (type(e).__name__, e), dict(rp(m), targets=[target]), replay))
                        continue
                    cl = [attr.shape == (B, A, Wn)]
                    if attr.shape == (B, A, Wn):
                        if target is None:
                            cells = list(np.ndindex(*shp))
                        elif isinstance(target, int):
                            cells = [c_ for c_ in np.ndindex(*shp) if c_[0] == target % shp[0]]          # negative targets index from the end
                        else:
                            cells = [c_ for c_ in np.ndindex(*shp) if target[0] <= c_[0] < target[1]]
                        for n in range(B):
                            for w in range(Wn):
                                for c in range(A):
                                    tot = 0
                                    for cell in cells:
                                        dcs = [yh.a[(n, c2, w) + cell] - y0.a[(n,) + cell] for c2 in range(A)]
                                        tot = tot + (dcs[c] - s_sum(dcs) * Fraction(1, A))
                                    val = tot * Fraction(1, len(cells))
                                    if not hyp:
                                        val = val * X.a[n, c, sv + w]
                                    cl.append(attr.a[n, c, w] == val)
                    m = ctx.prove(s_and(*cl), "attribution formula")
                    if m is not None:
                        out["violations"].append(C.violation("ism:attribution-formula", "attribution output (target=%s, hypothetical=%s) is not the documented function of y0, y_hat" % (target, hyp), dict(rp(m), targets=[target]), replay))
        if not out["samples"]:
            out["samples"].append({"cfg": cfg, "window_on_path": [sv, ev]})
        return "returned"

    core.explore(body, stats=stats, max_paths=20000)
    out["stats"] = stats.as_dict()
    return out


def configs(tier):
    cf = []
    if tier == "quick":
        shapes = [(2, 1, 3), (2, 2, 3), (3, 1, 4), (4, 1, 2)]
    else:
        shapes = [(2, 1, 3), (2, 2, 3), (3, 1, 4), (4, 1, 2), (4, 2, 4), (5, 1, 3), (2, 1, 6), (3, 2, 5)]
    for A, B, L in shapes:
        rich = (A, B, L) in ((2, 1, 3), (3, 1, 4), (2, 2, 3))
        for kind in ("tensor", "tuple"):
            for n_args in (0, 1) if tier == "quick" else (0, 1, 2):
                for window in ("sym", "default"):
                    if tier == "quick" and window == "default" and (n_args == 1 and kind == "tuple"):
                        continue
                    if kind == "tuple":
                        oshapes = [[2], [3]] if rich else [[2], [2]]          # outputs with different trailing shapes
                        targets = []
                    elif n_args == 0:
                        oshapes = [[3]]
                        targets = [None, 0, 2, -1, [0, 2], [1, 3]] if rich else [1, -2, [1, 3]]   # slices that are strict subsets
                    else:
                        oshapes = [[2, 2]]                                       # extra trailing output dimension
                        targets = [None, 1, -1, [0, 1]] if rich else [1]
                    cf.append(dict(A=A, B=B, L=L, kind=kind, n_args=n_args, window=window, shapes=oshapes, targets=targets))
    cf.append(dict(A=3, B=1, L=3, kind="tensor", n_args=0, window="sym", shapes=[[3]], targets=[None], history=True))
    cf.append(dict(A=3, B=1, L=3, kind="tensor", n_args=0, window="default", shapes=[[3]], targets=[1], history=True))
    cf.append(dict(A=2, B=1, L=4, kind="tensor", n_args=0, window="sym", shapes=[[3]], targets=[None], history="window"))
    cf.append(dict(A=3, B=2, L=3, kind="tuple", n_args=0, window="sym", shapes=[[2], [3]], targets=[], history="window"))
    return cf


def main(tier, seed):
    rep = harness.Report(PROP, tier, seed)
    ld, _ = C.fresh_env()
    rep.functions = [ld.func_info("ism", f) for f in ("saturation_mutagenesis", "_edit_distance_one", "_attribution_score")] + [ld.func_info("predict", "predict")]
    cf = configs(tier)
    rep.bounds = {"A,B,L": sorted({(c["A"], c["B"], c["L"]) for c in cf}), "windows": "every 0 <= start < end <= L (symbolic, enumerated) and the default (0, -1)",
                  "batch_size": "unbounded symbolic Int >= 1", "outputs": "tensor (n,3) and (n,2,2); tuple of outputs with different trailing shapes", "targets": "None, int, strict-subset slices"}
    rep.assumptions = ["model = uninterpreted row-wise function", "end = -1 with start > 0 and end < -1 are outside the claim (the code raises on reshape)",
                       "attribution formula checked for tensor-output models (the attribution path does not accept tuples)"]
    rep.absorb(harness.run_configs("checks.C09", "worker", cf))
    rep.witness_ok = rep.stats["returned"] > 0
    for r in (dict(A=4, x=[[0, 1, 2, 3, 1]], kind="tensor", n_args=1, start=1, end=4, batch_size=3, shapes=[[2, 2]], targets=[None, 1, [0, 1]]),
              dict(A=3, x=[[0, 1, 2], [2, 2, 1]], kind="tensor", n_args=0, start=0, end=-1, batch_size=50, shapes=[[3]], targets=[None, 0, [1, 3]])):
        replay(r)
        rep.validated += 1
    return harness.finish(rep)
