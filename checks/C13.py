"""C13 - TOMTOM results are independent of threads, co-processed queries and their order.

Engine A runs the real tomtom.tomtom / _tomtom and all five kernels from their Python source on the numpy model with
  * every scratch array from numpy.empty modelled as ARBITRARY memory (an over-approximation of whatever an earlier - longer or
    shorter - query, another thread or the allocator left there): an output cell that still mentions such a value, or a branch
    decided on one, is a dependence on history / schedule;
  * numba.get_thread_id() returning a SYMBOLIC id in [0, get_num_threads()): the solver enumerates every assignment of loop
    iterations to threads (iteration granularity; numba guarantees concurrently running iterations distinct ids).
Query / target values are concrete coarse-grid PWMs (the distance kernel is float / sqrt / floor and cannot be symbolic).
"""
import itertools

import numpy as np
import z3

from symtm import core, tensor as T, harness
from symtm.core import ite, s_and, s_or, s_not, s_sum
from . import common as C

PROP = "C13"
GRID = [0.0, 0.25, 0.5, 0.75, 1.0]
COLS = [c for c in itertools.product(GRID, repeat=4) if abs(sum(c) - 1) < 1e-9]


def pwm(rng, n):
    return [list(COLS[rng.randint(len(COLS))]) for _ in range(n)]


def case(seed):
    rng = np.random.RandomState(seed)
    qs = [pwm(rng, int(rng.randint(1, 4))) for _ in range(3)]
    ts = [pwm(rng, int(rng.randint(1, 4))) for _ in range(int(rng.randint(2, 4)))]
    if seed == 0:       # the shape that exposed a history dependence: single-column query, best score 0
        qs = [[[0., 0., 0.25, 0.75]], [[0.25, 0.75, 0., 0.]], [[0.1, 0.2, 0.3, 0.4], [0.7, 0.1, 0.1, 0.1]]]
        ts = [[[0.25, 0.75, 0., 0.]] * 3, [[0., 0.75, 0., 0.25]]]
    return qs, ts


# ------------------------------------------------------------------ replay on the real compiled tomtom

def replay(r):
    C.real_tangermeme()
    import numpy
    from tangermeme.tools.tomtom import tomtom
    for seed in [r.get("seed", 0)] + list(range(12)):
        qs, ts = case(seed)
        Qs = [numpy.array(q).T.copy() for q in qs]
        Ts = [numpy.array(t).T.copy() for t in ts]
        for rc in (False, True):
            kw = dict(reverse_complement=rc, n_target_bins=None, n_score_bins=r.get("n_score_bins", 10))
            try:
                full = tomtom(Qs, Ts, n_jobs=1, **kw)
                for k, q in enumerate(Qs):
                    alone = tomtom([q], Ts, n_jobs=1, **kw)
                    if not numpy.array_equal(alone[:, 0].numpy(), full[:, k].numpy()):
                        return True, "seed %d rc=%s: result of query %d differs between processing it alone and with the others: %s vs %s" % (seed, rc, k, alone[:, 0].tolist(), full[:, k].tolist())
                rev = tomtom(Qs[::-1], Ts, n_jobs=1, **kw)
                if not numpy.array_equal(rev.numpy()[:, ::-1], full.numpy()):
                    return True, "seed %d rc=%s: results depend on the order of the queries" % (seed, rc)
                for nj in (2, 5):
                    par = tomtom(Qs, Ts, n_jobs=nj, **kw)
                    if not numpy.array_equal(par.numpy(), full.numpy()):
                        return True, "seed %d rc=%s: results with n_jobs=%d differ from n_jobs=1" % (seed, rc, nj)
                nn_ = min(2, len(Ts))
                near = tomtom(Qs, Ts, n_jobs=1, n_nearest=nn_, **kw)
                for k in range(len(Qs)):
                    order = numpy.argsort(full[0, k].numpy(), kind="stable")[:nn_]
                    if not numpy.allclose(near[0, k].numpy(), numpy.sort(full[0, k].numpy())[:nn_]):
                        return True, "seed %d: n_nearest p-values are not the %d smallest of the full row" % (seed, nn_)
                    idx = near[5, k].numpy().astype(int)
                    for c in range(5):
                        if not numpy.array_equal(near[c, k].numpy(), full[c, k].numpy()[idx]):
                            return True, "seed %d: n_nearest field %d does not belong to the reported target indices" % (seed, c)
            except Exception as e:
                return True, "tomtom raised %s: %s" % (type(e).__name__, e)
    return False, "ok"


# ------------------------------------------------------------------ symbolic harness

def worker(cfg):
    ld, shims = C.fresh_env()
    tt = ld.load("tools.tomtom")
    stats = core.Stats()
    out = {"violations": [], "samples": []}
    numba_s = shims["numba"]
    qs, ts = case(cfg["seed"])
    rc = cfg["rc"]

    def add(key, what):
        out["violations"].append(C.violation(key, what, dict(cfg), replay))

    def arr(p):
        return T.NDArray(np.array(p, dtype=object).T.copy(), dtype="float64")

    def run(ctx, q_idx, n_jobs, n_nearest=None):
        """one tomtom() call; returns (numpy object array of results, #havoc-dependent branches)"""
        before = len([d for d in ctx.decisions if d[2] is None])
        tid = {"k": 0}

        def get_thread_id():
            tid["k"] += 1
            n = numba_s.get_num_threads()
            if n == 1:
                return 0
            v = core.Int(ctx.fresh_name("thread_id"))
            ctx.assume(s_and(v >= 0, v < n))
            return int(v)
        numba_s.get_thread_id = get_thread_id
        tt.numba.get_thread_id = get_thread_id
        res = tt.tomtom([arr(qs[k]) for k in q_idx], [arr(t) for t in ts], n_nearest=n_nearest, n_score_bins=cfg["n_score_bins"], n_median_bins=50,
                        n_target_bins=None, n_cache=cfg.get("n_cache", 30), reverse_complement=rc, n_jobs=n_jobs)
        after = len([d for d in ctx.decisions if d[2] is None])
        return res.a, after - before

    class HavocDependence(Exception):
        pass

    def body(ctx):
        mode = cfg["mode"]
        nb_ = {"n": 0}
        if out["violations"]:
            return "returned"                 # one confirmed counterexample per configuration is enough

        def on_branch(cond):
            # all inputs are concrete: every data-dependent branch is a branch on uninitialised / stale scratch memory
            nb_["n"] += 1
            if nb_["n"] > 12:
                raise HavocDependence("more than 12 branches decided on uninitialised scratch memory")
        ctx.state["on_branch"] = on_branch
        try:
            if mode == "history":
                base = {}
                for k in range(len(qs)):
                    base[k], nb = run(ctx, [k], 1)
                    if nb or T.has_sym(base[k]):
                        add("tomtom:depends-on-uninitialised-scratch", "query %d processed alone: result depends on uninitialised scratch memory (%d branches on it)" % (k, nb))
                        return "returned"
                for order in cfg["orders"]:
                    full, nb = run(ctx, order, 1)
                    if nb or T.has_sym(full):
                        add("tomtom:depends-on-previous-query", "queries %s in one call: a result depends on what an earlier query left in the per-thread scratch (%d branches on it)" % (order, nb))
                        return "returned"
                    for pos, k in enumerate(order):
                        ctx.stats.obligations += 1
                        if np.array_equal(np.array(full[:, pos].tolist(), dtype=float), np.array(base[k][:, 0].tolist(), dtype=float)):
                            ctx.stats.discharged += 1
                        else:
                            add("tomtom:depends-on-co-processed-queries", "query %d gives a different result when processed in the list %s" % (k, order))
                            return "returned"
            elif mode == "threads":
                base, _ = run(ctx, list(range(len(qs))), 1)
                par, nb = run(ctx, list(range(len(qs))), cfg["n_jobs"])
                ctx.stats.obligations += 1
                if nb or T.has_sym(par) or not np.array_equal(np.array(par.tolist(), dtype=float), np.array(base.tolist(), dtype=float)):
                    add("tomtom:depends-on-thread-assignment", "results with %d threads (some assignment of queries to threads) differ from the single-thread results" % cfg["n_jobs"])
                    return "returned"
                ctx.stats.discharged += 1
                if numba_s.get_num_threads() != 1:
                    add("tomtom:thread-count-not-restored", "numba thread count not restored after tomtom(n_jobs=%d)" % cfg["n_jobs"])
            elif mode == "nearest":
                base, _ = run(ctx, list(range(len(qs))), 1)
                nn_ = cfg["n_nearest"]
                near, nb = run(ctx, list(range(len(qs))), 1, n_nearest=nn_)
                ok = not nb and not T.has_sym(near)
                for k in range(len(qs)):
                    row = [float(v) for v in base[0, k]]
                    order = sorted(range(len(row)), key=lambda j: (row[j], j))[:nn_]
                    got_p = [float(v) for v in near[0, k]]
                    ok = ok and got_p == sorted(row)[:nn_]
                    idx = [int(v) for v in near[5, k]]
                    for c_ in range(5):
                        ok = ok and [float(v) for v in near[c_, k]] == [float(base[c_, k][j]) for j in idx]
                    ok = ok and sorted(idx) == sorted(set(idx))
                ctx.stats.obligations += 1
                if ok:
                    ctx.stats.discharged += 1
                else:
                    add("tomtom:n-nearest", "n_nearest rows are not the n smallest p-values of the full row with matching fields and indices")
        except HavocDependence as e:
            add("tomtom:depends-on-uninitialised-scratch", "control flow of a TOMTOM kernel depends on uninitialised / stale scratch memory (%s)" % e)
            return "returned"
        except IndexError as e:
            add("tomtom:out-of-bounds", "a TOMTOM kernel indexes outside an array: %s" % e)
            return "raised"
        except Exception as e:
            if isinstance(e, core.Inconclusive):
                raise
            add("tomtom:raises", "tomtom raised %s: %s" % (type(e).__name__, e))
            return "raised"
        finally:
            numba_s.set_num_threads(1)
        if len(out["samples"]) < 2:
            out["samples"].append({"cfg": cfg, "thread_assignment_decisions": len([d for d in ctx.decisions if d[2] is not None])})
        return "returned"

    core.explore(body, stats=stats, max_paths=5000, reset=ld.restore)
    out["stats"] = stats.as_dict()
    return out


def configs(tier):
    q = tier == "quick"
    cf = []
    for seed in ((0, 1) if q else (0, 1, 2, 3, 4, 5)):
        for rc in (False, True):
            cf.append(dict(mode="history", seed=seed, rc=rc, n_score_bins=6, orders=[[0, 1, 2], [2, 1, 0], [1, 2], [2, 2, 0]]))
    for seed in ((0, 2) if q else (0, 1, 2, 3)):
        cf.append(dict(mode="threads", seed=seed, rc=(seed % 2 == 0), n_score_bins=6, n_jobs=2))
    if not q:
        cf.append(dict(mode="threads", seed=1, rc=False, n_score_bins=6, n_jobs=3))
    for seed in ((1,) if q else (1, 3, 5)):
        cf.append(dict(mode="nearest", seed=seed, rc=True, n_score_bins=6, n_nearest=2))
    return cf


def main(tier, seed):
    rep = harness.Report(PROP, tier, seed)
    ld, _ = C.fresh_env()
    rep.functions = [ld.func_info("tools.tomtom", f) for f in ("tomtom", "_tomtom", "_integer_distances_and_histogram", "_binned_median", "_p_value_backgrounds", "_pairwise_max", "_p_values", "_merge_rc_results")]
    cf = configs(tier)
    rep.bounds = {"pwm_sets": "coarse-grid PWMs (entries in {0, .25, .5, .75, 1}), 3 queries of length 1-3, 2-3 targets of length 1-3, seeds %s" % sorted({c["seed"] for c in cf}),
                  "histories": "each query alone vs lists [0,1,2], [2,1,0], [1,2], [2,2,0] on one reused scratch", "threads": "2 (3 in thorough): every assignment of iterations to thread ids",
                  "n_score_bins": 6}
    rep.assumptions = ["scratch from numpy.empty is arbitrary memory; its reuse across queries of one thread is modelled by the real sequential execution on the same buffers",
                       "numba's contract: concurrently running prange iterations have distinct get_thread_id(); actual OS scheduling / intra-iteration races are outside the claim",
                       "query / target values are concrete (float distance kernel); column hashing (n_target_bins) disabled; annotate_seqlets only through tomtom"]
    rep.absorb(harness.run_configs("checks.C13", "worker", cf))
    rep.witness_ok = rep.stats["returned"] > 0
    return harness.finish(rep)
