"""C13 - TOMTOM results are independent of threads, co-processed queries and their order.

Engine A runs the real tomtom.tomtom / _tomtom and all five kernels from their Python source on the numpy model with
  * every scratch array from numpy.empty modelled as ARBITRARY memory (an over-approximation of whatever an earlier - longer or
    shorter - query, another thread or the allocator left there): an output cell that still mentions such a value, or a branch
    decided on one, is a dependence on history / schedule;
  * numba.get_thread_id() returning a SYMBOLIC id in [0, get_num_threads()): the solver enumerates every assignment of loop
    iterations to threads (iteration granularity; numba guarantees concurrently running iterations distinct ids).
Query / target values are concrete coarse-grid PWMs (the distance kernel is float / sqrt / floor and cannot be symbolic).
"""
import itertools

import numpy as np
import z3

from symtm import core, tensor as T, harness
from symtm.core import ite, s_and, s_or, s_not, s_sum
from . import common as C

PROP = "C13"
GRID = [0.0, 0.25, 0.5, 0.75, 1.0]
COLS = [c for c in itertools.product(GRID, repeat=4) if abs(sum(c) - 1) < 1e-9]


def pwm(rng, n):
    return [list(COLS[rng.randint(len(COLS))]) for _ in range(n)]


def case(seed):
    rng = np.random.RandomState(seed)
    qs = [pwm(rng, int(rng.randint(1, 4))) for _ in range(3)]
    ts = [pwm(rng, int(rng.randint(1, 4))) for _ in range(int(rng.randint(2, 4)))]
    if seed == 0:       # the shape that exposed a history dependence: single-column query, best score 0
        qs = [[[0., 0., 0.25, 0.75]], [[0.25, 0.75, 0., 0.]], [[0.1, 0.2, 0.3, 0.4], [0.7, 0.1, 0.1, 0.1]]]
        ts = [[[0.25, 0.75, 0., 0.]] * 3, [[0., 0.75, 0., 0.25]]]
    return qs, ts


# ------------------------------------------------------------------ replay on the real compiled tomtom

def _replay_extra(r):
    import numpy
    import torch
    from tangermeme.tools.tomtom import tomtom
    rs = numpy.random.RandomState(0)
    if r["mode"] in ("nearest_sym", "nearest"):
        noisy = lambda x, eps: (lambda y: y / y.sum(0, keepdims=True))((1 - eps) * x + eps * rs.dirichlet([1.0] * 4, size=x.shape[1]).T)
        embed = lambda x, a, b: numpy.concatenate([rs.dirichlet([0.5] * 4, size=a).T, x, rs.dirichlet([0.5] * 4, size=b).T], axis=1)
        queries = [rs.dirichlet([0.2] * 4, size=L).T for L in (12, 7, 15)]
        targets = [embed(noisy(queries[0], eps), a, b) for eps in (0.25, 0.3, 0.35, 0.4, 0.45, 0.5) for (a, b) in ((0, 0), (2, 2), (8, 8), (0, 15))]
        targets += [rs.dirichlet([0.3] * 4, size=rs.randint(5, 20)).T for _ in range(6)]
        for kw in (dict(), dict(reverse_complement=False, n_target_bins=None)):
            full = tomtom(queries, targets, **kw).numpy()
            for n in (1, 2, 3, 5, 8, 12, len(targets)):
                nn_ = tomtom(queries, targets, n_nearest=n, **kw).numpy()
                for i in range(len(queries)):
                    p, idxs = nn_[0, i], nn_[5, i].astype(int)
                    if not numpy.array_equal(p, numpy.sort(full[0, i])[:n]):
                        return True, "n_nearest=%d: returned p-values %s are not the %d smallest of the full row in ascending order %s" % (n, p[:4], n, numpy.sort(full[0, i])[:4])
                    if len(set(idxs.tolist())) != n or any(not numpy.array_equal(nn_[f, i], full[f, i, idxs]) for f in range(5)):
                        return True, "n_nearest=%d: fields do not belong to the reported target indices" % n
        return False, "ok"
    if r["mode"] == "many":
        many = [rs.dirichlet([1, 1, 1, 1], size=1 + (k % 2)).T for k in range(r["n_queries"])]
        ts_ = [rs.dirichlet([1, 1, 1, 1], size=3).T, rs.dirichlet([1, 1, 1, 1], size=2).T]
        for nj in (1, 2):
            full = tomtom(many, ts_, n_jobs=nj, reverse_complement=False, n_target_bins=None).numpy()
            for k in r["probe"]:
                alone = tomtom([many[k]], ts_, n_jobs=1, reverse_complement=False, n_target_bins=None).numpy()
                if not numpy.array_equal(full[:, k], alone[:, 0]):
                    return True, "query %d of %d (n_jobs=%d) differs from the same query processed alone" % (k, len(many), nj)
        return False, "ok"
    if r["mode"] == "annotate":
        import pandas
        from tangermeme.annotate import annotate_seqlets
        motifs = {"m%d" % i: torch.from_numpy(rs.dirichlet([0.3] * 4, size=L).T) for i, L in enumerate([6, 9, 12, 15, 8, 10])}
        L = 40
        seq = rs.randint(4, size=L)
        seq[17] = 0
        X = torch.zeros(2, 4, L, dtype=torch.float64)
        X[0, seq, numpy.arange(L)] = 1
        X[1] = X[0]
        X[1, :, 17] = 0
        seqlets = pandas.DataFrame({"example_idx": [0, 1, 0, 1], "start": [10, 10, 4, 14], "end": [24, 24, 15, 30]})
        run_ = lambda rows, **kw: tuple(v.numpy() for v in annotate_seqlets(X, seqlets.iloc[rows], motifs, **kw))
        for kw in (dict(n_nearest=1), dict(n_nearest=3), dict(n_nearest=2, n_target_bins=None, n_jobs=2)):
            try:
                alone = [run_([i], **kw) for i in range(4)]
            except Exception as e:
                return True, "annotate_seqlets raised %s: %s on a one-row selection of a seqlet table" % (type(e).__name__, e)
            for rows in ([0, 1, 2, 3], [3, 2, 1, 0], [1, 0], [1, 1, 0, 0, 3]):
                try:
                    idxs, pv = run_(rows, **kw)
                except Exception as e:
                    return True, "annotate_seqlets raised %s: %s on rows %s of a seqlet table" % (type(e).__name__, e, rows)
                for k, rr in enumerate(rows):
                    if not numpy.array_equal(pv[k], alone[rr][1][0]) or not numpy.array_equal(idxs[k], alone[rr][0][0]):
                        return True, "annotation of seqlet %d changes when co-annotated with %s" % (rr, rows)
        return False, "ok"
    return None


def _replay_offsets(r):
    """real tomtom: one call with very many query columns; late queries against the same queries alone"""
    import numpy
    import torch
    from tangermeme.tools.tomtom import tomtom
    rs = numpy.random.RandomState(5)
    base = [rs.dirichlet([0.5] * 4, size=l).T for l in (6, 9, 4, 11, 7, 5, 8, 10, 6, 10)]
    targets = [rs.dirichlet([0.5] * 4, size=l).T for l in (8, 12, 6)]
    kw = dict(n_jobs=1, reverse_complement=False, n_target_bins=None)
    try:
        alone = tomtom(base, targets, **kw)
        for reps in (2, 20, 460):                      # 152, 1520, 34960 query columns (beyond 8-, and 16-bit counters)
            res = tomtom(base * reps, targets, **kw)
            for k in range(len(base) * reps):
                if not torch.equal(res[:, k], alone[:, k % len(base)]):
                    return True, "query %d of %d (start column %d) differs from the same query in a short call" % (k, len(base) * reps, sum(b.shape[1] for b in base) * (k // len(base)))
    except Exception as e:
        return True, "tomtom raised %s: %s" % (type(e).__name__, e)
    return False, "ok"


def _replay_history(r):
    """real tomtom: queries with strong hits processed right after longer / differently scaled queries vs alone"""
    import numpy
    import torch
    from tangermeme.tools.tomtom import tomtom
    rs = numpy.random.RandomState(13)

    def pwm(length):
        m = rs.choice(17, p=[0.2] + [0.05] * 16, size=(length, 4)).astype(float)
        m[m.sum(axis=1) == 0] = [1, 0, 0, 0]
        return (m / m.sum(axis=1, keepdims=True)).T
    targets = [pwm(l) for l in (7, 9, 12, 15, 18, 20, 6, 11, 14, 10)]
    queries = []
    for k, l in enumerate((3, 4, 5, 6, 8, 10, 12)):
        queries.append(targets[2 + k % 4][:, 1:1 + l] * 0.9 + 0.025)
        queries.append(pwm(l))
    longs = [pwm(l) for l in (20, 16, 13)]
    for kw in (dict(), dict(reverse_complement=False, n_jobs=1), dict(n_score_bins=20, n_jobs=1)):
        try:
            alone = [tomtom([q_], targets, **kw)[:, 0] for q_ in queries]
            for lg in longs:
                batch, idx = [], []
                for j, q_ in enumerate(queries):
                    batch += [lg, q_]
                    idx += [-1, j]
                res = tomtom(batch, targets, **kw)
                for pos, j in enumerate(idx):
                    if j >= 0 and not torch.equal(res[:, pos], alone[j]):
                        d = (res[:, pos] - alone[j]).abs().amax(dim=1)
                        return True, "a query of length %d processed after a query of length %d differs from the same query alone (max abs diff p/score/offset/overlap/strand %s)" % (queries[j].shape[-1], lg.shape[-1], d.tolist())
        except Exception as e:
            return True, "tomtom raised %s: %s" % (type(e).__name__, e)
    return False, "ok"


_SMALL_CACHE_SCRIPT = r"""
import sys, json, itertools, numpy
sys.path.insert(0, sys.argv[1])
from tangermeme.tools.tomtom import tomtom
n_cache, nsb = int(sys.argv[2]), int(sys.argv[3])
cases = json.loads(sys.argv[4])
out = []
for qs, ts in cases:
    Qs = [numpy.array(q).T.copy() for q in qs]
    Ts = [numpy.array(t).T.copy() for t in ts]
    kw = dict(n_jobs=1, n_cache=n_cache, n_score_bins=nsb, n_target_bins=None, reverse_complement=False)
    def call(qq):
        try:
            return tomtom(qq, Ts, **kw).numpy().tolist()
        except ValueError as e:
            return "rejected" if "n_cache" in str(e) else "raised ValueError: %s" % e
        except Exception as e:
            return "raised %s: %s" % (type(e).__name__, e)
    alone = [call([q]) for q in Qs]
    out.append({"alone": alone, "full": call(Qs), "rev": call(Qs[::-1])})
    print("RESULT " + json.dumps(out), flush=True)
"""


def _replay_small_cache(r):
    """real compiled tomtom with an n_cache smaller than the score offset, in a child process (out-of-bounds scratch accesses
    of the compiled kernels corrupt the heap): every call must either be rejected or give in-range, history-independent results"""
    import json
    import math
    import os
    import subprocess
    import sys
    cases = [case(sd) for sd in [r.get("seed", 0)] + [k for k in range(6) if k != r.get("seed", 0)]]
    cases = [([[list(map(float, c)) for c in q] for q in qs], [[list(map(float, c)) for c in t] for t in ts]) for qs, ts in cases]
    p = subprocess.run([sys.executable, "-c", _SMALL_CACHE_SCRIPT, C.REPO, str(r["n_cache"]), str(r.get("n_score_bins", 6)), json.dumps(cases)],
                       stdout=subprocess.PIPE, stderr=subprocess.PIPE, text=True, timeout=900, env=dict(os.environ))
    lines = [l for l in p.stdout.splitlines() if l.startswith("RESULT ")]
    done = json.loads(lines[-1][7:]) if lines else []
    for k, res in enumerate(done):
        runs = list(res["alone"]) + [res["full"], res["rev"]]
        for v in runs:
            if isinstance(v, str) and v != "rejected":
                return True, "n_cache=%d: tomtom %s" % (r["n_cache"], v)
            if not isinstance(v, str):
                ps = [x for row in v[0] for x in row]
                if any((not isinstance(x, float)) or math.isnan(x) or x < 0 or x > 1 for x in ps):
                    return True, "n_cache=%d smaller than the score offset: p-values %s are not probabilities (scratch arrays indexed out of bounds)" % (r["n_cache"], ps[:4])
        n = len(res["alone"])
        for full, order in ((res["full"], list(range(n))), (res["rev"], list(range(n))[::-1])):
            if isinstance(full, str):
                if all(not isinstance(a, str) for a in res["alone"]):
                    return True, "n_cache=%d: the call with all queries is rejected although every query alone is accepted" % r["n_cache"]
                continue
            for pos, q in enumerate(order):
                a = res["alone"][q]
                if not isinstance(a, str) and [f[pos] for f in full] != [f[0] for f in a]:
                    return True, "n_cache=%d: query %d differs between alone and co-processed" % (r["n_cache"], q)
    if p.returncode != 0:
        return True, "n_cache=%d smaller than the score offset: the process running tomtom died with status %d after %d of %d query sets (%s)" % (
            r["n_cache"], p.returncode, len(done), len(cases), (p.stderr.strip().splitlines() or ["no message"])[-1][:160])
    return False, "ok"


def replay(r):
    C.real_tangermeme()
    import numpy
    from tangermeme.tools.tomtom import tomtom
    if r.get("mode") == "history" and r.get("n_cache") is not None:
        return _replay_small_cache(r)
    if r.get("mode") == "kernel_history":
        return _replay_history(r)
    if r.get("mode") == "offsets":
        return _replay_offsets(r)
    if r.get("mode") in ("nearest_sym", "many", "annotate"):
        return _replay_extra(r)
    for seed in [r.get("seed", 0)] + list(range(12)):
        qs, ts = case(seed)
        Qs = [numpy.array(q).T.copy() for q in qs]
        Ts = [numpy.array(t).T.copy() for t in ts]
        for rc in (False, True):
            kw = dict(reverse_complement=rc, n_target_bins=r.get("n_target_bins"), n_score_bins=r.get("n_score_bins", 10))
            try:
                full = tomtom(Qs, Ts, n_jobs=1, **kw)
                for k, q in enumerate(Qs):
                    alone = tomtom([q], Ts, n_jobs=1, **kw)
                    if not numpy.array_equal(alone[:, 0].numpy(), full[:, k].numpy()):
                        return True, "seed %d rc=%s: result of query %d differs between processing it alone and with the others: %s vs %s" % (seed, rc, k, alone[:, 0].tolist(), full[:, k].tolist())
                rev = tomtom(Qs[::-1], Ts, n_jobs=1, **kw)
                if not numpy.array_equal(rev.numpy()[:, ::-1], full.numpy()):
                    return True, "seed %d rc=%s: results depend on the order of the queries" % (seed, rc)
                for nj in (2, 5):
                    par = tomtom(Qs, Ts, n_jobs=nj, **kw)
                    if not numpy.array_equal(par.numpy(), full.numpy()):
                        return True, "seed %d rc=%s: results with n_jobs=%d differ from n_jobs=1" % (seed, rc, nj)
                nn_ = min(2, len(Ts))
                near = tomtom(Qs, Ts, n_jobs=1, n_nearest=nn_, **kw)
                for k in range(len(Qs)):
                    order = numpy.argsort(full[0, k].numpy(), kind="stable")[:nn_]
                    if not numpy.allclose(near[0, k].numpy(), numpy.sort(full[0, k].numpy())[:nn_]):
                        return True, "seed %d: n_nearest p-values are not the %d smallest of the full row" % (seed, nn_)
                    idx = near[5, k].numpy().astype(int)
                    for c in range(5):
                        if not numpy.array_equal(near[c, k].numpy(), full[c, k].numpy()[idx]):
                            return True, "seed %d: n_nearest field %d does not belong to the reported target indices" % (seed, c)
            except Exception as e:
                return True, "tomtom raised %s: %s" % (type(e).__name__, e)
    return False, "ok"


# ------------------------------------------------------------------ symbolic harness

def worker(cfg):
    ld, shims = C.fresh_env()
    tt = ld.load("tools.tomtom")
    stats = core.Stats()
    out = {"violations": [], "samples": []}
    numba_s = shims["numba"]
    qs, ts = case(cfg["seed"])
    rc = cfg["rc"]

    def add(key, what):
        out["violations"].append(C.violation(key, what, dict(cfg), replay))

    def arr(p):
        return T.NDArray(np.array(p, dtype=object).T.copy(), dtype="float64")

    def run(ctx, q_idx, n_jobs, n_nearest=None):
        """one tomtom() call; returns (numpy object array of results, #havoc-dependent branches)"""
        before = len([d for d in ctx.decisions if d[2] is None])
        tid = {"k": 0}

        def get_thread_id():
            tid["k"] += 1
            n = numba_s.get_num_threads()
            if n == 1:
                return 0
            v = core.Int(ctx.fresh_name("thread_id"))
            ctx.assume(s_and(v >= 0, v < n))
            return int(v)
        numba_s.get_thread_id = get_thread_id
        tt.numba.get_thread_id = get_thread_id
        try:
            res = tt.tomtom([arr(qs[k]) for k in q_idx], [arr(t) for t in ts], n_nearest=n_nearest, n_score_bins=cfg["n_score_bins"], n_median_bins=50,
                            n_target_bins=cfg.get("n_target_bins"), n_cache=cfg.get("n_cache", 30), reverse_complement=rc, n_jobs=n_jobs)
        except ValueError as e:
            if "n_cache" in cfg and "n_cache" in str(e):
                return None, 0            # rejected: the score offset does not fit the scratch arrays sized by n_cache
            raise
        after = len([d for d in ctx.decisions if d[2] is None])
        return res.a, after - before

    class HavocDependence(Exception):
        pass

    def body(ctx):
        mode = cfg["mode"]
        nb_ = {"n": 0}
        if out["violations"]:
            return "returned"                 # one confirmed counterexample per configuration is enough

        def on_branch(cond):
            # all inputs are concrete: every data-dependent branch is a branch on uninitialised / stale scratch memory
            nb_["n"] += 1
            if nb_["n"] > 12:
                raise HavocDependence("more than 12 branches decided on uninitialised scratch memory")
        if mode != "kernel_history":          # (there the histograms are symbolic: branching on them is not a dependence on scratch)
            ctx.state["on_branch"] = on_branch
        try:
            if mode == "history":
                base = {}
                for k in range(len(qs)):
                    base[k], nb = run(ctx, [k], 1)
                    if base[k] is None:
                        continue
                    if nb or T.has_sym(base[k]):
                        add("tomtom:depends-on-uninitialised-scratch", "query %d processed alone: result depends on uninitialised scratch memory (%d branches on it)" % (k, nb))
                        return "returned"
                for order in cfg["orders"]:
                    full, nb = run(ctx, order, 1)
                    if full is None:
                        ctx.stats.obligations += 1
                        if all(base[k] is not None for k in order):
                            add("tomtom:depends-on-co-processed-queries", "queries %s are rejected (n_cache) together although each is accepted alone" % (order,))
                            return "returned"
                        ctx.stats.discharged += 1
                        continue
                    if nb or T.has_sym(full):
                        add("tomtom:depends-on-previous-query", "queries %s in one call: a result depends on what an earlier query left in the per-thread scratch (%d branches on it)" % (order, nb))
                        return "returned"
                    for pos, k in enumerate(order):
                        if base[k] is None:
                            continue
                        ctx.stats.obligations += 1
                        if np.array_equal(np.array(full[:, pos].tolist(), dtype=float), np.array(base[k][:, 0].tolist(), dtype=float)):
                            ctx.stats.discharged += 1
                        else:
                            add("tomtom:depends-on-co-processed-queries", "query %d gives a different result when processed in the list %s" % (k, order))
                            return "returned"
            elif mode == "threads":
                from symtm import env as _env
                base, _ = run(ctx, list(range(len(qs))), 1)
                _env.PRANGE_ANY_ORDER[0] = bool(cfg.get("prange_any_order"))     # queries complete in any order (solver-chosen)
                par, nb = run(ctx, list(range(len(qs))), cfg["n_jobs"])
                ctx.stats.obligations += 1
                if nb or T.has_sym(par) or not np.array_equal(np.array(par.tolist(), dtype=float), np.array(base.tolist(), dtype=float)):
                    add("tomtom:depends-on-thread-assignment", "results with %d threads (some assignment of queries to threads) differ from the single-thread results" % cfg["n_jobs"])
                    return "returned"
                ctx.stats.discharged += 1
                if numba_s.get_num_threads() != 1:
                    add("tomtom:thread-count-not-restored", "numba thread count not restored after tomtom(n_jobs=%d)" % cfg["n_jobs"])
            elif mode == "many":
                # more queries than any internal block size: a late query must equal itself processed alone
                import numpy as _np
                rng = _np.random.RandomState(cfg["seed"])
                many = [[[float(v) for v in rng.dirichlet([1, 1, 1, 1])] for _ in range(1 + (k % 2))] for k in range(cfg["n_queries"])]
                tsm = [arr(t) for t in ts[:2]]
                numba_s.get_thread_id = lambda: 0
                tt.numba.get_thread_id = numba_s.get_thread_id
                call = lambda qq: tt.tomtom([arr(q_) for q_ in qq], tsm, n_score_bins=cfg["n_score_bins"], n_median_bins=50, n_target_bins=None,
                                           n_cache=cfg.get("n_cache", 30), reverse_complement=rc, n_jobs=1).a
                full = call(many)
                for k in cfg["probe"]:
                    alone = call([many[k]])
                    ctx.stats.obligations += 1
                    if T.has_sym(full) or not np.array_equal(np.array(full[:, k].tolist(), dtype=float), np.array(alone[:, 0].tolist(), dtype=float)):
                        add("tomtom:depends-on-co-processed-queries", "query %d of %d gives a different result than when processed alone" % (k, len(many)))
                        return "returned"
                    ctx.stats.discharged += 1
            elif mode == "annotate":
                # annotate_seqlets: the annotation of a seqlet must not depend on the other seqlets of the call or their order
                ann = ld.load("annotate")
                torch_s = shims["torch"]
                L_ = 8
                x0 = [0, 1, 2, 3, 0, 1, 2, 3]
                x1 = list(x0)
                x1[4] = -1                                    # same sequence with an unknown character where the first has 'A'
                X = C.onehot_from_chars(np.array([x0, x1], dtype=object), 4, dtype="float64")
                rows = [(0, 3, 6), (1, 3, 6), (0, 0, 3), (1, 4, 7)]
                DataFrame = shims["pandas"].DataFrame
                motifs = {"m%d" % k: T.Tensor(np.array(t, dtype=object).T.copy(), dtype="float64") for k, t in enumerate(ts)}
                numba_s.get_thread_id = lambda: 0
                tt.numba.get_thread_id = numba_s.get_thread_id

                all_df = DataFrame({"example_idx": [r_[0] for r_ in rows], "start": [r_[1] for r_ in rows], "end": [r_[2] for r_ in rows]})

                def annot(sel):
                    # a positional selection of ONE seqlet table: the rows keep their labels (subset / reversed / repeated rows)
                    df = all_df.iloc[list(sel)]
                    idxs, pv = ann.annotate_seqlets(X, df, motifs, n_nearest=cfg.get("n_nearest", 2), n_jobs=1, n_score_bins=cfg["n_score_bins"], n_median_bins=50,
                                                    n_target_bins=None, n_cache=30, reverse_complement=rc)
                    return idxs.a, pv.a
                alone = [annot([r_]) for r_ in range(len(rows))]
                for sel in ([0, 1, 2, 3], [3, 2, 1, 0], [1, 0], [1, 1, 0]):
                    idxs, pv = annot(sel)
                    for k, r_ in enumerate(sel):
                        ctx.stats.obligations += 1
                        same = np.array_equal(np.array(pv[k].tolist(), dtype=float), np.array(alone[r_][1][0].tolist(), dtype=float)) and \
                            [int(v) for v in idxs[k]] == [int(v) for v in alone[r_][0][0]]
                        if not same or T.has_sym(pv):
                            add("annotate_seqlets:depends-on-co-annotated-seqlets", "annotation of seqlet %d differs when annotated together with %s" % (r_, sel))
                            return "returned"
                        ctx.stats.discharged += 1
            elif mode == "kernel_history":
                # per-thread scratch as _tomtom's own statements allocate it, then _p_value_backgrounds for query 1 followed by
                # query 2 on the SAME scratch: every null-table cell query 2 can read must be the cell of a run on fresh scratch
                # (both histograms fully symbolic, so a cell that still mentions query 1 or arbitrary memory is a dependence)
                import ast as _ast
                alloc, info = ld.slice_function("tools.tomtom", "_tomtom", lambda st, text: text.startswith("n = numba.get_num_threads()"),
                                                lambda st, text: text.startswith("_A_csum ="), ["Q_max", "n_score_bins", "n_cache", "nt", "T_max"], ["_A", "_B", "_A_csum"])
                out.setdefault("functions", []).append(info)
                nb2, Qm, Tm, ncache = cfg["n_bins"], cfg["Q_max"], cfg["T_max"], cfg["n_cache"]
                (nq1, off1), (nq2, off2) = cfg["first"], cfg["second"]

                def hist(tag, nq):
                    f = np.zeros((Qm, nb2 + 1), dtype=object)
                    for i_ in range(nq):
                        for l_ in range(nb2 + 1):
                            v = core.Real("%s%d_%d" % (tag, i_, l_))
                            ctx.assume(v > 0)
                            f[i_, l_] = v
                    return T.NDArray(f, dtype="float64")
                f1, f2 = hist("f", nq1), hist("h", nq2)
                A_, B_, Ac_ = alloc(Qm, nb2, ncache, 4, Tm)
                tt._p_value_backgrounds(f1, A_[0], B_[0], Ac_[0], nq1, nb2, Tm, off1)
                tt._p_value_backgrounds(f2, A_[0], B_[0], Ac_[0], nq2, nb2, Tm, off2)
                A2, B2, Ac2 = alloc(Qm, nb2, ncache, 4, Tm)
                tt._p_value_backgrounds(f2, A2[0], B2[0], Ac2[0], nq2, nb2, Tm, off2)
                from symtm import poly as _poly
                memo = {}
                for nt_ in range(1, Tm + 1):
                    for s_ in range(nb2 * nq2 + nq2 * off2):
                        a_, b_ = B_.a[0, nt_, s_], B2.a[0, nt_, s_]
                        ctx.stats.obligations += 1
                        za, zb = core.zn(a_), core.zn(b_)
                        same = False
                        if "uninit!" not in str(zb):
                            try:
                                d_ = z3.simplify((z3.ToReal(za) if z3.is_int(za) else za) - (z3.ToReal(zb) if z3.is_int(zb) else zb))
                                same = not _poly.to_poly(d_, memo, None)
                            except ValueError:
                                same = False
                            if not same and "uninit!" not in str(za):
                                ctx.stats.obligations -= 1
                                same = ctx.prove(a_ == b_, "null table cell after another query == on fresh scratch") is None
                                if same:
                                    ctx.stats.discharged -= 1
                        if same:
                            ctx.stats.discharged += 1
                        else:
                            add("tomtom:depends-on-previous-query", "null table cell B[nt=%d, score=%d] of a query (length %d, offset %d) differs when the per-thread scratch was used by a query (length %d, offset %d) before" % (nt_, s_, nq2, off2, nq1, off1))
                            return "returned"
            elif mode == "offsets":
                # start column of every query in the concatenated query matrix (statement range of _tomtom), symbolic lengths:
                # fixed-width stores wrap in the model, so an index type that cannot hold the total number of columns is visible
                blk, info = ld.slice_function("tools.tomtom", "_tomtom", lambda st, text: text.startswith("Q_offsets = "), lambda st, text: text.startswith("Q_offsets[1:]"), ["Q_lens"], ["Q_offsets"])
                out.setdefault("functions", []).append(info)
                nQ = cfg["n_queries"]
                lens = [core.Int("qlen%d" % k) for k in range(nQ)]
                for v in lens:
                    ctx.assume(s_and(v >= 1, v <= cfg["max_block"]))
                T.WRAP_SYMBOLIC[0] = True
                try:
                    (offs,) = blk(T.NDArray(np.array(lens, dtype=object), dtype="int64"))
                finally:
                    T.WRAP_SYMBOLIC[0] = False
                cl = [offs.a[k] == s_sum(lens[:k]) if k else offs.a[0] == 0 for k in range(nQ + 1)]
                m = ctx.prove(s_and(*cl), "query start columns are the running totals of the query lengths")
                if m is not None:
                    add("tomtom:query-offsets", "the start column of a query is not the total length of the queries before it (lengths %s)" % [core.model_value(m, v) for v in lens])
            elif mode == "nearest_sym":
                # the n_nearest selection statement of _tomtom on ARBITRARY per-target results (p-values, scores, ... symbolic)
                import ast as _ast
                nT, nn_ = cfg["n_targets"], cfg["n_nearest"]
                within = lambda nd, text: isinstance(nd, _ast.For) and "prange(len(Q_lens))" in text.split("\n")[0]
                is_sel = lambda st, text: isinstance(st, _ast.If) and text.split("\n")[0].strip().startswith("if n_nearest == -1")
                blk, info = ld.slice_function("tools.tomtom", "_tomtom", is_sel, is_sel, ["results", "_results", "pid", "i", "n_in_targets", "n_nearest"], ["results"], within=within)
                R_ = np.empty((1, nT, 5), dtype=object)
                for c_ in np.ndindex(1, nT, 5):
                    R_[c_] = core.Real("res_%d_%d" % (c_[1], c_[2]))
                for t_ in range(nT):
                    ctx.assume(s_and(R_[0, t_, 0] >= 0, R_[0, t_, 0] <= 1, R_[0, t_, 1] >= 0, R_[0, t_, 1] <= 100))
                outp = T.NDArray(np.zeros((1, nn_, 6), dtype=object), dtype="float64")
                (got,) = blk(outp, T.NDArray(R_.copy(), dtype="float64"), 0, 0, nT, nn_)
                idx = [got.a[0, k, 5] for k in range(nn_)]
                cl = []
                for k in range(nn_):
                    cl.append(s_or(*[s_and(idx[k] == t_, *[got.a[0, k, c_] == R_[0, t_, c_] for c_ in range(5)]) for t_ in range(nT)]))   # fields belong to the reported index
                    if k + 1 < nn_:
                        cl.append(got.a[0, k, 0] <= got.a[0, k + 1, 0])                                                               # ascending
                        cl.append(idx[k] != idx[k + 1])
                for t_ in range(nT):          # every target not returned has a p-value >= the largest returned one
                    cl.append(s_or(s_or(*[idx[k] == t_ for k in range(nn_)]), R_[0, t_, 0] >= got.a[0, nn_ - 1, 0]))
                cl.append(s_and(*[idx[a_] != idx[b_] for a_ in range(nn_) for b_ in range(a_ + 1, nn_)]))
                m = ctx.prove(s_and(*cl), "n_nearest = the n smallest p-values, ascending, with matching fields and indices")
                if m is not None:
                    add("tomtom:n-nearest", "the n_nearest selection does not return the n smallest p-values in ascending order with matching fields and indices")
            elif mode == "nearest":
                base, _ = run(ctx, list(range(len(qs))), 1)
                nn_ = cfg["n_nearest"]
                near, nb = run(ctx, list(range(len(qs))), 1, n_nearest=nn_)
                ok = not nb and not T.has_sym(near)
                for k in range(len(qs)):
                    row = [float(v) for v in base[0, k]]
                    order = sorted(range(len(row)), key=lambda j: (row[j], j))[:nn_]
                    got_p = [float(v) for v in near[0, k]]
                    ok = ok and got_p == sorted(row)[:nn_]
                    idx = [int(v) for v in near[5, k]]
                    for c_ in range(5):
                        ok = ok and [float(v) for v in near[c_, k]] == [float(base[c_, k][j]) for j in idx]
                    ok = ok and sorted(idx) == sorted(set(idx))
                ctx.stats.obligations += 1
                if ok:
                    ctx.stats.discharged += 1
                else:
                    add("tomtom:n-nearest", "n_nearest rows are not the n smallest p-values of the full row with matching fields and indices")
        except HavocDependence as e:
            add("tomtom:depends-on-uninitialised-scratch", "control flow of a TOMTOM kernel depends on uninitialised / stale scratch memory (%s)" % e)
            return "returned"
        except IndexError as e:
            add("tomtom:out-of-bounds", "a TOMTOM kernel indexes outside an array: %s" % e)
            return "raised"
        except Exception as e:
            if isinstance(e, core.Inconclusive):
                raise
            add("tomtom:raises", "tomtom raised %s: %s" % (type(e).__name__, e))
            return "raised"
        finally:
            numba_s.set_num_threads(1)
            from symtm import env as _env2
            _env2.PRANGE_ANY_ORDER[0] = False
        if len(out["samples"]) < 2:
            out["samples"].append({"cfg": cfg, "thread_assignment_decisions": len([d for d in ctx.decisions if d[2] is not None])})
        return "returned"

    core.explore(body, stats=stats, max_paths=5000, reset=ld.restore)
    out["stats"] = stats.as_dict()
    return out


def configs(tier):
    q = tier == "quick"
    cf = []
    for seed in ((0, 1) if q else (0, 1, 2, 3, 4, 5)):
        for rc in (False, True):
            cf.append(dict(mode="history", seed=seed, rc=rc, n_score_bins=6, orders=[[0, 1, 2], [2, 1, 0], [1, 2], [2, 2, 0]]))
    # an n_cache smaller than the score offset: rejected, or in bounds and history independent - never out-of-bounds scratch
    for seed, nc in (((1, 1), (2, 3)) if q else ((1, 1), (2, 3), (3, 0), (4, 2), (5, 4))):
        cf.append(dict(mode="history", seed=seed, rc=False, n_score_bins=6, n_cache=nc, orders=[[0, 1, 2], [2, 1, 0], [1, 2]]))
    # with column hashing (the default n_target_bins): identical pooled columns are merged and weighted
    for seed in ((1,) if q else (1, 2, 4)):
        cf.append(dict(mode="history", seed=seed, rc=(seed % 2 == 0), n_score_bins=6, n_target_bins=100, orders=[[0, 1, 2], [2, 1, 0], [1, 2]]))
    cf.append(dict(mode="threads", seed=3, rc=True, n_score_bins=6, n_jobs=2, n_target_bins=100))
    # every assignment of queries to 2 threads AND every order in which the 3 queries run
    cf.append(dict(mode="threads", seed=1, rc=False, n_score_bins=6, n_jobs=2, prange_any_order=True))
    for seed in ((0, 2) if q else (0, 1, 2, 3)):
        cf.append(dict(mode="threads", seed=seed, rc=(seed % 2 == 0), n_score_bins=6, n_jobs=2))
    if not q:
        cf.append(dict(mode="threads", seed=1, rc=False, n_score_bins=6, n_jobs=3))
    for seed in ((1,) if q else (1, 3, 5)):
        cf.append(dict(mode="nearest", seed=seed, rc=True, n_score_bins=6, n_nearest=2))
    cf.append(dict(mode="nearest_sym", seed=0, rc=False, n_score_bins=6, n_targets=3, n_nearest=2))
    cf.append(dict(mode="nearest_sym", seed=0, rc=False, n_score_bins=6, n_targets=3, n_nearest=3))          # n_nearest == number of targets
    for first, second in (((2, 2), (1, 2)), ((2, 2), (2, 1)), ((2, 1), (2, 2)), ((1, 2), (2, 1)), ((2, 2), (1, 1))) if q else (((2, 2), (1, 1)), ((2, 2), (2, 1)), ((2, 1), (2, 2)), ((1, 2), (2, 1)), ((2, 2), (1, 2)), ((2, 0), (2, 2)), ((1, 1), (2, 2))):
        cf.append(dict(mode="kernel_history", seed=0, rc=False, n_score_bins=2, n_bins=2, Q_max=2, T_max=2, n_cache=2, first=list(first), second=list(second)))
    cf.append(dict(mode="kernel_history", seed=0, rc=False, n_score_bins=2, n_bins=2, Q_max=3, T_max=2, n_cache=2, first=[3, 2], second=[2, 1]))
    if not q:
        cf.append(dict(mode="kernel_history", seed=0, rc=False, n_score_bins=3, n_bins=3, Q_max=2, T_max=3, n_cache=1, first=[2, 1], second=[1, 1]))
    cf.append(dict(mode="offsets", seed=0, rc=False, n_score_bins=2, n_queries=4, max_block=2 ** 40))
    cf.append(dict(mode="annotate", seed=1, rc=False, n_score_bins=5, n_nearest=2))
    cf.append(dict(mode="many", seed=2, rc=False, n_score_bins=4, n_queries=90, probe=[64, 65, 88, 89]))      # > 127 query columns in one call
    if not q:
        cf.append(dict(mode="nearest_sym", seed=0, rc=False, n_score_bins=6, n_targets=4, n_nearest=3))
        cf.append(dict(mode="annotate", seed=3, rc=True, n_score_bins=5, n_nearest=1))
        cf.append(dict(mode="many", seed=4, rc=False, n_score_bins=4, n_queries=130, probe=[64, 128, 129]))
    return cf


def main(tier, seed):
    rep = harness.Report(PROP, tier, seed)
    ld, _ = C.fresh_env()
    rep.functions = [ld.func_info("annotate", "annotate_seqlets")] + [ld.func_info("tools.tomtom", f) for f in ("tomtom", "_tomtom", "_integer_distances_and_histogram", "_binned_median", "_p_value_backgrounds", "_pairwise_max", "_p_values", "_merge_rc_results")]
    cf = configs(tier)
    rep.bounds = {"pwm_sets": "coarse-grid PWMs (entries in {0, .25, .5, .75, 1}), 3 queries of length 1-3, 2-3 targets of length 1-3, seeds %s" % sorted({c["seed"] for c in cf}),
                  "histories": "each query alone vs lists [0,1,2], [2,1,0], [1,2], [2,2,0] on one reused scratch", "threads": "2 (3 in thorough): every assignment of iterations to thread ids",
                  "n_score_bins": 6}
    rep.assumptions = ["scratch from numpy.empty is arbitrary memory; its reuse across queries of one thread is modelled by the real sequential execution on the same buffers",
                       "numba's contract: concurrently running prange iterations have distinct get_thread_id(); actual OS scheduling / intra-iteration races are outside the claim",
                       "query / target values are concrete (float distance kernel) except in the n_nearest selection obligation, where the per-target results are arbitrary; column hashing (n_target_bins) disabled"]
    rep.absorb(harness.run_configs("checks.C13", "worker", cf))
    rep.witness_ok = rep.stats["returned"] > 0
    return harness.finish(rep)
