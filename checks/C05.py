"""C05 - DeepLIFT/SHAP multipliers equal an independent rescale-rule computation.

Engine A runs the real deep_lift_shap (hooks, _nonlinear, hypothetical_attributions, batching loop) on the
nn / autograd environment model with symbolic one-hot inputs and references; activations are uninterpreted
functions f with derivative f'.  The result is compared by z3 with an independent layer-by-layer evaluation of the
rescale rule written on plain lists of terms (checks/dl.py: no hooks, no autograd).
"""
import itertools
from fractions import Fraction

import numpy as np
import z3

from symtm import core, tensor as T, harness, nn
from symtm.core import ite, s_and, s_or, s_not, s_sum
from . import common as C, dl

PROP = "C05"


def replay(r):
    """real torch twin: multipliers / attributions vs the real-valued independent oracle, on the counterexample's inputs
    first and then on every other small input pair (activation values are real functions here, so the solver's
    interpretation of f cannot be imposed)"""
    C.real_tangermeme()
    import torch
    from tangermeme.deep_lift_shap import deep_lift_shap
    A, L, arch, target = r["A"], len(r["x"][0]), r["arch"], r["target"]
    seqs = [list(s) for s in itertools.product(range(A), repeat=L)]
    cases = [(r["x"], r["refs"])]
    import random
    rnd = random.Random(0)
    ns = len(r["refs"][0])
    for _ in range(25):
        cases.append(([rnd.choice(seqs) for _ in r["x"]], [[rnd.choice(seqs) for _ in range(ns)] for _ in r["x"]]))
    extra = {"n_shuffles": r["n_shuffles_arg"]} if r.get("n_shuffles_arg") else {}
    # the solver's interpretation of the activation cannot be imposed on real torch: the replay is existential over the
    # activation (the architecture's own, then non-monotone and other registered ones) and over the weight seed
    trials = [(None, r.get("seed", 1))] + ([(a_, sd) for sd in (r.get("seed", 1), 2, 3, 4) for a_ in ("GELU", "SiLU", "Mish", "Tanh", "ELU", "Softplus")] if not arch.startswith("tiny:") and arch != "affine" else [])
    for act_, seed_ in trials:
        model = dl.real_model(arch, A, L, seed=seed_, act_override=act_)
        for x, refs in cases:
            X = C.real_onehot(x, A).double()
            R = C.real_onehot(refs, A).double()
            try:
                if r.get("history_ops"):
                    other = dl.real_model(arch, A, L, seed=5)
                    act_cls = [type(m_) for m_ in other if not isinstance(m_, (torch.nn.Linear, torch.nn.Conv1d, torch.nn.Flatten, torch.nn.AvgPool1d, torch.nn.MaxPool1d))][0]
                    deep_lift_shap(other, X, references=R, target=target, device="cpu", warning_threshold=1e9, additional_nonlinear_ops={act_cls: (lambda mod, gi, go: gi)})
                mult = deep_lift_shap(model, X, references=R, target=target, device="cpu", raw_outputs=True, batch_size=r.get("batch_size", 32), warning_threshold=1e9, **extra)
                attr = deep_lift_shap(model, X, references=R, target=target, device="cpu", batch_size=r.get("batch_size", 32), warning_threshold=1e9, **extra)
                hyp = deep_lift_shap(model, X, references=R, target=target, device="cpu", hypothetical=True, batch_size=r.get("batch_size", 32), warning_threshold=1e9, **extra)
                if tuple(mult.shape[:2]) != (len(x), ns):
                    return True, "raw multipliers have shape %s for %d references per example" % (tuple(mult.shape), ns)
            except Exception as e:
                return True, "deep_lift_shap raised %s: %s" % (type(e).__name__, e)
            for i in range(len(x)):
                acc = torch.zeros(A, L, dtype=torch.float64)
                for j in range(ns):
                    om = dl.real_oracle(model, X[i], R[i, j], target)
                    band_ok = True
                    if not torch.allclose(mult[i, j], om, atol=1e-8, rtol=1e-7):
                        return True, "multipliers for x=%s ref=%s differ from the independent rescale-rule computation: %s vs %s" % (x[i], refs[i][j], mult[i, j].tolist(), om.tolist())
                    acc += ((torch.eye(A, dtype=torch.float64)[:, :, None] - R[i, j][None]) * om[None]).sum(dim=1)
                acc /= ns
                if not torch.allclose(hyp[i], acc, atol=1e-8, rtol=1e-7):
                    return True, "hypothetical attributions for x=%s differ from sum_c (e_k - ref)[c] * m[c]" % (x[i],)
                if not torch.allclose(attr[i], acc * X[i], atol=1e-8, rtol=1e-7):
                    return True, "attributions for x=%s differ from the observed-character projection" % (x[i],)
    return False, "ok"


def worker(cfg):
    dl.FLOAT[0] = cfg.get("dtype", "float32")          # dtype tag of model parameters and inputs (float64: narrowing casts inside the code show)
    ld, shims = C.fresh_env()
    dls = ld.load("deep_lift_shap")
    dl.install_deferred_any(shims, None)
    NN = shims["torch"].nn
    stats = core.Stats()
    out = {"violations": [], "samples": [], "unknown": 0}
    arch, A, L, B, ns, target = cfg["arch"], cfg["A"], cfg["L"], cfg["B"], cfg["ns"], cfg["target"]

    def body(ctx):
        net = dl.build(arch, A, L, seed=cfg.get("seed", 1), symbolic_weights=cfg.get("symw", False), NN=NN)
        xc, X, rc, R = dl.sym_inputs(ctx, A, L, B, ns, concrete=(cfg["x"], cfg["refs"]) if cfg.get("x") is not None else None)
        rp = lambda m: dict(cfg, x=(cfg["x"] if cfg.get("x") is not None else C.eval_chars(m, xc)), refs=(cfg["refs"] if cfg.get("x") is not None else C.eval_chars(m, rc)))
        extra = {"n_shuffles": cfg["n_shuffles_arg"]} if cfg.get("n_shuffles_arg") else {}          # must be ignored for a reference tensor
        try:
            if cfg.get("history_ops"):
                # an earlier call on ANOTHER model with a custom rule for the activation must not influence later calls
                other = dl.build(arch, A, L, seed=5, NN=NN)
                act_cls = [type(m_) for m_ in other._modules.values() if type(m_).__name__ in nn.ACT_NAMES][0]
                dls.deep_lift_shap(other, X, references=R, target=target, device="cpu", additional_nonlinear_ops={act_cls: (lambda mod, gi, go: gi)})
            mult = dls.deep_lift_shap(net, X, references=R, target=target, batch_size=cfg.get("batch_size", 32), device="cpu", raw_outputs=True, **extra)
            attr = dls.deep_lift_shap(net, X, references=R, target=target, batch_size=cfg.get("batch_size", 32), device="cpu", **extra)
            hyp = dls.deep_lift_shap(net, X, references=R, target=target, batch_size=cfg.get("batch_size", 32), device="cpu", hypothetical=True, **extra)
        except Exception as e:
            if isinstance(e, core.Inconclusive):
                raise
            m = ctx.model() if ctx.check() == z3.sat else None
            out["violations"].append(C.violation("dls:raises", "deep_lift_shap raised %s: %s" % (type(e).__name__, e), rp(m), replay))
            return "raised"
        claims_a = []
        ok_shape = tuple(mult.shape) == (B, ns, A, L) and tuple(attr.shape) == (B, A, L) and tuple(hyp.shape) == (B, A, L)
        if not ok_shape:
            m = ctx.model() if ctx.check() == z3.sat else None
            out["violations"].append(C.violation("dls:shape", "unexpected output shapes %s %s %s" % (mult.shape, attr.shape, hyp.shape), rp(m), replay))
            return "returned"
        n_claims = 0
        for i in range(B):
            for j in range(ns):
                om, Fx, Fr, band = dl.oracle(net, X.a[i], R.a[i, j], target)
                # each example-reference pair is an independent obligation: only its own band assumptions are in scope
                ctx.solver.push()
                for b_ in band:
                    ctx.solver.add(core.zb(b_))
                claims_m = [mult.a[(i, j) + c] == om[c] for c in np.ndindex(A, L)]
                n_claims += len(claims_m)
                m, unk = dl.split_prove(ctx, claims_m, "multipliers == independent rescale rule")
                mm = rp(m) if m is not None else None
                ctx.solver.pop()
                out["unknown"] += unk
                if m is not None:
                    out["violations"].append(C.violation("dls:multipliers", "raw multipliers differ from the independent rescale-rule computation", mm, replay))
                    return "returned"
            # averaging / projection step, stated on the (now verified) multipliers: for every character k,
            # hyp[k, p] = mean_j sum_c (e_k - ref_j)[c, p] * m_j[c, p]; default output masks it with the observed character
            for k in range(A):
                for p in range(L):
                    want = s_sum([s_sum([((1 if c == k else 0) - R.a[i, j, c, p]) * mult.a[i, j, c, p] for c in range(A)]) for j in range(ns)]) * Fraction(1, ns)
                    claims_a.append(hyp.a[i, k, p] == want)
                    claims_a.append(attr.a[i, k, p] == want * X.a[i, k, p])
        m, unk = dl.split_prove(ctx, claims_a, "attributions == projection of the multipliers")
        out["unknown"] += unk
        if m is not None:
            out["violations"].append(C.violation("dls:attributions", "default / hypothetical attributions differ from the projection of the rescale-rule multipliers", rp(m), replay))
        if cfg.get("symw"):
            # affine model: attribution of the observed character is sum_c W[c,pos] * (x - ref)[c,pos] averaged over references,
            # independent of the bias (bias variables must not occur)
            txt = " ".join(str(core.zn(v)) for v in attr.a.flat)
            ctx.stats.obligations += 1
            if "b" + "" in txt and any(("b%d_" % li) in txt or ("kb%d_" % li) in txt for li in range(8)):
                out["violations"].append(C.violation("dls:bias-dependence", "attributions of an affine model depend on the bias", rp(ctx.model() if ctx.check() == z3.sat else None), replay))
            else:
                ctx.stats.discharged += 1
        if net.n_hooks() != 0:
            out["violations"].append(C.violation("dls:hooks-left", "hooks left registered after a successful call", rp(ctx.model() if ctx.check() == z3.sat else None), replay))
        if not out["samples"]:
            out["samples"].append({"cfg": cfg, "claims": n_claims + len(claims_a)})
        return "returned"

    core.explore(body, stats=stats, max_paths=2000, reset=ld.restore)
    out["stats"] = stats.as_dict()
    if out["unknown"] and not out["violations"] and not cfg.get("stretch"):
        raise core.Inconclusive("%d obligations unknown (solver timeout)" % out["unknown"])
    return out


def configs(tier):
    q = tier == "quick"
    cf = [dict(arch="dense1", A=2, L=3, B=1, ns=1, target=1), dict(arch="dense1", A=2, L=2, B=2, ns=2, target=0, batch_size=3),
          dict(arch="conv", A=2, L=2, B=1, ns=2, target=1), dict(arch="affine", A=2, L=3, B=1, ns=2, target=0, symw=True),
          dict(arch="dense1", A=2, L=2, B=1, ns=2, target=1, n_shuffles_arg=1),
          dict(arch="dense1", A=2, L=2, B=1, ns=1, target=0, history_ops=True),
          dict(arch="dense1", A=2, L=2, B=1, ns=1, target=1, dtype="float64"), dict(arch="conv", A=2, L=2, B=1, ns=1, target=0, dtype="float64")]
    # depth 2-3: every (example, reference) pair of sequences is enumerated, the activations stay uninterpreted
    import itertools as _it
    def deep(arch, A, L, every):
        seqs = [list(s_) for s_ in _it.product(range(A), repeat=L)]
        pairs = [(a, b) for a in seqs for b in seqs]
        return [dict(arch=arch, A=A, L=L, B=1, ns=1, target=(k % 2), x=[a], refs=[[b]]) for k, (a, b) in enumerate(pairs) if k % every == 0]
    cf += deep("dense2", 2, 2, 3 if q else 1)
    if not q:
        cf += deep("dense3", 2, 2, 1) + deep("conv2", 2, 4, 5) + deep("dense2", 2, 3, 3)
    if not q:
        cf += [dict(arch="conv", A=2, L=3, B=1, ns=1, target=1), dict(arch="convavg", A=2, L=3, B=1, ns=1, target=1), dict(arch="dense1w", A=2, L=2, B=1, ns=1, target=0),
               dict(arch="dense1w", A=2, L=3, B=1, ns=1, target=0), dict(arch="convpad", A=2, L=3, B=1, ns=1, target=1),
               dict(arch="conv", A=3, L=3, B=1, ns=2, target=0, batch_size=1), dict(arch="affine", A=3, L=4, B=2, ns=2, target=1, symw=True),
               dict(arch="dense2", A=2, L=2, B=1, ns=1, target=1, stretch=True)]
    return cf


def main(tier, seed):
    rep = harness.Report(PROP, tier, seed)
    ld, _ = C.fresh_env()
    rep.functions = [ld.func_info("deep_lift_shap", f) for f in ("deep_lift_shap", "_nonlinear", "hypothetical_attributions", "_register_hooks", "_clear_hooks", "_f_hook", "_fp_hook", "_b_hook")]
    cf = configs(tier)
    res = harness.run_configs("checks.C05", "worker", cf)
    rep.absorb(res)
    rep.bounds = {"architectures": sorted({c["arch"] for c in cf}), "A,L": sorted({(c["A"], c["L"]) for c in cf}), "examples x references": sorted({(c["B"], c["ns"]) for c in cf}),
                  "weights": "small concrete integers; symbolic reals for the affine model", "stretch_unknown_obligations": sum(r.get("unknown", 0) for r in res)}
    rep.assumptions = ["activations are uninterpreted functions f with uninterpreted derivative f' (covers every element-wise activation at once)",
                       "|delta_in| is either 0 or >= 1e-6 for every hidden unit (the ambiguous band is excluded, as in the statement)",
                       "autograd / module-hook semantics are those of the environment model (symtm/tensor.py, nn.py): full-backward hook receives (grad_input, grad_output) and its return value replaces grad_input",
                       "depth > 1 (stacked activations) is non-linear real arithmetic beyond z3 within the time limit: attempted as a stretch obligation only"]
    rep.witness_ok = rep.stats["returned"] > 0
    return harness.finish(rep)
