"""Shared pieces of the DeepLIFT/SHAP harnesses (C04-C07): network grammar on the nn model, an independent
layer-by-layer rescale-rule oracle written on plain lists of terms (no hooks, no autograd), real-torch twins for replay."""
import itertools
import time
from fractions import Fraction

import numpy as np
import z3

from symtm import core, tensor as T, nn
from symtm.core import ite, s_and, s_or, s_not, s_sum
from . import common as C

SWITCH = Fraction(1e-6)          # the exact value of the float literal 1e-6 used by the code
SWITCH_POOL = Fraction(1e-7)


FLOAT = nn.DEFAULT_FLOAT      # dtype tag of the inputs built by these helpers (shared with the nn model)

def wgt(seed, i):
    """deterministic small integer weights"""
    v = (seed * 7919 + i * 104729 + 13) % 7 - 3
    return v if v != 0 else 2


# ------------------------------------------------------------------ architectures: lists of layer specs
# ("linear", in, out) ("act", name) ("conv", cin, cout, k, stride, padding, dilation) ("avgpool", k) ("maxpool", k) ("flatten",)

ARCHS = {
    "dense1": lambda A, L: [("flatten",), ("linear", A * L, 2), ("act", "Tanh"), ("linear", 2, 2)],
    "dense1w": lambda A, L: [("flatten",), ("linear", A * L, 3), ("act", "GELU"), ("linear", 3, 2)],
    "dense2": lambda A, L: [("flatten",), ("linear", A * L, 2), ("act", "ReLU"), ("linear", 2, 2), ("act", "Sigmoid"), ("linear", 2, 2)],
    "dense3": lambda A, L: [("flatten",), ("linear", A * L, 2), ("act", "Tanh"), ("linear", 2, 2), ("act", "GELU"), ("linear", 2, 2), ("act", "ELU"), ("linear", 2, 2)],
    "conv2": lambda A, L: [("conv", A, 2, 2, 1, 0, 1), ("act", "ReLU"), ("avgpool", 2), ("flatten",), ("linear", 2 * ((L - 1) // 2), 2), ("act", "Tanh"), ("linear", 2, 2)],
    "conv": lambda A, L: [("conv", A, 2, 2, 1, 0, 1), ("act", "ELU"), ("flatten",), ("linear", 2 * (L - 1), 2)],
    "convpad": lambda A, L: [("conv", A, 1, 2, 1, 1, 1), ("act", "Softplus"), ("flatten",), ("linear", (L + 1), 2)],
    "convavg": lambda A, L: [("conv", A, 2, 2, 1, 0, 1), ("act", "SiLU"), ("avgpool", 2), ("flatten",), ("linear", 2 * ((L - 1) // 2), 2)],
    "convmax": lambda A, L: [("conv", A, 1, 2, 1, 0, 1), ("act", "ReLU"), ("maxpool", 2), ("flatten",), ("linear", (L - 1) // 2, 2)],
    "affine": lambda A, L: [("conv", A, 2, 2, 1, 0, 1), ("flatten",), ("linear", 2 * (L - 1), 2)],
    "convmaxov": lambda A, L: [("conv", A, 1, 2, 1, 0, 1), ("act", "ReLU"), ("maxpool", 2, 1), ("flatten",), ("linear", (L - 1) - 1, 2)],      # overlapping windows
    "convmaxceil": lambda A, L: [("conv", A, 1, 2, 1, 0, 1), ("act", "ReLU"), ("maxpool", 2, 2, 0, 1, False, True), ("flatten",), ("linear", -(-((L - 1) - 2) // 2) + 1, 2)],   # ceil_mode, partial last window
    "convmaxpad": lambda A, L: [("conv", A, 1, 2, 1, 0, 1), ("act", "ReLU"), ("maxpool", 3, 3, 1), ("flatten",), ("linear", (L - 1 + 2 - 3) // 3 + 1, 2)],
}
for _a in nn.ACT_NAMES:
    ARCHS["tiny:" + _a] = (lambda A, L, _a=_a: [("flatten",), ("linear", A * L, 1), ("act", _a), ("linear", 1, 2)])


def build(arch, A, L, seed=1, symbolic_weights=False, NN=nn):
    """nn.Sequential on the environment model"""
    layers = []
    k = 0
    for li, sp in enumerate(ARCHS[arch](A, L)):
        if sp[0] == "flatten":
            layers.append(NN.Flatten())
        elif sp[0] == "linear":
            _, i_, o_ = sp
            if symbolic_weights:
                W = [[core.Real("W%d_%d_%d" % (li, a, b)) for b in range(i_)] for a in range(o_)]
                b = [core.Real("b%d_%d" % (li, a)) for a in range(o_)]
            else:
                W = [[wgt(seed + li, a * i_ + b) for b in range(i_)] for a in range(o_)]
                b = [wgt(seed + li + 50, a) for a in range(o_)]
            layers.append(NN.Linear(i_, o_, weight=W, bias_values=b))
        elif sp[0] == "act":
            layers.append(getattr(NN, sp[1])())
        elif sp[0] == "conv":
            _, ci, co, kk, st, pd, dl_ = sp
            if symbolic_weights:
                W = [[[core.Real("K%d_%d_%d_%d" % (li, a, b, c)) for c in range(kk)] for b in range(ci)] for a in range(co)]
                b = [core.Real("kb%d_%d" % (li, a)) for a in range(co)]
            else:
                W = [[[wgt(seed + li, (a * ci + b) * kk + c) for c in range(kk)] for b in range(ci)] for a in range(co)]
                b = [wgt(seed + li + 70, a) for a in range(co)]
            layers.append(NN.Conv1d(ci, co, kk, stride=st, padding=pd, dilation=dl_, weight=W, bias_values=b))
        elif sp[0] == "avgpool":
            layers.append(NN.AvgPool1d(sp[1]))
        elif sp[0] == "maxpool":
            layers.append(NN.MaxPool1d(sp[1], *sp[2:]))
    return NN.Sequential(*layers)


# ------------------------------------------------------------------ independent rescale-rule oracle on nested lists

def _act_f(name):
    f = z3.Function("act_" + name, z3.RealSort(), z3.RealSort())
    df = z3.Function("dact_" + name, z3.RealSort(), z3.RealSort())
    r = lambda v: z3.ToReal(core.zn(v)) if z3.is_int(core.zn(v)) else core.zn(v)
    return (lambda v: core.lift(f(r(v)))), (lambda v: core.lift(df(r(v))))


def oracle(model, x, ref, target):
    """x, ref: numpy object arrays [A, L].  Returns (multipliers [A, L], F(x) list, F(ref) list, band assumptions).
    Forward both inputs layer by layer; backward: linear layers through their transpose, element-wise activations through
    (out(x)-out(ref))/(in(x)-in(ref)) (ordinary derivative where the inputs coincide)."""
    layers = list(model._modules.values())
    vx, vr = np.array(x, dtype=object), np.array(ref, dtype=object)
    tape = []
    band = []
    for m in layers:
        if isinstance(m, nn.Flatten):
            tape.append(("reshape", vx.shape))
            vx, vr = vx.reshape(-1), vr.reshape(-1)
        elif isinstance(m, nn.Linear):
            W, b = m.weight.a, m.bias.a
            tape.append(("linear", W))
            vx = np.array([s_sum([W[o, i] * vx[i] for i in range(W.shape[1])]) + b[o] for o in range(W.shape[0])], dtype=object)
            vr = np.array([s_sum([W[o, i] * vr[i] for i in range(W.shape[1])]) + b[o] for o in range(W.shape[0])], dtype=object)
        elif isinstance(m, nn.Conv1d):
            W, b = m.weight.a, m.bias.a
            O, Cc, K = W.shape
            Lin = vx.shape[1]
            pd, st, dl_ = m.padding, m.stride, m.dilation
            Lout = (Lin + 2 * pd - dl_ * (K - 1) - 1) // st + 1

            def conv(v):
                out = np.empty((O, Lout), dtype=object)
                for o in range(O):
                    for t in range(Lout):
                        acc = b[o]
                        for c in range(Cc):
                            for k in range(K):
                                p = t * st - pd + k * dl_
                                if 0 <= p < Lin:
                                    acc = acc + W[o, c, k] * v[c, p]
                        out[o, t] = acc
                return out
            tape.append(("conv", W, (Cc, Lin), pd, st, dl_))
            vx, vr = conv(vx), conv(vr)
        elif isinstance(m, nn.AvgPool1d):
            K = m.kernel_size
            Lin = vx.shape[1]
            Lout = (Lin - K) // K + 1
            pool = lambda v: np.array([[s_sum([v[c, t * K + k] for k in range(K)]) * Fraction(1, K) for t in range(Lout)] for c in range(v.shape[0])], dtype=object)
            tape.append(("avgpool", K, vx.shape))
            vx, vr = pool(vx), pool(vr)
        elif type(m).__name__ in nn.ACT_NAMES:
            f, df = _act_f(type(m).__name__)
            fx = np.array([f(v) for v in vx.flat], dtype=object).reshape(vx.shape)
            frr = np.array([f(v) for v in vr.flat], dtype=object).reshape(vr.shape)
            tape.append(("act", vx, vr, fx, frr, df))
            for a, b_ in zip(vx.flat, vr.flat):
                d = a - b_
                band.append(s_or(d == 0, d >= SWITCH, -d >= SWITCH))
            vx, vr = fx, frr
        else:
            raise core.Inconclusive("oracle: layer %s not supported" % type(m).__name__)
    Fx, Fr = list(vx.flat), list(vr.flat)
    g = np.array([1 if i == target else 0 for i in range(len(Fx))], dtype=object)
    for t in reversed(tape):
        if t[0] == "linear":
            W = t[1]
            g = np.array([s_sum([W[o, i] * g[o] for o in range(W.shape[0])]) for i in range(W.shape[1])], dtype=object)
        elif t[0] == "reshape":
            g = g.reshape(t[1])
        elif t[0] == "conv":
            _, W, (Cc, Lin), pd, st, dl_ = t
            O, _, K = W.shape
            gi = np.empty((Cc, Lin), dtype=object)
            gi[...] = 0
            for o in range(O):
                for tt in range(g.shape[1]):
                    for c in range(Cc):
                        for k in range(K):
                            p = tt * st - pd + k * dl_
                            if 0 <= p < Lin:
                                gi[c, p] = gi[c, p] + W[o, c, k] * g[o, tt]
            g = gi
        elif t[0] == "avgpool":
            _, K, shp = t
            gi = np.empty(shp, dtype=object)
            gi[...] = 0
            for c in range(g.shape[0]):
                for tt in range(g.shape[1]):
                    for k in range(K):
                        gi[c, tt * K + k] = gi[c, tt * K + k] + g[c, tt] * Fraction(1, K)
            g = gi
        elif t[0] == "act":
            _, ax, ar, fx, frr, df = t
            out = np.empty(ax.shape, dtype=object)
            for c in np.ndindex(*ax.shape):
                d = ax[c] - ar[c]
                same = s_and(d < SWITCH, -d < SWITCH)
                safe = ite(same, 1, d)
                out[c] = ite(same, g[c] * df(ax[c]), g[c] * ((fx[c] - frr[c]) / safe))
            g = out
    return g, Fx, Fr, band


def forward_plain(model, x):
    """model(x) on the nn model without hooks / grad (list of outputs for a single [A, L] input)"""
    old = T.GRAD_ENABLED[0]
    T.GRAD_ENABLED[0] = False
    try:
        y = model(T.Tensor(np.array(x, dtype=object)[None], dtype=FLOAT[0]))
    finally:
        T.GRAD_ENABLED[0] = old
    return list(y.a[0].flat)


def install_deferred_any(shims, ctx_holder):
    """torch.any on a symbolic condition is recorded instead of decided (decided later by the harness)"""
    def any_(x, *a, **k):
        ctx = core.cur()
        conds = [v for v in (x.a.flat if isinstance(x, T.Arr) else [x])]
        ctx.state.setdefault("deferred_any", []).append(conds)
        return False
    shims["torch"].any = any_


# ------------------------------------------------------------------ real-torch twins for replay

def real_model(arch, A, L, seed=1, act_override=None):
    import torch
    layers = []
    for li, sp in enumerate(ARCHS[arch](A, L)):
        if sp[0] == "flatten":
            layers.append(torch.nn.Flatten())
        elif sp[0] == "linear":
            _, i_, o_ = sp
            m = torch.nn.Linear(i_, o_).double()
            with torch.no_grad():
                m.weight.copy_(torch.tensor([[wgt(seed + li, a * i_ + b) for b in range(i_)] for a in range(o_)], dtype=torch.float64))
                m.bias.copy_(torch.tensor([wgt(seed + li + 50, a) for a in range(o_)], dtype=torch.float64))
            layers.append(m)
        elif sp[0] == "act":
            layers.append(getattr(torch.nn, act_override or sp[1])())
        elif sp[0] == "conv":
            _, ci, co, kk, st, pd, dl_ = sp
            m = torch.nn.Conv1d(ci, co, kk, stride=st, padding=pd, dilation=dl_).double()
            with torch.no_grad():
                m.weight.copy_(torch.tensor([[[wgt(seed + li, (a * ci + b) * kk + c) for c in range(kk)] for b in range(ci)] for a in range(co)], dtype=torch.float64))
                m.bias.copy_(torch.tensor([wgt(seed + li + 70, a) for a in range(co)], dtype=torch.float64))
            layers.append(m)
        elif sp[0] == "avgpool":
            layers.append(torch.nn.AvgPool1d(sp[1]))
        elif sp[0] == "maxpool":
            layers.append(torch.nn.MaxPool1d(sp[1], *sp[2:]))
    return torch.nn.Sequential(*layers).double()


# ------------------------------------------------------------------ one symbolic run of the real deep_lift_shap

def sym_inputs(ctx, A, L, B, ns, concrete=None):
    if concrete is not None:
        # concrete sequences (enumerated by the configuration list); activations stay universally quantified
        xc = np.array(concrete[0], dtype=object)
        rc = np.array(concrete[1], dtype=object)
        return xc, C.onehot_from_chars(xc, A, dtype=FLOAT[0]), rc, C.onehot_from_chars(rc, A, dtype=FLOAT[0])
    xc = C.sym_chars(ctx, "x", (B, L), A)
    X = C.onehot_from_chars(xc, A, dtype=FLOAT[0])
    rc = C.sym_chars(ctx, "r", (B, ns, L), A)
    R = C.onehot_from_chars(rc, A, dtype=FLOAT[0])
    return xc, X, rc, R


def ackermannize(terms):
    """Replace every application of an uninterpreted function by a fresh real constant (same constant for syntactically
    identical applications after replacement of their arguments) and add Ackermann's functional-consistency constraints
    (equal arguments imply equal values).  The result is equisatisfiable with the input and free of uninterpreted
    functions; only its `unsat` answers are used."""
    memo, consts, keep = {}, {}, []

    def go(t):
        k = t.get_id()
        if k in memo:
            return memo[k]
        keep.append(t)
        if z3.is_app(t) and t.num_args() > 0:
            ch = [go(c) for c in t.children()]
            d = t.decl()
            if d.kind() == z3.Z3_OP_UNINTERPRETED:
                key = (d.name(), tuple(c.get_id() for c in ch))
                if key not in consts:
                    keep.extend(ch)
                    consts[key] = z3.Const("ack!%s!%d" % (d.name(), len(consts)), t.sort())
                r = consts[key]
            else:
                r = d(*ch)
        else:
            r = t
        memo[k] = r
        return r
    out = [go(z3.simplify(t)) for t in terms]
    # functional consistency (Ackermann's expansion): equal arguments give equal values
    by_decl = {}
    for (name, _ids), c in consts.items():
        by_decl.setdefault(name, []).append(c)
    args_of = {}
    for t_ in list(keep):
        if z3.is_app(t_) and t_.num_args() > 0 and t_.decl().kind() == z3.Z3_OP_UNINTERPRETED:
            args_of[memo[t_.get_id()].get_id()] = [memo[c.get_id()] for c in t_.children()]
    for name, cs in by_decl.items():
        for i in range(len(cs)):
            for j in range(i + 1, len(cs)):
                a1, a2 = args_of.get(cs[i].get_id()), args_of.get(cs[j].get_id())
                if a1 is not None and a2 is not None and len(a1) == len(a2):
                    out.append(z3.Implies(z3.And(*[x == y for x, y in zip(a1, a2)]), cs[i] == cs[j]))
    return out, len(consts)


def prove_nra(assertions, negated_claim, timeout_ms=120000, max_cases=1024):
    """second opinion for a non-linear obligation: uninterpreted applications abstracted to constants, then z3's complete
    procedure for non-linear real arithmetic (nlsat).  Returns 'unsat' (the obligation holds) or 'unknown'.
    Integer constants (symbolic characters) are eliminated by a case split over every assignment that satisfies the purely
    integer assertions (their range constraints); each case is a pure real problem and all of them must be unsat."""
    terms_in = list(assertions) + [negated_claim]
    if not any(_has_int(t) for t in terms_in):
        return _nlsat_unsat(terms_in, timeout_ms)
    ints = _int_consts(terms_in)
    if not ints:
        return "unknown"
    pure = [t for t in terms_in[:-1] if not _has_real(t)]
    s = z3.Solver()
    s.set("timeout", 20000)
    for t in pure:
        s.add(t)
    cases = []
    while True:
        r = s.check()
        if r == z3.unsat:
            break
        if r != z3.sat or len(cases) >= max_cases:
            return "unknown"          # unbounded / too large an integer space: leave it to the combined procedure
        m = s.model()
        vals = [(v, m.eval(v, model_completion=True)) for v in ints]
        cases.append(vals)
        s.add(z3.Or(*[v != c for v, c in vals]))
    t_end = time.time() + timeout_ms / 1000.0
    for vals in cases:
        sub = [z3.simplify(z3.substitute(t, *vals)) for t in terms_in]
        if any(z3.is_false(t) for t in sub):
            continue
        if any(_has_int(t) for t in sub):
            return "unknown"
        left = int((t_end - time.time()) * 1000)
        if left <= 0 or _nlsat_unsat(sub, left) != "unsat":
            return "unknown"
    return "unsat"


def _nlsat_unsat(terms_in, timeout_ms):
    terms, n = ackermannize(terms_in)
    s = z3.Tactic("qfnra-nlsat").solver()
    s.set("timeout", max(1, int(timeout_ms)))
    for t in terms:
        s.add(t)
    r = s.check()
    return "unsat" if r == z3.unsat else "unknown"


def _walk(ts):
    seen, todo = set(), list(ts)
    while todo:
        u = todo.pop()
        if u.get_id() in seen:
            continue
        seen.add(u.get_id())
        yield u
        todo.extend(u.children())


def _int_consts(ts):
    out = {}
    for u in _walk(ts):
        if z3.is_const(u) and z3.is_int(u) and u.decl().kind() == z3.Z3_OP_UNINTERPRETED:
            out[u.get_id()] = u
    return list(out.values())


def _has_real(t):
    return any(z3.is_real(u) for u in _walk([t]))


def _has_int(t):
    seen, todo = set(), [t]
    while todo:
        u = todo.pop()
        if u.get_id() in seen:
            continue
        seen.add(u.get_id())
        if z3.is_int(u) or (z3.is_app(u) and u.decl().kind() in (z3.Z3_OP_TO_REAL, z3.Z3_OP_TO_INT)):
            return True
        todo.extend(u.children())
    return False


def split_prove(ctx, claims, what, timeout_ms=None):
    """prove a conjunction claim by claim (smaller non-linear queries); returns (model or None, n_unknown)"""
    unknown = 0
    for cl in claims:
        if cl is True:
            continue
        ctx.stats.obligations += 1
        # first: activation applications abstracted to constants with Ackermann's consistency constraints, pure QF_NRA
        # (decides in well under a second what the combined UF + NRA procedure leaves unknown after minutes)
        ctx.stats.queries += 1
        t0 = time.time()
        if prove_nra(ctx.solver.assertions(), core.zb(s_not(cl)), timeout_ms=20000) == "unsat":
            ctx.stats.solver_s += time.time() - t0
            ctx.stats.discharged += 1
            continue
        ctx.stats.solver_s += time.time() - t0
        r = ctx.check(s_not(cl))
        if str(r) == "unknown":
            # non-linear real arithmetic is sensitive to the search order: one retry in a fresh solver with another seed
            s2 = z3.SolverFor("QF_UFNRA")
            s2.set("timeout", 90000)
            s2.set("random_seed", 7)
            for a_ in ctx.solver.assertions():
                s2.add(a_)
            s2.add(core.zb(s_not(cl)))
            r = s2.check()
            ctx.stats.queries += 1
            if r == z3.sat:
                r = ctx.check(s_not(cl))          # need a model in the path's own solver
                if r != z3.sat:
                    r = z3.unknown
            if str(r) == "unknown":
                ctx.stats.queries += 1
                # (nlsat's time on these varies by more than 10x between obligations and with machine load: measured 23 s - 380 s
                # for the four cells of one depth-3 network while 16 other solver processes were running)
                if prove_nra(ctx.solver.assertions(), core.zb(s_not(cl)), timeout_ms=1200000) == "unsat":
                    r = z3.unsat
        if r == z3.unsat:
            ctx.stats.discharged += 1
        elif r == z3.sat:
            return ctx.model(), unknown
        else:
            unknown += 1
    return None, unknown


def real_run(r, **kw):
    """real tangermeme.deep_lift_shap on the real-torch twin of the architecture"""
    C.real_tangermeme()
    import torch
    from tangermeme.deep_lift_shap import deep_lift_shap
    A = r["A"]
    X = C.real_onehot(r["x"], A).double()
    R = C.real_onehot(r["refs"], A).double()
    model = real_model(r["arch"], A, len(r["x"][0]), seed=r.get("seed", 1), act_override=r.get("act"))
    out = deep_lift_shap(model, X, references=R, target=r["target"], device="cpu", **kw)
    return model, X, R, out


def real_oracle(model, x, ref, target):
    """independent rescale-rule computation on real torch (float64): multipliers [A, L] for one (x, ref) pair"""
    import torch
    vx, vr = x.clone().double()[None], ref.clone().double()[None]
    tape = []
    for m in model:
        if isinstance(m, (torch.nn.Linear, torch.nn.Conv1d, torch.nn.AvgPool1d, torch.nn.Flatten)):
            tape.append(("lin", m, vx.shape))
            vx, vr = m(vx), m(vr)
        else:
            v = vx.clone().requires_grad_(True)
            fx = m(v)
            (d,) = torch.autograd.grad(fx.sum(), v)
            fr = m(vr)
            tape.append(("act", vx, vr, fx.detach(), fr.detach(), d))
            vx, vr = fx.detach(), fr.detach()
    g = torch.zeros_like(vx)
    g[0, target] = 1.0
    for t in reversed(tape):
        if t[0] == "lin":
            m, shp = t[1], t[2]
            v = torch.zeros(shp, dtype=torch.float64, requires_grad=True)
            with torch.enable_grad():
                y = m(v)
                (g,) = torch.autograd.grad(y, v, grad_outputs=g)
        else:
            _, ax, ar, fx, fr, d = t
            din = ax - ar
            same = din.abs() < 1e-6
            ratio = (fx - fr) / torch.where(same, torch.ones_like(din), din)
            g = torch.where(same, g * d, g * ratio)
    return g[0].detach()
