"""C07 - a model is left behaviourally unchanged by every call, even one that fails.

Engine A runs the real model-taking entry points on the hook-tracking nn model with a SYMBOLIC crash point: every
environment call that can legitimately raise (k-th model forward, k-th reference-generator call, k-th backward-hook
invocation, invalid input, out-of-range target) consults one symbolic integer `fault_at`; the executor forks at each
site, so the solver enumerates every crash point of the run including "no fault".  After the call returned or raised:
no forward / forward-pre / backward hook is left on any sub-module, parameters are the same objects, and a plain
forward + autograd.grad on the model yields the same terms as before the call.
"""
import itertools
from fractions import Fraction

import numpy as np
import z3

from symtm import core, tensor as T, harness, nn
from symtm.core import ite, s_and, s_or, s_not, s_sum
from . import common as C, dl

PROP = "C07"


class InjectedFault(Exception):
    pass


class PromotedWarning(RuntimeWarning):
    pass


def _warn(faults, msg, cat):
    before = faults.fired
    try:
        faults.site("warn")
    except InjectedFault:
        raise PromotedWarning(str(msg)[:80])


class Faults:
    def __init__(self, ctx, K):
        self.ctx, self.n, self.fired, self.paused = ctx, 0, None, False
        self.kinds = {}
        self.at = core.Int("fault_at")
        ctx.assume(s_and(self.at >= 0, self.at <= K))

    def site(self, name):
        if self.fired is not None or self.paused:
            return
        self.n += 1
        self.kinds[name] = self.kinds.get(name, 0) + 1
        if bool(self.at == self.n):
            self.fired = (self.n, name, self.kinds[name])
            raise InjectedFault("injected fault #%d at %s" % (self.n, name))


def _behaviour(net, A, L):
    """plain forward + ordinary gradient on a fixed probe input (terms)"""
    probe = T.Tensor(np.array([[[Fraction((3 * c + 5 * p) % 7, 3) for p in range(L)] for c in range(A)]], dtype=object), dtype="float32")
    old = T.GRAD_ENABLED[0]
    T.GRAD_ENABLED[0] = True
    try:
        probe.requires_grad_()
        y = net(probe)
        (g,) = T.backward([y[:, 0].sum()], [np.array(1, dtype=object)], [probe])
    finally:
        T.GRAD_ENABLED[0] = old
    return [str(core.zn(v)) if isinstance(v, core.Sym) else str(v) for v in y.a.flat], [str(core.zn(v)) if isinstance(v, core.Sym) else str(v) for v in g.a.flat]



# ------------------------------------------------------------------ the other model-taking entry points (shared by harness and replay)

EXTRA = ("ism", "ism_raw", "marginalize", "ablate", "ablate_dls", "space", "space_dls", "substitution_effect", "deletion_effect",
         "insertion_effect", "apply_product", "apply_pairwise", "greedy", "marginalize_annotations", "ablate_annotations")


def call_entry(entry, M, net, X, A, L, refgen, oh, ints, reals, bs, l1):
    """One call of a model-taking tangermeme function.  M(name) gives the module (loaded source or the real package),
    oh / ints / reals build one-hot, integer and real tensors for that side."""
    alphabet = list(C.ALPHA[:A])
    dlsf = M("deep_lift_shap").deep_lift_shap
    B = X.shape[0]
    if entry == "ism":
        return M("ism").saturation_mutagenesis(net, X, batch_size=bs, device="cpu")
    if entry == "ism_raw":
        return M("ism").saturation_mutagenesis(net, X, start=1, end=L, batch_size=bs, raw_outputs=True, device="cpu")
    if entry == "marginalize":
        return M("marginalize").marginalize(net, X, oh([[1]]), start=0, alphabet=alphabet, batch_size=bs, device="cpu")
    if entry == "marginalize_annotations":
        return M("marginalize").marginalize_annotations(net, X, X, ints([[0, 0, 2], [B - 1, 1, 2]]), alphabet=alphabet, batch_size=bs, device="cpu")
    if entry == "ablate":
        return M("ablate").ablate(net, X, 0, 2, n=2, random_state=0, batch_size=bs, device="cpu")
    if entry == "ablate_annotations":
        return M("ablate").ablate_annotations(net, X, ints([[0, 0, 2], [B - 1, 1, 3]]), n=2, random_state=0, batch_size=bs, device="cpu")
    if entry == "ablate_dls":
        return M("ablate").ablate(net, X, 0, 2, n=1, random_state=0, func=dlsf, references=refgen, n_shuffles=1, batch_size=bs, device="cpu")
    if entry == "space":
        return M("space").space(net, X, [oh([[0]]), oh([[1]])], [[0], [1]], start=0, alphabet=alphabet, batch_size=bs, device="cpu")
    if entry == "space_dls":
        return M("space").space(net, X, [oh([[0]]), oh([[1]])], [[1]], start=0, alphabet=alphabet, func=dlsf, references=refgen, n_shuffles=1, batch_size=bs, device="cpu")
    if entry == "substitution_effect":
        return M("variant_effect").substitution_effect(net, X, ints([[0, 1, 1], [B - 1, 0, 0]]), batch_size=bs, device="cpu")
    if entry == "deletion_effect":
        return M("variant_effect").deletion_effect(net, X, ints([[0, 1], [B - 1, 2]]), batch_size=bs, device="cpu")
    if entry == "insertion_effect":
        return M("variant_effect").insertion_effect(net, X, ints([[0, 1, 1]]), batch_size=bs, device="cpu")
    if entry == "apply_product":
        return M("product").apply_product(M("predict").predict, net, X, args=[reals(2), reals(2)], batch_size=bs, device="cpu")
    if entry == "apply_pairwise":
        return M("product").apply_pairwise(M("predict").predict, net, X, args=[reals(3)], batch_size=bs, device="cpu")
    if entry == "greedy":
        return M("design").greedy_substitution(net, X[:1], [C.ALPHA[1], C.ALPHA[0] + C.ALPHA[1]], reals(1, 2), loss=l1, tol=0, max_iter=2, alphabet=alphabet, batch_size=bs, device="cpu")
    raise KeyError(entry)


# ------------------------------------------------------------------ replay on real torch

def replay(r):
    C.real_tangermeme()
    import torch
    from tangermeme.deep_lift_shap import deep_lift_shap
    from tangermeme.predict import predict
    A, L = r["A"], r["L"]
    LM = r.get("L_model", L)
    model = dl.real_model(r.get("arch", "dense1"), A, LM)
    if r.get("shared_act") or r.get("bn") or r.get("lazy_cache"):
        base = model

        class Wrap(torch.nn.Module):
            def __init__(self):
                super().__init__()
                self.inner = base
                if r.get("shared_act"):
                    self.alias = [m_ for m_ in base if isinstance(m_, (torch.nn.Tanh, torch.nn.ReLU, torch.nn.GELU))][0]
                if r.get("bn"):
                    self.bn = torch.nn.BatchNorm1d(A).double()

            def forward(self, X, *a):
                if r.get("bn"):
                    X = self.bn(X)
                if r.get("lazy_cache"):
                    if getattr(self, "_pos", None) is None:
                        self._pos = torch.ones(1, A, LM, dtype=X.dtype)
                    X = X * self._pos
                return self.inner(X)
        model = Wrap()
        model.train(bool(r.get("starts_in_training_mode", True)))
        if r.get("bn") and "bn_child_in_training_mode" in r:
            model.bn.train(bool(r["bn_child_in_training_mode"]))
    probe = torch.rand(1, A, LM, dtype=torch.float64, generator=torch.Generator().manual_seed(0), requires_grad=True)

    def beh():
        y = model(probe)
        (g,) = torch.autograd.grad(y[:, 0].sum(), probe)
        return y.detach().clone(), g.clone()
    was_training = model.training
    model.eval()
    y0, g0 = beh()
    model.train(was_training)
    if r.get("bn") and "bn_child_in_training_mode" in r:
        model.bn.train(bool(r["bn_child_in_training_mode"]))
    if r.get("lazy_cache"):
        model._pos = None
    import copy
    import warnings
    fresh = copy.deepcopy(model)
    b0 = {k: v.clone() for k, v in model.state_dict().items()}
    p0 = [p.detach().clone() for p in model.parameters()]
    X = C.real_onehot(r.get("x") or _default_x(A, L, r.get("B", 2)), A).double()
    calls = {"n": 0}
    site, at = r.get("site"), r.get("at", 1)

    class Boom(Exception):
        pass

    def refgen(Xb, n=1, random_state=None, **kw):
        calls["n"] += 1
        if site == "refgen" and calls["n"] == at:
            raise Boom("reference generator failed")
        return Xb[:, None].repeat(1, n, 1, 1).flip(-1)
    fcount = {"n": 0}
    if site == "forward":
        def pre(mod, inp):
            fcount["n"] += 1
            if fcount["n"] == at:
                raise Boom("forward failed")
        h = model.register_forward_pre_hook(pre)
    raised = None
    try:
        if r["entry"] == "deep_lift_shap":
            kw = dict(references=refgen, n_shuffles=2, batch_size=r.get("batch_size", 2), device="cpu", random_state=0, target=r.get("target", 0))
            if r.get("warn_as_error"):
                kw["warning_threshold"] = -1.0
            if r.get("history_ops"):
                act_cls = [type(m_) for m_ in model.modules() if isinstance(m_, (torch.nn.Tanh, torch.nn.ReLU, torch.nn.GELU, torch.nn.Sigmoid, torch.nn.Softplus))][0]
                kw["additional_nonlinear_ops"] = {act_cls: (lambda mod, gi, go: gi)}
            if site == "invalid_input":
                X[0, :, 0] = 0
                from tangermeme.ersatz import dinucleotide_shuffle
                kw["references"] = dinucleotide_shuffle
            if site == "target":
                kw["target"] = 99
            with warnings.catch_warnings():
                warnings.simplefilter("error" if r.get("warn_as_error") else "ignore")
                deep_lift_shap(model, X, **kw)
        elif r["entry"] == "predict":
            predict(model, X, device="cpu")
        else:
            import importlib
            call_entry(r["entry"], lambda n: importlib.import_module("tangermeme." + n), model, X, A, L, refgen,
                       oh=lambda ch: C.real_onehot(ch, A).double(), ints=lambda rows: torch.tensor(rows, dtype=torch.int64),
                       reals=lambda *shape: (torch.arange(1, int(np.prod(shape)) + 1, dtype=torch.float64) / 2).reshape(shape + ((1,) if len(shape) == 1 else ())),
                       bs=r.get("batch_size", 2), l1=torch.nn.L1Loss(reduction="none"))
    except Exception as e:
        raised = e
    if site == "forward":
        h.remove()
    if raised is not None and site is None and not r.get("warn_as_error"):
        return True, "%s raised %s: %s although nothing failed in its environment" % (r["entry"], type(raised).__name__, raised)
    if r.get("history_ops"):
        calls["n"] = -10 ** 6
        kw2 = dict(references=refgen, n_shuffles=2, batch_size=r.get("batch_size", 2), device="cpu", random_state=0, target=0)
        with warnings.catch_warnings():
            warnings.simplefilter("ignore")
            try:
                a_shared = deep_lift_shap(model, X, **kw2)
                a_fresh = deep_lift_shap(fresh, X, **kw2)
            except Exception as e:
                return True, "second call raised %s: %s" % (type(e).__name__, e)
        if not torch.equal(a_shared, a_fresh):
            return True, "after a first call with additional_nonlinear_ops (%s), a plain call on the shared model differs from the same call on a fresh copy (max diff %.3g)" % (
                "raised %s" % type(raised).__name__ if raised is not None else "returned", float((a_shared - a_fresh).abs().max()))
    if r.get("bn"):
        b1 = {k: v.clone() for k, v in model.state_dict().items()}
        if any(not torch.equal(b0[k], b1[k]) for k in b0):
            return True, "state_dict entries changed by the call: %s" % [k for k in b0 if not torch.equal(b0[k], b1[k])]
    left = sum(len(m._forward_hooks) + len(m._forward_pre_hooks) + len(m._backward_hooks) for m in model.modules())
    if left:
        return True, "%d hooks left registered on the model after the call (site=%s, at=%s)" % (left, site, at)
    model.eval()
    try:
        y1, g1 = beh()
    except RuntimeError as e:
        return True, "a plain forward + gradient on the model raises after the call: %s" % str(e)[:150]
    if not torch.equal(y0, y1) or not torch.equal(g0, g1):
        return True, "model outputs / gradients changed after the call"
    if any(not torch.equal(a, b.detach()) for a, b in zip(p0, model.parameters())):
        return True, "parameters changed"
    return False, "ok"


# ------------------------------------------------------------------ symbolic harness

def worker(cfg):
    ld, shims = C.fresh_env()
    dls = ld.load("deep_lift_shap")
    pred = ld.load("predict")
    dl.install_deferred_any(shims, None)
    torch_s = shims["torch"]
    NN = torch_s.nn
    stats = core.Stats()
    out = {"violations": [], "samples": []}
    A, L, B, entry = cfg["A"], cfg["L"], cfg["B"], cfg["entry"]
    LM = cfg.get("L_model", L)                 # deletion_effect hands the model sequences one position shorter
    if cfg.get("warn_as_error"):
        torch_s.any = lambda x, *a, **k: True          # |delta| > warning_threshold = -1 holds for every value

    def body(ctx):
        faults = Faults(ctx, cfg["K"])
        inner = dl.build(cfg.get("arch", "dense1"), A, LM, NN=NN)

        class Net(NN.Module):
            def __init__(self):
                super().__init__()
                self.inner = inner
                if cfg.get("shared_act"):
                    # the same activation object reachable through a second parent (model.apply visits it twice)
                    self.alias = [m_ for m_ in inner._modules.values() if type(m_).__name__ in nn.ACT_NAMES][0]
                if cfg.get("bn"):
                    self.bn = NN.BatchNorm1d(A)

            def forward(self, X, *a):
                faults.site("forward")
                if cfg.get("bn"):
                    X = self.bn(X)
                if cfg.get("lazy_cache"):
                    # a tensor built on first use and kept by the model (positional weights, per-length caches, lazy modules)
                    if getattr(self, "_pos", None) is None:
                        self._pos = torch_s.ones(1, A, LM)
                    X = X * self._pos
                return self.inner(X)
        net = Net()
        modes = {}
        fresh = Net() if cfg.get("history_ops") else None
        if cfg.get("bn"):
            modes = {"starts_in_training_mode": bool(core.Bool("starts_in_training_mode"))}
            net.train(modes["starts_in_training_mode"])
            # the mode of a sub-module is independent of the top-level flag (a head attached / re-trained after model.eval())
            modes["bn_child_in_training_mode"] = bool(core.Bool("bn_child_in_training_mode"))
            net.bn.train(modes["bn_child_in_training_mode"])
        params0 = [id(p) for p in net.parameters()]
        pvals0 = [p.a.copy() for p in net.parameters()]
        bufs0 = [b.a.copy() for b in net.buffers()]
        faults.paused = True
        beh0 = _behaviour(net if cfg.get("lazy_cache") else inner, A, LM)
        faults.paused = False
        if cfg.get("lazy_cache"):
            net._pos = None
        if cfg.get("concrete_x"):
            xc = np.array(_default_x(A, L, B), dtype=object)
        else:
            xc = C.sym_chars(ctx, "x", (B, L), A)
        X = C.onehot_from_chars(xc, A, dtype="float32")
        x_snapshot = X.a.copy()
        ctx.state["bhook_fault"] = lambda mod: faults.site("bhook")

        def refgen(Xb, n=1, random_state=None, **kw):
            faults.site("refgen")
            return Xb.unsqueeze(1).repeat(1, n, 1, 1).flip(dims=(-1,))
        target = cfg.get("target", 0)
        if cfg.get("bad_target"):
            bt = core.Bool("bad_target")
            target = 99 if bool(bt) else 0
        hist = cfg.get("history", 1)
        outcome = []
        results = []
        extra_kw = {}
        real_warn = dls.warnings.warn
        if cfg.get("warn_as_error"):
            # the user promotes warnings to errors (python -W error): warnings.warn is then one more place that can raise
            def warn(msg, cat=UserWarning, *a, **k):
                faults.site("warn")
            dls.warnings = type("W", (), {"warn": staticmethod(lambda msg, cat=UserWarning, *a, **k: _warn(faults, msg, cat))})
            extra_kw["warning_threshold"] = -1.0            # the convergence warning is issued in every batch
        for step in range(hist):
            try:
                if entry == "deep_lift_shap":
                    refs = refgen
                    if cfg.get("tensor_refs"):
                        refs = refgen(X, n=2)
                    kw_step = dict(extra_kw)
                    if cfg.get("history_ops") and step == 0:
                        act_cls = [type(m_) for m_ in inner._modules.values() if type(m_).__name__ in nn.ACT_NAMES][0]
                        kw_step["additional_nonlinear_ops"] = {act_cls: (lambda mod, gi, go: gi)}
                    results.append(dls.deep_lift_shap(net, X, references=refs, n_shuffles=2, batch_size=cfg.get("batch_size", 2), target=(target if not (cfg.get("history_ops") and step > 0) else 0), device="cpu",
                                       random_state=0, hypothetical=cfg.get("hypothetical", False), raw_outputs=cfg.get("raw", False), **kw_step))
                elif entry == "predict":
                    pred.predict(net, X, batch_size=cfg.get("batch_size", 2), device="cpu")
                elif entry == "marginalize_dls":
                    mg = ld.load("marginalize")
                    mo = C.onehot_from_chars(np.zeros((1, 1), dtype=object), A, dtype="float32")
                    mg.marginalize(net, X, mo, start=0, alphabet=list(C.ALPHA[:A]), func=dls.deep_lift_shap, references=refgen, n_shuffles=1, device="cpu", random_state=0)
                else:
                    call_entry(entry, ld.load, net, X, A, L, refgen,
                               oh=lambda ch: C.onehot_from_chars(np.array(ch, dtype=object), A, dtype="float32"),
                               ints=lambda rows: T.Tensor(np.array(rows, dtype=object), dtype="int64"),
                               reals=lambda *shape: T.Tensor(np.array([Fraction(i + 1, 2) for i in range(int(np.prod(shape)))], dtype=object).reshape(shape + ((1,) if len(shape) == 1 else ())), dtype="float32"),
                               bs=cfg.get("batch_size", 2), l1=lambda a, b: abs(a - b))
                outcome.append("returned")
            except Exception as e:
                if isinstance(e, core.Inconclusive):
                    raise
                outcome.append("raised:%s" % type(e).__name__)
                results.append(None)
                expected = isinstance(e, (InjectedFault, PromotedWarning)) or (cfg.get("bad_target") and target == 99 and isinstance(e, IndexError))
                if not expected:
                    # nothing was injected into this call: it must not raise
                    out["violations"].append(C.violation("unexpected-raise", "%s raised %s: %s although nothing failed in its environment" % (entry, type(e).__name__, e),
                                                         dict(cfg, at=0, site=None, entry=_rentry(entry)), replay))
                    return "raised"
        dls.warnings = __import__("warnings")
        out["max_sites"] = max(out.get("max_sites", 0), faults.n)
        # ---- post-state
        left = net.n_hooks()
        mdl = ctx.model() if ctx.check() == z3.sat else None
        fa = core.model_value(mdl, faults.at) if mdl is not None else None
        rp = dict(cfg, **modes, at=(faults.fired[2] if faults.fired else 0), site=(faults.fired[1] if faults.fired else ("target" if (cfg.get("bad_target") and target == 99) else None)))
        ctx.stats.obligations += 1
        ok = True
        if left:
            ok = False
            # map the symbolic site to a replay: which call of its kind fired
            kind_idx = rp["at"]
            key = "dls:hooks-leak-on-failure-outside-try" if entry != "predict" else "hooks-left"
            out["violations"].append(C.violation(key, "%d hooks left on the model after %s (%s; fault %s)" % (left, entry, outcome, faults.fired),
                                                 dict(rp, entry=_rentry(entry), at=_nth_of_kind(faults)), replay))
        if [id(p) for p in net.parameters()] != params0 or any(not C.same_objects(p.a, q) for p, q in zip(net.parameters(), pvals0)):
            ok = False
            out["violations"].append(C.violation("params-changed", "parameters replaced or modified by %s" % entry, dict(rp, entry=_rentry(entry)), replay))
        if any(not (b.a.shape == q.shape and all(bool(x_ == y_) for x_, y_ in zip(b.a.flat, q.flat))) for b, q in zip(net.buffers(), bufs0)):
            ok = False
            out["violations"].append(C.violation("buffers-changed", "buffers (running statistics) of the model were modified by %s" % entry, dict(rp, entry=entry, bn=True), replay))
        if cfg.get("history_ops") and left == 0 and results and results[-1] is not None:
            # the last (plain) call on the shared model against the same call on a fresh copy
            faults.paused = True
            ref = dls.deep_lift_shap(fresh, X, references=(refgen if not cfg.get("tensor_refs") else refgen(X, n=2)), n_shuffles=2, batch_size=cfg.get("batch_size", 2), target=0,
                                     device="cpu", random_state=0, hypothetical=cfg.get("hypothetical", False), raw_outputs=cfg.get("raw", False))
            same = ref.shape == results[-1].shape and ctx.prove(s_and(*[a_ == b_ for a_, b_ in zip(ref.a.flat, results[-1].a.flat)]), "shared model == fresh copy") is None
            if not same:
                ok = False
                out["violations"].append(C.violation("history-differs-from-fresh-copy", "a call on the shared model gives a different result than the same call on a fresh copy (after an earlier call %s)" % outcome[:-1],
                                                     dict(rp, entry="deep_lift_shap", history_ops=True, at=_nth_of_kind(faults)), replay))
        if left == 0:
            faults.paused = True
            try:
                beh1 = _behaviour(net if cfg.get("lazy_cache") else inner, A, LM)
            except RuntimeError as e:
                beh1 = "raised %s" % e
            if beh1 != beh0:
                ok = False
                out["violations"].append(C.violation("behaviour-changed", "plain forward / gradient of the model differs after %s%s" % (entry, (" (%s)" % beh1[:120]) if isinstance(beh1, str) else ""), dict(rp, entry=_rentry(entry)), replay))
        if ok:
            ctx.stats.discharged += 1
        if ok and faults.fired is None and faults.n > cfg["K"] and hist == 1:
            # unwinding assertion: the run has more crash points than the bound K lets the solver choose from
            raise core.Inconclusive("C07: %d fault sites reached but K = %d" % (faults.n, cfg["K"]))
        if len(out["samples"]) < 3:
            out["samples"].append({"cfg": cfg, "fault": faults.fired, "outcome": outcome, "hooks_left": left})
        return "raised" if any(o.startswith("raised") for o in outcome) else "returned"

    core.explore(body, stats=stats, max_paths=5000, reset=ld.restore)
    out["stats"] = stats.as_dict()
    return out


def _rentry(entry):
    return entry if (entry == "predict" or entry in EXTRA) else "deep_lift_shap"


def _default_x(A, L, B):
    return [[(i + b) % A for i in range(L)] for b in range(B)]


def _nth_of_kind(faults):
    return 1 if faults.fired is None else faults.fired[2]


def configs(tier):
    q = tier == "quick"
    cf = [dict(entry="deep_lift_shap", A=2, L=3, B=2, K=14, batch_size=2), dict(entry="deep_lift_shap", A=2, L=3, B=2, K=10, batch_size=3, tensor_refs=True, bad_target=True),
          dict(entry="predict", A=2, L=3, B=3, K=4, batch_size=2), dict(entry="deep_lift_shap", A=2, L=2, B=1, K=8, batch_size=1, history=2, hypothetical=True),
          dict(entry="marginalize_dls", A=2, L=3, B=1, K=8), dict(entry="deep_lift_shap", A=2, L=3, B=2, K=10, batch_size=2, shared_act=True),
          dict(entry="predict", A=2, L=3, B=3, K=4, batch_size=2, bn=True), dict(entry="deep_lift_shap", A=2, L=3, B=1, K=6, batch_size=2, bn=True)]
    cf += [dict(entry="deep_lift_shap", A=2, L=3, B=2, K=12, batch_size=2, warn_as_error=True),
           dict(entry="deep_lift_shap", A=2, L=2, B=1, K=8, batch_size=1, history=2, history_ops=True, bad_target=True),
           dict(entry="predict", A=2, L=3, B=2, K=3, batch_size=2, lazy_cache=True)]
    # every other model-taking entry point, on a model with BatchNorm statistics and a symbolic initial mode
    for e in EXTRA:
        cf.append(dict(entry=e, A=2, L=4, B=2, K=(60 if e == "greedy" else 30), batch_size=2, concrete_x=True, bn=True, **({"L_model": 3} if e == "deletion_effect" else {})))
    if not q:
        for e in EXTRA:
            cf.append(dict(entry=e, A=2, L=4, B=3, K=(90 if e == "greedy" else 60), batch_size=2, concrete_x=(e == "greedy"), arch="conv", **({"L_model": 3} if e == "deletion_effect" else {})))
        cf += [dict(entry="deep_lift_shap", A=2, L=3, B=3, K=24, batch_size=2, arch="conv"), dict(entry="deep_lift_shap", A=2, L=3, B=2, K=14, batch_size=4, raw=True),
               dict(entry="deep_lift_shap", A=3, L=3, B=2, K=16, batch_size=1, history=2)]
    return cf


def main(tier, seed):
    rep = harness.Report(PROP, tier, seed)
    ld, _ = C.fresh_env()
    rep.functions = [ld.func_info("deep_lift_shap", f) for f in ("deep_lift_shap", "_register_hooks", "_clear_hooks")] + [ld.func_info("predict", "predict"), ld.func_info("marginalize", "marginalize"),
                     ld.func_info("marginalize", "marginalize_annotations"), ld.func_info("ism", "saturation_mutagenesis"), ld.func_info("ablate", "ablate"), ld.func_info("ablate", "ablate_annotations"),
                     ld.func_info("space", "space"), ld.func_info("variant_effect", "substitution_effect"), ld.func_info("variant_effect", "deletion_effect"), ld.func_info("variant_effect", "insertion_effect"),
                     ld.func_info("product", "apply_product"), ld.func_info("product", "apply_pairwise"), ld.func_info("design", "greedy_substitution")]
    cf = configs(tier)
    rep.bounds = {"crash_points": "every fault site reached in the run (model forward, reference generator, backward hook) up to K = %d, plus 'no fault'; out-of-range target" % max(c["K"] for c in cf),
                  "entries": sorted({c["entry"] for c in cf}), "histories": "1-2 calls on a shared model"}
    rep.assumptions = ["hook dictionaries / parameters / plain forward and gradient terms are the observable model state (nn model of torch.nn.Module)",
                       "exceptions raised inside torch's C++ autograd engine without a Python-visible call site, CUDA, and device moves are outside the claim",
                       "the model may be left in eval mode (allowed by the statement)"]
    rep.absorb(harness.run_configs("checks.C07", "worker", cf))
    rep.witness_ok = rep.stats["returned"] > 0 and rep.stats["raised"] > 0
    return harness.finish(rep)
