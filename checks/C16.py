"""C16 - loaded loci, signals and motifs are exactly what the files contain.

(a) Engine A on the real io.extract_loci / _interleave_loci / _load_signals / _extract_locus_signal
    with recorder genome / signal objects: locus coordinates, chromosome lengths, in_window,
    out_window, max_jitter, count thresholds and n_loci are *unbounded* symbolic values; the claim is
    about the windows requested from the genome / signal and about which loci are kept.
(b) the real io.read_meme on a symbolic MEME *layout* (blank / URL / nothing after a matrix, CRLF,
    final newline ...) enumerated by the solver.
"""
import itertools
import os
import tempfile

import numpy as np
import z3

from symtm import core, tensor as T, harness, env
from symtm.core import SInt, ite, s_and, s_or, s_not, s_sum
from . import common as C

PROP = "C16"


# ------------------------------------------------------------------ recorder environment

class RecChrom:
    """in-memory genome entry of symbolic length: records the requested [start, end)"""
    def __init__(self, chrom, length, log):
        self.chrom, self.shape, self.log = chrom, (4, length), log

    def __getitem__(self, k):
        _, sl = k
        tok = len(self.log)
        self.log.append(("seq", self.chrom, sl.start, sl.stop, tok))
        a = np.empty((4, 1), dtype=object)
        a[...] = tok
        return T.NDArray(a, dtype="int8")


class RecSignal(T.NDArray):
    """in-memory signal track: records the requested [start, end); the returned window sums to a fresh symbolic count"""
    def __init__(self, chrom, which, log):
        super().__init__(np.zeros((1,), dtype=object), dtype="float32")
        self.chrom, self.which, self.log = chrom, which, log

    def __getitem__(self, sl):
        tok = len(self.log)
        cnt = core.Real("count_%s_%d" % (self.which, tok))
        self.log.append(("sig", self.which, self.chrom, sl.start, sl.stop, tok, cnt))
        a = np.empty((1,), dtype=object)
        a[0] = cnt
        return T.NDArray(a, dtype="float32")


def _vars(term):
    out = set()

    def walk(t):
        if z3.is_const(t) and t.decl().kind() == z3.Z3_OP_UNINTERPRETED:
            out.add(str(t))
        for c in t.children():
            walk(c)
    if isinstance(term, core.Sym):
        walk(term.z)
    return out


# ------------------------------------------------------------------ replay (real numpy / pandas / torch)

def replay(r):
    C.real_tangermeme()
    import numpy
    import pandas
    import torch
    from tangermeme import io as rio
    if r["kind"] == "meme":
        d = tempfile.mkdtemp(prefix="c16_")
        p = os.path.join(d, "t.meme")
        try:
            with open(p, "w", newline="") as f:
                f.write(r["text"])
            try:
                got = rio.read_meme(p)
            except Exception as e:
                return True, "read_meme raised %s: %s" % (type(e).__name__, e)
        finally:
            try:
                os.remove(p)
                os.rmdir(d)
            except OSError:
                pass
        names = [m["name"] for m in r["motifs"]]
        if list(got.keys()) != names:
            return True, "read_meme returned motifs %s, file contains %s" % (list(got.keys()), names)
        for m in r["motifs"]:
            exp = numpy.array(m["rows"], dtype=float).T
            if got[m["name"]].shape != exp.shape or not numpy.allclose(got[m["name"]].numpy(), exp):
                return True, "matrix of %s differs" % m["name"]
        return False, "ok"
    # extract_loci on a concrete synthetic genome whose base at position p encodes p
    sets = r["sets"]
    clen = r["chrom_lengths"]
    rng = numpy.random.RandomState(0)
    genome, sig = {}, {}
    for c, n in clen.items():
        g = numpy.zeros((4, n), dtype=numpy.int8)
        g[rng.randint(0, 4, size=n), numpy.arange(n)] = 1
        genome[c] = g
        sig[c] = numpy.arange(n, dtype=numpy.float64) % 7 + 1
    dfs = [pandas.DataFrame({"chrom": [x[0] for x in s], "start": [x[1] for x in s], "end": [x[2] for x in s]}) for s in sets]
    kw = dict(in_window=r["in_window"], out_window=r["out_window"], max_jitter=r["max_jitter"], chroms=r.get("chroms"), n_loci=r.get("n_loci"),
              min_counts=r.get("min_counts"), max_counts=r.get("max_counts"))
    use_sig = r.get("signals", False)
    try:
        out = rio.extract_loci(dfs if len(dfs) > 1 else dfs[0], genome, signals=[sig] if use_sig else None, **kw)
    except Exception as e:
        return True, "extract_loci raised %s: %s" % (type(e).__name__, e)
    seqs = out[0] if use_sig else out
    sigs = out[1] if use_sig else None
    # independent expectation
    inw, outw, jit = r["in_window"], r["out_window"], r["max_jitter"]
    fsets = [[x for x in s if (r.get("chroms") is None or x[0] in r["chroms"])] for s in sets]
    order = [fsets[i][j] for j in range(max((len(s) for s in fsets), default=0)) for i in range(len(fsets)) if j < len(fsets[i])]
    exp_seq, exp_sig = [], []
    for c, a, b in order:
        if r.get("n_loci") is not None and len(exp_seq) == r["n_loci"]:
            break
        mid = a + (b - a) // 2
        lo_in, hi_in = mid - inw // 2 - jit, mid + inw // 2 + jit + inw % 2
        lo_o, hi_o = mid - outw // 2 - jit, mid + outw // 2 + jit + outw % 2
        lo, hi = (min(lo_in, lo_o), max(hi_in, hi_o)) if use_sig else (lo_in, hi_in)
        if lo < 0 or hi > clen[c]:
            continue            # crosses an end: must be dropped
        touches = lo == 0 or hi == clen[c]
        e_sig = sig[c][lo_o:hi_o] if use_sig else None
        if use_sig:
            tot = e_sig.sum()
            if (r.get("min_counts") is not None and tot < r["min_counts"]) or (r.get("max_counts") is not None and tot > r["max_counts"]):
                continue
        exp_seq.append((genome[c][:, lo_in:hi_in], touches))
        exp_sig.append(e_sig)
    # the implementation may additionally drop loci whose window merely touches an end: align greedily
    k = 0
    for (e, touches), es in zip(exp_seq, exp_sig):
        if k < len(seqs) and seqs[k].shape == e.shape and numpy.array_equal(seqs[k].numpy(), e) and (not use_sig or numpy.allclose(sigs[k][0].numpy(), es)):
            k += 1
        elif touches:
            continue
        else:
            return True, "kept locus %d does not match the expected window / a locus strictly inside its chromosome was dropped" % k
    if k != len(seqs):
        return True, "extract_loci returned %d loci, %d expected (rows out of order, extra or wrong windows)" % (len(seqs), k)
    return False, "ok"


# ------------------------------------------------------------------ MEME layouts

AFTER = ["blank", "url", "nothing", "two_blank", "space_line"]


SEPS = ["  ", "\t", " "]


def meme_text(motifs, after, eol, final_nl, sep=0):
    E = "\r\n" if eol == 1 else "\n"
    lines = ["MEME version 4", "", "ALPHABET= ACGT", "", "strands: + -", "", "Background letter frequencies", "A 0.25 C 0.25 G 0.25 T 0.25", ""]
    for m, af in zip(motifs, after):
        lines.append("MOTIF " + m["name"])
        lines.append("letter-probability matrix: alength= 4 w= %d nsites= 20 E= 0" % len(m["rows"]))
        for row in m["rows"]:
            lines.append((" " if sep == 2 else "") + SEPS[sep].join("%.6f" % v for v in row))
        k = AFTER[af]
        if k == "blank":
            lines.append("")
        elif k == "url":
            lines.append("URL http://example.org/" + m["name"])
            lines.append("")
        elif k == "two_blank":
            lines += ["", ""]
        elif k == "space_line":
            lines.append("   ")
    text = E.join(lines)
    if final_nl:
        text += E
    return text


def make_motifs(widths):
    ms = []
    for i, w in enumerate(widths):
        rows = [[round(0.1 * ((i + j + c) % 4 + 1) + 0.000001 * (c + 3), 6) for c in range(4)] for j in range(w)]      # last digit non-zero: a truncated line is a different number
        ms.append({"name": "M%d_x" % i, "rows": rows})
    return ms


# ------------------------------------------------------------------ symbolic harness

def worker(cfg):
    stats = core.Stats()
    out = {"violations": [], "samples": []}

    def add(key, what, r):
        out["violations"].append(C.violation(key, what, r, replay))

    if cfg["kind"] == "meme":
        motifs = make_motifs(cfg["widths"])
        holder = {}

        def fake_open(path, mode="r", *a, **k):
            import io as _io
            return _io.StringIO(holder["text"], newline="")
        ld, shims = C.fresh_env()
        rio = ld.load("io")
        rio.__dict__["__builtins__"]["open"] = fake_open
        torch = shims["torch"]

        def body(ctx):
            after = [core.Int("after%d" % i) for i in range(len(motifs))]
            for a_ in after:
                ctx.assume(s_and(a_ >= 0, a_ < len(AFTER)))
            eol, fin, sep = core.Int("eol"), core.Int("final_nl"), core.Int("sep")
            ctx.assume(s_and(eol >= 0, eol <= 1, fin >= 0, fin <= 1, sep >= 0, sep < len(SEPS)))
            av = [int(a_) for a_ in after]              # the solver enumerates every layout of the grammar
            ev, fv, sv = int(eol), int(fin), int(sep)
            holder["text"] = meme_text(motifs, av, ev, fv, sv)
            r = dict(cfg, motifs=motifs, text=holder["text"], layout=[AFTER[a_] for a_ in av] + ["CRLF" if ev else "LF", "final_nl" if fv else "no_final_nl", "sep=%r" % SEPS[sv]])
            try:
                got = rio.read_meme("sym.meme")
            except Exception as e:
                if isinstance(e, core.Inconclusive):
                    raise
                add("read_meme:raises", "read_meme raised %s: %s" % (type(e).__name__, e), r)
                return "raised"
            ctx.stats.obligations += 1
            names = [m["name"] for m in motifs]
            ok = list(got.keys()) == names
            if ok:
                for m in motifs:
                    g = got[m["name"]]
                    exp = np.array(m["rows"], dtype=float).T
                    ok = ok and tuple(g.shape) == exp.shape and all(abs(float(g.a[c]) - exp[c]) < 1e-9 for c in np.ndindex(*exp.shape))
            if ok:
                ctx.stats.discharged += 1
            else:
                key = _meme_key(list(got.keys()), names, av, fv)
                add(key, "read_meme returned %s for a file containing %s (layout %s)" % (list(got.keys()), names, r["layout"]), r)
            if not out["samples"]:
                out["samples"].append({"cfg": cfg, "layout": r["layout"]})
            return "returned"
        core.explore(body, stats=stats, max_paths=20000, reset=ld.restore)
        out["stats"] = stats.as_dict()
        return out

    # ---- extract_loci
    ld, shims = C.fresh_env()
    rio = ld.load("io")
    sizes, chroms_of0, use_sig, use_insig = cfg["sizes"], cfg["chroms_of"], cfg["signals"], cfg.get("in_signals", False)
    DataFrame = shims["pandas"].DataFrame
    NAMES = sorted(set(sum(chroms_of0, [])))

    def body(ctx):
        log = []
        chroms_of = chroms_of0
        if cfg.get("sym_chroms"):
            # the chromosome of every locus is chosen by the solver (each assignment is a path)
            chroms_of = []
            for i, n in enumerate(sizes):
                row = []
                for j in range(n):
                    v = core.Int("chrom_%d_%d" % (i, j))
                    ctx.assume(s_and(v >= 0, v < len(NAMES)))
                    row.append(NAMES[int(v)])
                chroms_of.append(row)
        inw, outw, jit = core.Int("in_window"), core.Int("out_window"), core.Int("max_jitter")
        ctx.assume(s_and(inw >= 1, outw >= 1, jit >= 0))
        clen = {c: core.Int("len_" + c) for c in NAMES}
        for v in clen.values():
            ctx.assume(v >= 1)
        rows = {}
        dfs = []
        for i, n in enumerate(sizes):
            data = {"chrom": [], "start": [], "end": []}
            for j in range(n):
                a, b = core.Int("s_%d_%d" % (i, j)), core.Int("e_%d_%d" % (i, j))
                ctx.assume(s_and(a >= 0, a <= b))
                rows[(i, j)] = (chroms_of[i][j], a, b)
                data["chrom"].append(chroms_of[i][j])
                data["start"].append(a)
                data["end"].append(b)
            dfs.append(DataFrame(data))
        genome = {c: RecChrom(c, clen[c], log) for c in clen}
        sig = [{c: RecSignal(c, "out", log) for c in clen}] if use_sig else None
        insig = [{c: RecSignal(c, "in", log) for c in clen}] if use_insig else None
        chroms = cfg.get("chroms")
        kw = dict(in_window=inw, out_window=outw, max_jitter=jit, chroms=chroms)
        n_loci = minc = maxc = None
        if cfg.get("n_loci"):
            n_loci = core.Int("n_loci")
            ctx.assume(s_and(n_loci >= 0, n_loci <= sum(sizes) + 1))      # larger caps behave like sum(sizes) + 1
            kw["n_loci"] = n_loci
        if cfg.get("counts"):
            minc, maxc = core.Real("min_counts"), core.Real("max_counts")
            kw.update(min_counts=minc, max_counts=maxc)

        def rp(m):
            mv = lambda v: core.model_value(m, v)
            return dict(cfg, sets=[[[rows[(i, j)][0], mv(rows[(i, j)][1]), mv(rows[(i, j)][2])] for j in range(n)] for i, n in enumerate(sizes)],
                        chrom_lengths={c: mv(v) for c, v in clen.items()}, in_window=mv(inw), out_window=mv(outw), max_jitter=mv(jit),
                        n_loci=(mv(n_loci) if n_loci is not None else None), min_counts=(float(mv(minc)) if minc is not None else None),
                        max_counts=(float(mv(maxc)) if maxc is not None else None))
        try:
            res = rio.extract_loci(dfs if len(dfs) > 1 else dfs[0], genome, signals=sig, in_signals=insig, **kw)
        except Exception as e:
            if isinstance(e, core.Inconclusive):
                raise
            m = ctx.model() if ctx.check() == z3.sat else None
            # numpy.stack of an empty list is the documented behaviour when nothing is kept
            if "need at least one array" in str(e):
                return "raised"
            add("extract_loci:raises", "extract_loci raised %s: %s" % (type(e).__name__, e), rp(m))
            return "raised"
        seqreq = [l for l in log if l[0] == "seq"]
        # expected order: filter by chroms, then round-robin over the sets
        keep_sets = [[(i, j) for j in range(n) if (chroms is None or chroms_of[i][j] in chroms)] for i, n in enumerate(sizes)]
        order = [keep_sets[i][j] for j in range(max(len(s) for s in keep_sets)) for i in range(len(keep_sets)) if j < len(keep_sets[i])]
        pos_of = {rc: k for k, rc in enumerate(order)}

        def row_of(term):
            vs = {v for v in _vars(term) if v.startswith("s_") or v.startswith("e_")}
            ids = {tuple(int(x) for x in v.split("_")[1:]) for v in vs}
            return ids

        cl = []
        kept = []
        for (_, chrom, s0, s1, tok) in seqreq:
            ids = row_of(s0) | row_of(s1)
            if len(ids) != 1:
                cl.append(False)
                continue
            rc = ids.pop()
            kept.append(rc)
            c, a, b = rows[rc]
            mid = a + (b - a) // 2
            cl.append(chrom == c)
            cl.append(s_and(s0 == mid - inw // 2 - jit, s1 == mid + inw // 2 + jit + inw % 2, s1 - s0 == inw + 2 * jit, s0 >= 0, s1 <= clen[c]))
        cl.append(all(rc in pos_of for rc in kept) and [pos_of[rc] for rc in kept if rc in pos_of] == sorted(pos_of[rc] for rc in kept if rc in pos_of) and len(set(kept)) == len(kept))
        for which, wname in (("out", outw), ("in", inw)):
            reqs = [l for l in log if l[0] == "sig" and l[1] == which]
            for (_, _, chrom, g0, g1, tok, cnt) in reqs:
                ids = row_of(g0) | row_of(g1)
                if len(ids) != 1:
                    cl.append(False)
                    continue
                c, a, b = rows[next(iter(ids))]
                mid = a + (b - a) // 2
                cl.append(s_and(chrom == c, g0 == mid - wname // 2 - jit, g1 == mid + wname // 2 + jit + wname % 2, g1 - g0 == wname + 2 * jit, g0 >= 0, g1 <= clen[c]))
        # result rows are the recorded tokens in order
        seqs = res[0] if isinstance(res, list) else res
        cl.append(seqs.shape[0] == len(seqreq) and all(seqs.a[k, 0, 0] == seqreq[k][4] for k in range(min(len(seqreq), seqs.shape[0]))))
        if n_loci is not None:
            cl.append(len(kept) <= n_loci)
        m = ctx.prove(s_and(*cl), "kept loci: exact centred windows inside the chromosome, input order")
        if m is not None:
            # prefer a counterexample whose loci are pairwise distinguishable on a real genome (distinct, well separated mid-points)
            mids = [rows[rc][1] + (rows[rc][2] - rows[rc][1]) // 2 for rc in sorted(rows)]
            apart = [s_or(mids[i_] - mids[j_] >= 3, mids[j_] - mids[i_] >= 3) for i_ in range(len(mids)) for j_ in range(i_)]
            if ctx.check(s_not(s_and(*cl)), s_and(inw <= 12, jit <= 3, outw <= 12, *apart)) == z3.sat:
                m = ctx.model()
            add("extract_loci:wrong-window-or-order", "a kept locus was read with a window other than the centred in/out window (+jitter), outside its chromosome, or out of order", rp(m))
            return "returned"
        # dropped loci: only for an allowed reason
        out_sig = {next(iter(row_of(l[3]) | row_of(l[4]))): l for l in log if l[0] == "sig" and l[1] == "out" and len(row_of(l[3]) | row_of(l[4])) == 1}
        n_before = 0
        for rc in order:
            if rc in kept:
                n_before += 1
                if minc is not None and rc in out_sig:
                    cnt = out_sig[rc][6]
                    mm = ctx.prove(s_and(cnt >= minc, cnt <= maxc), "kept locus passes the count filter")
                    if mm is not None:
                        add("extract_loci:count-filter", "a locus failing min_counts/max_counts was kept", rp(mm))
                continue
            c, a, b = rows[rc]
            mid = a + (b - a) // 2
            w = core.s_max(inw // 2, outw // 2) if (use_sig or use_insig) else inw // 2
            wodd = core.s_max(inw // 2 + inw % 2, outw // 2 + outw % 2) if (use_sig or use_insig) else inw // 2 + inw % 2
            touches = s_or(mid - w - jit <= 0, mid + wodd + jit >= clen[c])
            reasons = [touches]
            if minc is not None and rc in out_sig:
                cnt = out_sig[rc][6]
                reasons.append(s_or(cnt < minc, cnt > maxc))
            if n_loci is not None:
                reasons.append(n_loci == n_before)
            mm = ctx.prove(s_or(*reasons), "dropped only for an allowed reason")
            if mm is not None:
                add("extract_loci:drops-valid-locus", "a locus whose expanded window lies strictly inside its chromosome (and passes the filters) was omitted", rp(mm))
        if not out["samples"]:
            out["samples"].append({"cfg": cfg, "kept_on_path": [list(k) for k in kept], "requests": len(log)})
        return "returned"

    core.explore(body, stats=stats, max_paths=30000, reset=ld.restore)
    out["stats"] = stats.as_dict()
    return out


def _meme_key(got, names, after, final_nl):
    if got == names[:-1] and AFTER[after[-1]] == "nothing" and True:
        return "read_meme:last-motif-lost-at-eof"
    if any(AFTER[a] == "nothing" for a in after[:-1]):
        return "read_meme:motif-directly-after-matrix-swallowed"
    if got == names[:-1]:
        return "read_meme:last-motif-lost-at-eof"
    return "read_meme:wrong-motifs"


def configs(tier):
    cf = []
    q = tier == "quick"
    for widths in ([[1], [2, 1], [1, 1, 2]] if q else [[1], [2], [2, 1], [1, 1, 2], [2, 2, 1, 1]]):
        cf.append(dict(kind="meme", widths=widths))
    cf.append(dict(kind="loci", sizes=[1], chroms_of=[["c1"]], signals=False))
    cf.append(dict(kind="loci", sizes=[2], chroms_of=[["c1", "c2"]], signals=False))
    cf.append(dict(kind="loci", sizes=[1], chroms_of=[["c1"]], signals=True))
    cf.append(dict(kind="loci", sizes=[2], chroms_of=[["c1", "c1"]], signals=True, in_signals=True))
    cf.append(dict(kind="loci", sizes=[2], chroms_of=[["c1", "c2"]], signals=True, counts=True))
    cf.append(dict(kind="loci", sizes=[3], chroms_of=[["c1", "c1", "c1"]], signals=False, n_loci=True))
    cf.append(dict(kind="loci", sizes=[2, 1], chroms_of=[["c1", "c1"], ["c2"]], signals=False))
    cf.append(dict(kind="loci", sizes=[2, 2], chroms_of=[["c1", "c2"], ["c2", "c1"]], signals=False, chroms=["c1"]))
    cf.append(dict(kind="loci", sizes=[2, 2], chroms_of=[["c1", "c2"], ["c2", "c1"]], signals=False, chroms=["c1"], sym_chroms=True))
    # chromosome names of which one is a prefix of the other (chr1 / chr10): only exact membership in `chroms` keeps a locus
    cf.append(dict(kind="loci", sizes=[2, 1], chroms_of=[["c1", "c10"], ["c10"]], signals=False, chroms=["c1"], sym_chroms=True))
    if not q:
        cf.append(dict(kind="loci", sizes=[1, 3, 2], chroms_of=[["c1"], ["c1", "c2", "c1"], ["c2", "c2"]], signals=False))
        cf.append(dict(kind="loci", sizes=[3], chroms_of=[["c1", "c2", "c1"]], signals=True, counts=True, n_loci=True))
        cf.append(dict(kind="loci", sizes=[3, 2], chroms_of=[["c1", "c2", "c1"], ["c2", "c1"]], signals=False, chroms=["c2"], sym_chroms=True))
        cf.append(dict(kind="loci", sizes=[2, 1, 2], chroms_of=[["c1", "c2"], ["c2"], ["c1", "c1"]], signals=True, chroms=["c1"], sym_chroms=True))
        cf.append(dict(kind="loci", sizes=[2, 2, 1, 1], chroms_of=[["c1", "c1"], ["c1", "c1"], ["c1"], ["c1"]], signals=False))
    return cf


def main(tier, seed):
    rep = harness.Report(PROP, tier, seed)
    ld, _ = C.fresh_env()
    rep.functions = [ld.func_info("io", f) for f in ("extract_loci", "_interleave_loci", "_load_signals", "_extract_locus_signal", "read_meme")]
    cf = configs(tier)
    rep.bounds = {"loci": "coordinates, chromosome lengths, in_window, out_window, max_jitter, n_loci, min/max_counts: unbounded symbolic; locus-set sizes %s" % [c["sizes"] for c in cf if c["kind"] == "loci"],
                  "meme": "motif widths %s x every layout in {blank, URL+blank, nothing, two blanks, whitespace line} after each matrix x {LF, CRLF} x {final newline or not} x {two spaces, tab, one space with leading space} between 6-decimal numbers" % [c["widths"] for c in cf if c["kind"] == "meme"]}
    rep.assumptions = ["genome and signals are in-memory dictionaries modelled as recorders with the contract: slice [start, end) returns exactly that range when 0 <= start <= end <= length",
                       "pandas replaced by a minimal DataFrame model (iloc, column get/set, boolean row mask, concat, set_index/sort_index/reset_index, values)",
                       "pyfaidx / pyBigWig / CSV parsing themselves (hence file-vs-memory equivalence) and float() parsing are outside the claim",
                       "a locus whose expanded window merely touches a chromosome end may be kept or dropped"]
    rep.absorb(harness.run_configs("checks.C16", "worker", cf))
    rep.witness_ok = rep.stats["returned"] > 0
    return harness.finish(rep)
