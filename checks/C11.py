"""C11 - FIMO p-value tables are the exact tail distribution of the discretised score.

Engine A on the real fimo.logaddexp2 and on statement ranges cut from the real fimo._pwm_to_mapping,
with a log-domain value algebra (SLog: a log2-number represented by its linear value p >= 0,
-inf <=> p == 0) so that the table becomes a table of exact rational probabilities, and with
numpy.empty modelled as uninitialised (arbitrary) memory.

  L   logaddexp2(x, y) == log2(2^x + 2^y) for all finite-or--inf x, y, never NaN (decorator flags modelled:
      fastmath=True => an operand of -inf yields poison)
  W1  whole function for motif width 1, symbolic integer column
  E   extents loop: every partial score lies in [smallest, largest] (symbolic matrix, arbitrary row choices)
  I1  initialisation loop: pdf_0[j] = 1/4 #{k : M[k][0] - smallest = j}
  I2  one iteration of the column loop from an ARBITRARY pdf state: new[c] = sum_k 1/4 old[c - col_k]
  I3  reverse cumulative loop: tab[j] = sum_{c >= j} pdf[c]
I1 + I2 (any number of columns, by induction) + E + I3 give: tab is the exact tail distribution.
"""
import ast
import itertools
import math
from fractions import Fraction

import numpy as np
import z3

from symtm import core, tensor as T, harness
from symtm.core import SInt, SLog, ite, s_and, s_or, s_not, s_sum
from . import common as C

PROP = "C11"
Q = Fraction(1, 4)


_exp2 = z3.Function("exp2", z3.RealSort(), z3.RealSort())


def _log_any(x):
    """a raw symbolic real met in a log-domain table (uninitialised memory) is some log-value: 2^x >= 0, possibly NaN"""
    x = core.unwrap0(x)
    v = SLog._co(x)
    if v is not None:
        return v
    if isinstance(x, core.Sym):
        p = core.lift(_exp2(core.zn(x)))
        core.cur().assume(p >= 0)
        return SLog(p, core.lift(z3.Function("isnan", z3.RealSort(), z3.BoolSort())(core.zn(x))))
    raise core.Inconclusive("value %r in a log-domain table" % (x,))


def summary_logaddexp2(a, b):
    """callee summary justified by obligation L"""
    a, b = _log_any(a), _log_any(b)
    return SLog(a.p + b.p, s_or(a.nan, b.nan))


# ------------------------------------------------------------------ replay: real numba build vs explicit enumeration

def _brute(M, l):
    """exact tail distribution of the integer score of a uniform random sequence; M: n x l integer matrix"""
    n = len(M)
    pmf = {}
    for seq in itertools.product(range(n), repeat=l):
        s_ = sum(M[seq[c]][c] for c in range(l))
        pmf[s_] = pmf.get(s_, 0) + Fraction(1, n ** l)
    return pmf


def replay(r):
    C.real_tangermeme()
    import numpy
    from tangermeme.tools import fimo as rf
    if r["kind"] == "logaddexp2":
        pairs = [(r["px"], r["py"])]
        if r["px"] == 0 or r["py"] == 0:          # poison family: any operand of -inf
            pairs += [(0.0, 0.0), (0.0, max(r["py"], 0.5)), (max(r["px"], 0.5), 0.0)]
        for px, py in pairs:
            x = math.log2(px) if px > 0 else float("-inf")
            y = math.log2(py) if py > 0 else float("-inf")
            got = rf.logaddexp2(x, y)
            want = math.log2(px + py) if px + py > 0 else float("-inf")
            bad = (got != got) or (want == float("-inf") and got != want) or (want != float("-inf") and abs(got - want) > 1e-12 * max(1.0, abs(want)))
            if bad:
                return True, "logaddexp2(%r, %r) = %r, expected %r" % (x, y, got, want)
        return False, "ok"
    if r["kind"] == "dtype":
        # real compiled kernel on single-precision PWMs vs the exact tail distribution (double-precision accuracy expected)
        rng = numpy.random.RandomState(1)
        for w in (6, 9, 12):
            for _ in range(6):
                pw = rng.dirichlet(numpy.ones(4) * 0.7, size=w).T
                lo = (numpy.log2(pw + 0.001) - numpy.log2(0.25))
                for dt in (numpy.float32, numpy.float64):
                    lp = numpy.ascontiguousarray(lo.astype(dt))
                    smallest, tab = rf._pwm_to_mapping(lp, 0.1)
                    Mi = numpy.round(lp / 0.1).astype(int)
                    pmf = {0: Fraction(1)}
                    for c in range(w):
                        new = {}
                        for s_, p_ in pmf.items():
                            for k in range(4):
                                new[s_ + int(Mi[k, c])] = new.get(s_ + int(Mi[k, c]), 0) + p_ / 4
                        pmf = new
                    for j in range(len(tab)):
                        want = float(sum(p_ for s_, p_ in pmf.items() if s_ >= smallest + j))
                        got = 2.0 ** tab[j]
                        if got > 1.0 + 1e-12 or abs(got - want) > 1e-10 * max(want, 1e-30) + 1e-300:
                            return True, "width %d, %s PWM: table[%d] = %.17g, exact tail probability %.17g (relative error %.2g)" % (w, numpy.dtype(dt).name, j, got, want, abs(got - want) / max(want, 1e-300))
        return False, "ok"
    widths = r.get("widths") or [1, 2, 3]
    rng = numpy.random.RandomState(0)
    mats = []
    for w in widths:
        if r.get("column") is not None and w >= 1:
            cols = [list(r["column"])] + [[int(v) for v in rng.randint(-2, 3, size=4)] for _ in range(w - 1)]
            mats.append([[cols[c][k] for c in range(w)] for k in range(4)])
        for _ in range(4):
            mats.append([[int(v) for v in rng.randint(-3, 4, size=w)] for _ in range(4)])
        mats.append([[0] * w for _ in range(4)])
        if w >= 2:
            mats.append([[(-2 if k == 0 else 1)] + [1 + (k % 2)] * (w - 1) for k in range(4)])     # trailing columns all positive
        mats.append([[3 if k == 0 else -3 for _ in range(w)] for k in range(4)])
    bs = 0.5
    for M in mats:
        l = len(M[0])
        log_pwm = numpy.array(M, dtype=numpy.float64) * bs
        for rep in range(2):
            smallest, tab = rf._pwm_to_mapping(log_pwm, bs)
            pmf = _brute(M, l)
            lo, hi = min(pmf), max(pmf)
            if smallest > lo:
                return True, "smallest = %d above the lowest attainable score %d for integer matrix %s" % (smallest, lo, M)
            for j in range(len(tab)):
                want = float(sum(p for s_, p in pmf.items() if s_ >= smallest + j))
                got = 2.0 ** tab[j]
                if tab[j] != tab[j]:
                    return True, "table entry %d is NaN for integer matrix %s" % (j, M)
                if abs(got - want) > 1e-9:
                    return True, "width %d, matrix %s: table[%d] = %.6g but P(score >= %d) = %.6g" % (l, M, j, got, smallest + j, want)
    return False, "ok"


# ------------------------------------------------------------------ symbolic harness

def _asg(name):
    return lambda st, text: isinstance(st, ast.Assign) and any(
        (isinstance(t, ast.Name) and t.id == name) or (isinstance(t, ast.Tuple) and any(isinstance(e, ast.Name) and e.id == name for e in t.elts)) for t in st.targets)


def _for(first_line):
    return lambda st, text: isinstance(st, ast.For) and text.split("\n")[0].strip() == first_line


def _slog_array(ctx, name, K, lo=None, hi=None):
    ps = []
    a = np.empty((K,), dtype=object)
    for j in range(K):
        p = core.Real("%s%d" % (name, j))
        ctx.assume(p >= 0)
        if lo is not None:
            ctx.assume(s_or(s_and(lo <= j, hi >= j), p == 0))
        ps.append(p)
        a[j] = SLog(p)
    return T.NDArray(a, dtype="float64"), ps


def _p(v):
    v = SLog._co(v)
    return v.p


def worker(cfg):
    if cfg["kind"] == "fimo_history":
        # the p-value column of fimo() in a call history (same motifs scanned earlier with another eps): the tables of one call
        # must not be served to another.  Delegated to the fimo() harness of C12 (glue, views="history").
        from . import C12
        pw1 = [[0.7, 0.1], [0.1, 0.1], [0.1, 0.7], [0.1, 0.1]]
        return C12.worker(dict(kind="glue", B=1, L=3, pwms=[pw1], threshold=0.3, views="history"))
    ld, shims = C.fresh_env()
    fimo = ld.load("tools.fimo")
    stats = core.Stats()
    out = {"violations": [], "samples": [], "functions": []}
    kind = cfg["kind"]
    n = 4

    def add(key, what, r):
        out["violations"].append(C.violation(key, what, r, replay))

    if kind == "logaddexp2":
        opts = getattr(fimo.logaddexp2, "__numba_opts__", {})

        def body(ctx):
            px, py = core.Real("px"), core.Real("py")
            ctx.assume(s_and(px >= 0, py >= 0))
            r = fimo.logaddexp2(SLog(px), SLog(py))
            r2 = SLog._co(r)
            if r2 is None:
                add("logaddexp2:wrong", "logaddexp2 returned %r" % (r,), dict(cfg, px=0.0, py=0.0))
                return "returned"
            m = ctx.prove(s_and(r2.p == px + py, s_not(r2.nan)), "logaddexp2 == log2(2^x + 2^y), not NaN")
            if m is not None:
                vx, vy = core.model_value(m, px), core.model_value(m, py)
                key = "logaddexp2:fastmath-minus-inf" if (opts.get("fastmath") and (vx == 0 or vy == 0)) else "logaddexp2:wrong"
                add(key, "logaddexp2 is not log2(2^x + 2^y) (decorator options %s)" % opts, dict(cfg, px=float(vx), py=float(vy)))
            if not out["samples"]:
                out["samples"].append({"cfg": cfg, "decorator": {k: str(v) for k, v in opts.items()}})
            return "returned"
        core.explore(body, stats=stats)
        out["functions"].append(ld.func_info("tools.fimo", "logaddexp2"))
        out["stats"] = stats.as_dict()
        return out

    G = {"logaddexp2": summary_logaddexp2}
    R = cfg.get("R", 1)

    def sym_matrix(ctx, l):
        M = np.empty((n, l), dtype=object)
        for c in np.ndindex(n, l):
            v = core.Int("m_%d_%d" % c)
            ctx.assume(s_and(v >= -R, v <= R))
            M[c] = v
        return M

    if kind == "dtype":
        # the table of a PWM handed over in single precision (torch's default dtype): the distribution must still be accumulated in
        # double precision.  The whole real function runs on a concrete matrix; every lossy store into a float32/16 array is recorded.
        M, bs = cfg["M"], Fraction(cfg["bin"])
        l = len(M[0])
        fimo.logaddexp2 = summary_logaddexp2

        def body(ctx):
            T.NARROW_TRACK[0] = []
            try:
                smallest, tab = fimo._pwm_to_mapping(T.NDArray(np.array([[Fraction(v) * bs for v in row] for row in M], dtype=object), dtype=cfg["dtype"]), bs)
                events = list(T.NARROW_TRACK[0])
            finally:
                T.NARROW_TRACK[0] = None
            pmf = _brute(M, l)
            ctx.stats.obligations += 2
            ok_tab = smallest <= min(pmf) and all(_log_any(tab.a[j]).p == sum(p_ for s_, p_ in pmf.items() if s_ >= smallest + j) for j in range(tab.shape[0]))
            if not ok_tab:
                add("pwm_to_mapping:wrong-table", "the table of a concrete integer matrix is not its tail distribution", dict(cfg, widths=[l]))
            else:
                ctx.stats.discharged += 1
            if events or str(tab.dtype) != "float64":
                add("pwm_to_mapping:single-precision-accumulation", "with a %s PWM the score distribution is stored in reduced precision (%d lossy stores, e.g. %s; result dtype %s)" % (
                    cfg["dtype"], len(events), events[:1], tab.dtype), dict(cfg, kind="dtype"))
            else:
                ctx.stats.discharged += 1
            if not out["samples"]:
                out["samples"].append({"cfg": cfg, "table_len": int(tab.shape[0])})
            return "returned"
        core.explore(body, stats=stats)

    elif kind == "whole_l1":
        blk, info = ld.slice_function("tools.fimo", "_pwm_to_mapping", _asg("smallest"), lambda st, text: isinstance(st, ast.Return),
                                      ["int_log_pwm", "n", "l", "log_bg"], None, extra_globals=G)
        out["functions"].append(info)

        def body(ctx):
            M = sym_matrix(ctx, 1)
            smallest, tab = blk(T.NDArray(M, dtype="int32"), n, 1, SLog(Q))
            col = [M[k, 0] for k in range(n)]
            cl = [smallest == core.s_min(*col)]
            for j in range(tab.shape[0]):
                want = s_sum([ite(col[k] - smallest >= j, Q, 0) for k in range(n)])
                v = _log_any(tab.a[j])
                cl.append(s_and(v.p == want, s_not(v.nan)))
            m = ctx.prove(s_and(*cl), "width-1 table is the tail distribution")
            if m is not None:
                add("pwm_to_mapping:width-1-table", "for a motif of width 1 the returned table is not the tail distribution",
                    dict(cfg, widths=[1], column=[core.model_value(m, v) for v in col]))
            if not out["samples"]:
                out["samples"].append({"cfg": cfg, "table_len_on_path": int(tab.shape[0])})
            return "returned"
        core.explore(body, stats=stats, max_paths=5000)

    elif kind == "E":
        l = cfg["l"]
        blk, info = ld.slice_function("tools.fimo", "_pwm_to_mapping", _asg("smallest"), lambda st, text: isinstance(st, ast.AugAssign) and "largest" in text,
                                      ["int_log_pwm", "n", "l"], ["smallest", "largest"], extra_globals=G)
        out["functions"].append(info)

        def body(ctx):
            M = sym_matrix(ctx, l)
            smallest, largest = blk(T.NDArray(M, dtype="int32"), n, l)
            rows = [core.Int("r%d" % c) for c in range(l)]
            for v in rows:
                ctx.assume(s_and(v >= 0, v < n))
            cl = []
            S = 0
            for c in range(l):
                pick = M[n - 1, c]
                for k in range(n - 2, -1, -1):
                    pick = ite(rows[c] == k, M[k, c], pick)
                S = S + pick
                cl.append(s_and(S >= smallest, S <= largest))         # every index j + M[k,i] stays inside [0, largest-smallest]
            m = ctx.prove(s_and(*cl), "partial scores inside the table extents")
            if m is not None:
                add("pwm_to_mapping:extents", "a partial score falls outside [smallest, largest]: the table is indexed out of range",
                    dict(cfg, widths=[l]))
            return "returned"
        core.explore(body, stats=stats)

    elif kind == "I1":
        K = cfg["K"]
        blk, info = ld.slice_function("tools.fimo", "_pwm_to_mapping", _asg("logpdf"), lambda st, text: isinstance(st, ast.For) and "old_logpdf[idx] = logaddexp2(" in text and "enumerate" not in text,
                                      ["int_log_pwm", "n", "largest", "smallest", "log_bg"], ["old_logpdf"], extra_globals=G)
        out["functions"].append(info)

        def body(ctx):
            M = sym_matrix(ctx, 1)
            smallest = core.Int("smallest")
            for k in range(n):
                ctx.assume(s_and(M[k, 0] - smallest >= 0, M[k, 0] - smallest < K))
            (old,) = blk(T.NDArray(M, dtype="int32"), n, smallest + K - 1, smallest, SLog(Q))
            cl = [old.shape[0] == K]
            for j in range(min(K, old.shape[0])):
                want = s_sum([ite(M[k, 0] - smallest == j, Q, 0) for k in range(n)])
                v = SLog._co(old.a[j])
                cl.append(False if v is None else s_and(v.p == want, s_not(v.nan)))
            m = ctx.prove(s_and(*cl), "initial pdf")
            if m is not None:
                add("pwm_to_mapping:init", "the initialisation loop does not produce the distribution of the first column", dict(cfg, widths=[1, 2]))
            return "returned"
        core.explore(body, stats=stats)

    elif kind == "I2":
        K = cfg["K"]
        outer = lambda nd, text: isinstance(nd, ast.For) and "enumerate(old_logpdf)" in text and "old_logpdf[j] = logpdf[j]" in text and not text.lstrip().startswith("for j")
        blk, info = ld.slice_function("tools.fimo", "_pwm_to_mapping", lambda st, text: True, lambda st, text: isinstance(st, ast.For) and "old_logpdf[j] = logpdf[j]" in text,
                                      ["i", "n", "largest", "smallest", "logpdf", "old_logpdf", "int_log_pwm", "log_bg"], ["logpdf", "old_logpdf"], within=outer, extra_globals=G)
        out["functions"].append(info)

        def body(ctx):
            col = [core.Int("c%d" % k) for k in range(n)]
            for v in col:
                ctx.assume(s_and(v >= -R, v <= R))
            M = np.zeros((n, 2), dtype=object)
            for k in range(n):
                M[k, 1] = col[k]
            lo, hi = core.Int("lo"), core.Int("hi")
            ctx.assume(s_and(lo >= 0, lo <= hi, hi < K))
            old, oldp = _slog_array(ctx, "o", K, lo, hi)
            junk, _ = _slog_array(ctx, "junk", K)
            ctx.assume(s_and(lo + core.s_min(*col) >= 0, hi + core.s_max(*col) < K))      # from E: indices stay inside the table
            try:
                new, old2 = blk(1, n, K - 1, 0, junk, old, T.NDArray(M, dtype="int32"), SLog(Q))
            except IndexError as e:
                add("pwm_to_mapping:step-out-of-bounds", "the column loop indexes outside the table: %s" % e, dict(cfg, widths=[2, 3]))
                return "raised"

            def sel(idx):
                r_ = 0
                for kk in range(K):
                    r_ = ite(idx == kk, oldp[kk], r_)
                return r_
            cl = []
            for c in range(K):
                want = s_sum([Q * sel(c - col[k]) for k in range(n)])
                for arr in (new, old2):
                    v = SLog._co(arr.a[c])
                    cl.append(False if v is None else s_and(v.p == want, s_not(v.nan)))
            m = ctx.prove(s_and(*cl), "one column step is the convolution with the column distribution")
            if m is not None:
                add("pwm_to_mapping:column-step", "one iteration of the column loop is not the convolution of the pdf with the column's score distribution",
                    dict(cfg, widths=[2, 3], column=[core.model_value(m, v) for v in col]))
            if not out["samples"]:
                out["samples"].append({"cfg": cfg, "path": "returned"})
            return "returned"
        core.explore(body, stats=stats, max_paths=40000)

    elif kind == "RET":
        # the function returns the extent the table is indexed by (`smallest`) together with the table
        blk, info = ld.slice_function("tools.fimo", "_pwm_to_mapping", lambda st, text: isinstance(st, ast.For) and "logpdf[i + 1]" in text, lambda st, text: isinstance(st, ast.Return),
                                      ["logpdf", "smallest", "largest", "log_pwm_min_csum", "log_pwm_max_csum", "log_pwm_min", "log_pwm_max", "old_logpdf", "int_log_pwm", "n", "l"], None, extra_globals=G)
        out["functions"].append(info)

        def body(ctx):
            K = 4
            pdf, ps = _slog_array(ctx, "d", K)
            names = ["smallest", "largest", "log_pwm_min_csum", "log_pwm_max_csum", "log_pwm_min", "log_pwm_max"]
            vs = {k_: core.Int(k_) for k_ in names}
            ret = blk(pdf, vs["smallest"], vs["largest"], vs["log_pwm_min_csum"], vs["log_pwm_max_csum"], vs["log_pwm_min"], vs["log_pwm_max"], pdf, None, n, 2)
            ok = isinstance(ret, tuple) and len(ret) == 2 and ret[1] is pdf
            m = ctx.prove(s_and(ok, ret[0] == vs["smallest"]) if ok else False, "returns (smallest, table)")
            if m is not None:
                add("pwm_to_mapping:returns-wrong-offset", "_pwm_to_mapping does not return the offset (`smallest`) its table is indexed by", dict(cfg, widths=[2, 3], column=[1, 1, 2, 1]))
            return "returned"
        core.explore(body, stats=stats)

    elif kind == "I3":
        K = cfg["K"]
        blk, info = ld.slice_function("tools.fimo", "_pwm_to_mapping", lambda st, text: isinstance(st, ast.For) and "logpdf[i + 1]" in text, lambda st, text: isinstance(st, ast.For) and "logpdf[i + 1]" in text,
                                      ["logpdf"], ["logpdf"], extra_globals=G)
        out["functions"].append(info)

        # reachable-state strengthening: `largest += l` leaves at least one slack cell above the highest attainable score,
        # so the last cell of a reachable pdf is zero.  The slack is not taken on trust: it is proved here on the real extents
        # loop (for widths 1 and 2); without it the obligation is discharged for an arbitrary pdf.
        eblk, _ = ld.slice_function("tools.fimo", "_pwm_to_mapping", _asg("smallest"), lambda st, text: isinstance(st, ast.AugAssign) and "largest" in text,
                                    ["int_log_pwm", "n", "l"], ["smallest", "largest"], extra_globals=G)
        slack = {"ok": True}
        for l_ in (1, 2):
            def ebody(ctx, l_=l_):
                M = sym_matrix(ctx, l_)
                sm, lg = eblk(T.NDArray(M, dtype="int32"), n, l_)
                top = s_sum([core.s_max(*[M[k, c] for k in range(n)]) for c in range(l_)])
                if ctx.prove(top <= lg - 1, "slack cell above the highest attainable score") is not None:
                    slack["ok"] = False
                return "returned"
            core.explore(ebody, stats=stats)

        def body(ctx):
            pdf, ps = _slog_array(ctx, "d", K)
            if slack["ok"]:
                ctx.assume(ps[K - 1] == 0)
            (tab,) = blk(pdf)
            cl = []
            for j in range(K):
                v = SLog._co(tab.a[j])
                cl.append(False if v is None else s_and(v.p == s_sum(ps[j:]), s_not(v.nan)))
            m = ctx.prove(s_and(*cl), "reverse cumulative sum")
            if m is not None:
                add("pwm_to_mapping:tail-sum", "the reverse cumulative loop does not produce tab[j] = sum_{c >= j} pdf[c]", dict(cfg, widths=[1, 2, 3]))
            return "returned"
        core.explore(body, stats=stats)
    out["stats"] = stats.as_dict()
    return out


def configs(tier):
    q = tier == "quick"
    cf = [dict(kind="logaddexp2"), dict(kind="whole_l1", R=2 if q else 3), dict(kind="RET"), dict(kind="fimo_history")]
    cf.append(dict(kind="dtype", dtype="float32", bin="1/2", M=[[1, -2], [0, 1], [-1, 0], [2, 2]]))
    cf.append(dict(kind="dtype", dtype="float64", bin="1/2", M=[[1, -2, 0], [0, 1, 1], [-1, 0, -3], [2, 2, 1]]))
    for l in ((1, 2, 3) if q else (1, 2, 3, 4)):
        cf.append(dict(kind="E", l=l, R=3))
    for K in ((3, 5) if q else (3, 5, 7)):
        cf.append(dict(kind="I1", K=K, R=3))
        cf.append(dict(kind="I3", K=K + 3))
    for (R, K) in ([(1, 4), (1, 6)] if q else [(1, 4), (1, 6), (2, 7), (2, 8)]):
        cf.append(dict(kind="I2", R=R, K=K))
    return cf


def main(tier, seed):
    rep = harness.Report(PROP, tier, seed)
    ld, _ = C.fresh_env()
    rep.functions = [ld.func_info("tools.fimo", "_pwm_to_mapping")]
    cf = configs(tier)
    res = harness.run_configs("checks.C11", "worker", cf)
    for r in res:
        for f in r.get("functions", []):
            if f not in rep.functions:
                rep.functions.append(f)
    rep.absorb(res)
    rep.bounds = {"rows": 4, "matrix_entries": "integers in [-R, R], R <= 3", "I2": "arbitrary pdf state over K cells (K in %s) with arbitrary support window; number of columns unbounded by induction" % sorted({c["K"] for c in cf if c["kind"] == "I2"}),
                  "E": "widths %s" % sorted({c["l"] for c in cf if c["kind"] == "E"}), "whole function": "width 1"}
    rep.assumptions = ["log-domain algebra: a log2-number is represented by its linear value (exact rationals); rounding of the log-space accumulation and numpy.round ties are outside the claim",
                       "the integer matrix round(log_pwm / bin_size) is symbolic (a superset of what PWMs realise); bin_size and eps enter only through it",
                       "callee summary logaddexp2(a, b) = log2(2^a + 2^b) inside the loop obligations, justified by obligation L on the real logaddexp2",
                       "fastmath=True on a kernel = LLVM ninf/nnan: an operand of -inf gives an arbitrary result (poison) - confirmed by replay on the compiled function",
                       "the composition I1 + I2* + E + I3 => tail distribution is a pen-and-paper induction (stated, not machine-checked)"]
    rep.witness_ok = rep.stats["returned"] > 0
    rep.run_validation(lambda: 0 if replay({"kind": "table", "widths": [2]})[0] is None else 1)
    return harness.finish(rep)
