"""C02 - shuffles preserve composition (mono- or di-nucleotide), flanks and determinism.

Engine A on the real ersatz.shuffle / dinucleotide_shuffle / _dinucleotide_shuffle / _fast_shuffle.
Every internal random draw is an *arbitrary* permutation (symbolic, Distinct + range) named by
(seed term, call index): one solver query covers every outcome of the walk's random choices.
For shuffle() the sequence characters are symbolic too; for the dinucleotide walk the sequence is
concrete (array shapes depend on it) and all sequences up to alphabet renaming are enumerated.
"""
import itertools

import numpy as np
import z3

from symtm import core, tensor as T, harness, env
from symtm.core import SInt, ite, s_and, s_or, s_not, s_sum
from . import common as C

PROP = "C02"


def canonical_sequences(L, A):
    """restricted-growth strings: every sequence up to renaming of the alphabet"""
    out = []

    def rec(prefix, used):
        if len(prefix) == L:
            out.append(list(prefix))
            return
        for c in range(min(used + 1, A)):
            rec(prefix + [c], max(used, c + 1))
    rec([], 0)
    return out


def pair_counts(chars, A):
    return {(a, b): sum(1 for j in range(len(chars) - 1) if chars[j] == a and chars[j + 1] == b) for a in range(A) for b in range(A)}


# ------------------------------------------------------------------ replay

def replay(r):
    C.real_tangermeme()
    import torch
    from tangermeme import ersatz
    A, x = r["A"], r["x"]
    B, L = len(x), len(x[0])
    X = C.real_onehot(x, A)
    X0 = X.clone()
    start, end, n = r["start"], r["end"], r["n"]
    e_eff = end if end >= 0 else (L + 1 + end if r["fn"] == "shuffle" else L + end)
    fn = ersatz.shuffle if r["fn"] == "shuffle" else ersatz.dinucleotide_shuffle
    for seed in ([r["seed"], -1, -7] if r.get("seed") is not None else range(40)):
        if r.get("seed_kind") == "numpy":
            import numpy
            seed = numpy.int64(seed)
        try:
            Y = fn(X, start=start, end=end, n=n, random_state=seed)
            Y2 = fn(X, start=start, end=end, n=n, random_state=seed)
        except Exception as e:
            continue
        if not torch.equal(X, X0):
            return True, "input modified"
        if not torch.equal(Y, Y2):
            return True, "two calls with seed %d differ" % seed
        if r.get("seed") is not None and r["fn"] == "dinucleotide":
            # numba's generator is process-global: an unseeded call continues wherever earlier draws left it
            fn(X, start=start, end=end, n=n + 1, random_state=int(seed) + 1000)
            Y3 = fn(X, start=start, end=end, n=n, random_state=seed)
            if not torch.equal(Y, Y3):
                return True, "seed %d: the result changes after an unrelated call (the generator is not seeded with random_state)" % seed
        if tuple(Y.shape) != (B, n, A, L):
            return True, "output shape %s" % (tuple(Y.shape),)
        got = C.real_chars(Y)
        for b in range(B):
            for k in range(n):
                row = got[b][k]
                if any(c < 0 for c in row):
                    return True, "seed %d: output %s is not a valid one-hot encoding" % (seed, row)
                if row[:start] != x[b][:start] or row[e_eff:] != x[b][e_eff:]:
                    return True, "seed %d: positions outside [start, end) changed: %s -> %s" % (seed, x[b], row)
                reg_in, reg_out = x[b][start:e_eff], row[start:e_eff]
                if sorted(reg_in) != sorted(reg_out):
                    return True, "seed %d: character counts changed: %s -> %s" % (seed, reg_in, reg_out)
                if r["fn"] == "dinucleotide":
                    if pair_counts(reg_in, A) != pair_counts(reg_out, A):
                        return True, "seed %d: dinucleotide counts changed: %s -> %s" % (seed, reg_in, reg_out)
        if r["fn"] == "dinucleotide" and B > 1 and r.get("check_seed_routing"):
            for b in range(B):
                Yb = fn(X[b:b + 1], start=start, end=end, n=n, random_state=seed + b)
                if not torch.equal(Yb[0], Y[b]):
                    return True, "example %d is not shuffled with seed random_state+%d" % (b, b)
    return False, "ok"


# ------------------------------------------------------------------ symbolic harness

def worker(cfg):
    ld, shims = C.fresh_env()
    ers = ld.load("ersatz")
    stats = core.Stats()
    out = {"violations": [], "samples": []}
    fn, A, n = cfg["fn"], cfg["A"], cfg["n"]

    def add(key, what, r):
        out["violations"].append(C.violation(key, what, r, replay))

    def body(ctx):
        if cfg.get("rotations"):
            ctx.state["rng_rotations"] = True         # long region: each permutation draw is the identity or a rotation by one (solver-chosen)
        seed = core.SNpInt(z3.Int("seed")) if cfg.get("seed_kind") == "numpy" else core.Int("seed")
        # RandomState (shuffle) only accepts 0 <= seed < 2**32; the dinucleotide kernel seeds numba's generator, which takes any integer
        ctx.assume(seed >= (cfg.get("min_seed", 0) if fn != "shuffle" else 0))
        if fn == "shuffle":
            B, L = cfg["B"], cfg["L"]
            xc = C.sym_chars(ctx, "x", (B, L), A)
            X = C.onehot_from_chars(xc, A)
            start, end = core.Int("start"), core.Int("end")
            if cfg.get("default_end"):
                start, end = 0, -1
                se = (0, L)
            elif cfg.get("neg_end"):
                # documented convention of shuffle(): a negative end counts from the end, -1 = whole sequence
                ctx.assume(s_and(start >= 0, end < 0, end >= -L - 1, start < L + 1 + end))
                se = None
            else:
                ctx.assume(s_and(start >= 0, start < end, end <= L))
                se = None
            if se is None:
                # the solver enumerates every admissible region; the expected region follows the documented convention
                sv, ev = int(start), int(end)
                start, end = sv, ev
                se = (sv, ev if ev >= 0 else L + 1 + ev)
            xs = lambda m: C.eval_chars(m, xc)
        else:
            x = cfg["x"]
            B, L = len(x), len(x[0])
            xc = np.array(x, dtype=object)
            X = C.onehot_from_chars(xc, A)
            start, end = cfg["start"], cfg["end"]
            se = (start, end if end >= 0 else L + end)
            xs = lambda m: x
        snap = X.a.copy()

        def rp(m, **kw):
            d = dict(cfg, x=xs(m), start=core.model_value(m, start), end=core.model_value(m, end))
            if m is not None and cfg.get("min_seed", 0) < 0:
                d["seed"] = core.model_value(m, seed)
            d.update(kw)
            return d
        try:
            if fn == "shuffle":
                Y = ers.shuffle(X, start=start, end=end, n=n, random_state=seed)
            else:
                Y = ers.dinucleotide_shuffle(X, start=start, end=end, n=n, random_state=seed)
        except Exception as e:
            if isinstance(e, core.Inconclusive):
                raise
            if fn == "dinucleotide" and "identical" in str(e):
                return "raised"                      # documented: all shuffles identical
            m = ctx.model() if ctx.check() == z3.sat else None
            add("%s:raises" % fn, "%s raised %s: %s" % (fn, type(e).__name__, e), rp(m))
            return "raised"
        if se is None:
            mdl = ctx.model() if ctx.check() == z3.sat else None
            se = (core.model_value(mdl, start), core.model_value(mdl, end))
            if ctx.prove(s_and(start == se[0], end == se[1]), "region concretised") is not None:
                raise core.Inconclusive("region not determined")
            if se[1] < 0:
                se = (se[0], L + 1 + se[1])
        s0, e0 = se
        cl = [tuple(Y.shape) == (B, n, A, L)]
        if tuple(Y.shape) != (B, n, A, L):
            m = ctx.model() if ctx.check() == z3.sat else None
            add("%s:shape" % fn, "output shape %s" % (tuple(Y.shape),), rp(m))
            return "returned"
        flank, onehot, mono, pairs, ends = [], [], [], [], []
        for b in range(B):
            for k in range(n):
                for j in range(L):
                    col = [Y.a[b, k, c, j] for c in range(A)]
                    onehot.append(s_sum(col) == 1)
                    onehot.extend(s_or(v == 0, v == 1) for v in col)
                    if not (s0 <= j < e0):
                        flank.extend(col[c] == X.a[b, c, j] for c in range(A))
                for c in range(A):
                    mono.append(s_sum([Y.a[b, k, c, j] for j in range(s0, e0)]) == s_sum([X.a[b, c, j] for j in range(s0, e0)]))
                if fn == "dinucleotide":
                    for a_ in range(A):
                        for b_ in range(A):
                            got = s_sum([ite(s_and(Y.a[b, k, a_, j] == 1, Y.a[b, k, b_, j + 1] == 1), 1, 0) for j in range(s0, e0 - 1)])
                            want = sum(1 for j in range(s0, e0 - 1) if xc[b][j] == a_ and xc[b][j + 1] == b_)
                            pairs.append(got == want)
                    if e0 - s0 >= 1:
                        ends.extend(Y.a[b, k, c, s0] == X.a[b, c, s0] for c in range(A))
                        ends.extend(Y.a[b, k, c, e0 - 1] == X.a[b, c, e0 - 1] for c in range(A))
        for name, group, key, what in (("one-hot", onehot, "not-one-hot", "an output column is not one-hot"),
                                       ("flanks", flank, "flank-changed", "a position outside [start, end) differs from the input"),
                                       ("mononucleotide counts", mono, "composition-changed", "character counts inside the region changed"),
                                       ("dinucleotide counts", pairs, "dinucleotide-counts-changed", "ordered-pair counts changed (walk stranded or wrong successor)"),
                                       ("end points", ends, "endpoints-changed", "first/last character of the region changed")):
            if not group:
                continue
            m = ctx.prove(s_and(*group), name)
            if m is not None:
                add("%s:%s" % (fn, key), "%s: %s" % (fn, what), rp(m))
                return "returned"
        if not C.same_objects(X.a, snap):
            m = ctx.prove(s_and(*[X.a.flat[i] == snap.flat[i] for i in range(snap.size)]), "input unchanged")
            if m is not None:
                add("%s:modifies-input" % fn, "input modified", rp(m))
        # determinism = seed routing: every draw comes from a stream seeded by a function of (seed, example index) only
        draws = [e for e in ctx.log if e[0] == "rng"]
        seeds = [e for e in ctx.log if e[0] == "rng_seed"]
        det = []
        for d in draws:
            det.append(d[2] is not None)
        if fn == "shuffle":
            det.extend((d[2] is seed) or (isinstance(d[2], core.Sym) and d[2].z.eq(seed.z)) for d in draws)
            det.append(len(draws) == n)
        else:
            det.append(len(seeds) == B)
            for i, sd in enumerate(seeds[:B]):
                det.append(sd[1] == seed + i)
        ctx.stats.obligations += 1
        okdet = all((bool(ctx.prove(v, "seed routing") is None) if isinstance(v, core.Sym) else bool(v)) for v in det)
        if okdet:
            ctx.stats.discharged += 1
        else:
            m = ctx.model() if ctx.check() == z3.sat else None
            add("%s:seed-routing" % fn, "a random draw does not come from the stream seeded with random_state (+ example index)", rp(m, check_seed_routing=True))
        if not out["samples"]:
            out["samples"].append({"cfg": cfg, "rng_draws": len(draws), "region": [s0, e0]})
        return "returned"

    core.explore(body, stats=stats, max_paths=20000, reset=ld.restore)
    out["stats"] = stats.as_dict()
    return out


def configs(tier):
    cf = []
    q = tier == "quick"
    for A, B, L, n in ([(2, 1, 4, 1), (3, 2, 3, 2), (4, 1, 4, 1)] if q else [(2, 1, 4, 1), (3, 2, 3, 2), (4, 1, 4, 2), (2, 2, 5, 1), (4, 1, 5, 1)]):
        cf.append(dict(fn="shuffle", A=A, B=B, L=L, n=n))
    cf.append(dict(fn="shuffle", A=2, B=1, L=3, n=2, default_end=True))
    cf.append(dict(fn="shuffle", A=2, B=1, L=4, n=1, neg_end=True))
    cf.append(dict(fn="shuffle", A=3, B=1, L=3, n=1, seed_kind="numpy"))
    cf.append(dict(fn="dinucleotide", A=2, x=[[0, 1, 0, 0, 1, 1]], start=0, end=6, n=1, seed_kind="numpy"))
    cf.append(dict(fn="dinucleotide", A=2, x=[[0, 1, 0, 0, 1, 1], [1, 1, 0, 1, 0, 0]], start=0, end=6, n=1, min_seed=-(2 ** 31)))      # any integer seed, also negative ones

    # dinucleotide: every sequence up to renaming
    for A, L in ([(2, 4), (3, 5), (2, 6), (4, 5), (3, 6), (2, 7)] if q else [(2, 4), (3, 5), (2, 6), (4, 5), (3, 6), (3, 7), (4, 6), (4, 7), (2, 8), (3, 8)]):
        for x in canonical_sequences(L, A):
            if len(set(x)) < 2 and L > 4:
                continue
            cf.append(dict(fn="dinucleotide", A=A, x=[x], start=0, end=L, n=1))
    # the renaming symmetry is a property of the code, not a given: sequences that skip lower-numbered characters
    # (renamed upwards, and with the character order reversed)
    for A, L in ([(4, 5), (3, 5)] if q else [(4, 5), (3, 5), (4, 6), (3, 6)]):
        for x in canonical_sequences(L, A):
            k = len(set(x))
            if k < 2 or k >= A:
                continue
            cf.append(dict(fn="dinucleotide", A=A, x=[[c + (A - k) for c in x]], start=0, end=L, n=1))
            cf.append(dict(fn="dinucleotide", A=A, x=[[A - 1 - c for c in x]], start=0, end=L, n=1))
    for x, s, e in [([0, 1, 0, 1, 1, 0], 1, 5), ([0, 1, 2, 0, 1, 2], 0, -1), ([1, 0, 0, 1, 0, 1], 2, 6), ([0, 0, 1, 1, 0, 1], 0, 4)]:
        cf.append(dict(fn="dinucleotide", A=3, x=[x], start=s, end=e, n=1))
    cf.append(dict(fn="dinucleotide", A=2, x=[[0, 1, 0, 0, 1], [1, 1, 0, 1, 0]], start=0, end=5, n=1))
    cf.append(dict(fn="dinucleotide", A=3, x=[[0, 1, 2, 0, 1]], start=0, end=5, n=2))
    # a region longer than 128 / 256 positions: position bookkeeping in fixed-width integer arrays must not wrap
    # (all permutation outcomes are out of reach at this length: each draw is the identity or a rotation by one, chosen by the solver)
    long_x = [(i * i + i // 3) % 3 for i in range(140 if q else 270)]
    cf.append(dict(fn="dinucleotide", A=3, x=[long_x], start=0, end=len(long_x), n=1, rotations=True))
    # a skewed region: one character with more than 128 (thorough: 256) outgoing transitions, so per-character counters must not wrap either
    skew_x = [0] * (131 if q else 262) + [1, 0, 2, 0, 0, 1, 2, 2, 1, 0, 0, 2, 0]
    cf.append(dict(fn="dinucleotide", A=3, x=[skew_x], start=0, end=len(skew_x), n=1, rotations=True))
    return cf


def main(tier, seed):
    rep = harness.Report(PROP, tier, seed)
    ld, _ = C.fresh_env()
    rep.functions = [ld.func_info("ersatz", f) for f in ("shuffle", "dinucleotide_shuffle", "_dinucleotide_shuffle", "_fast_shuffle")]
    cf = configs(tier)
    rep.bounds = {"shuffle": "symbolic characters and region, %s" % sorted({(c["A"], c["B"], c["L"], c["n"]) for c in cf if c["fn"] == "shuffle"}),
                  "dinucleotide": "every sequence up to alphabet renaming for (A, L) in %s, plus upward / reversed renamings of the sequences that do not use every character for L = 5 (6); all permutation outcomes of the walk symbolic" % sorted({(c["A"], len(c["x"][0])) for c in cf if c["fn"] == "dinucleotide"}),
                  "sequences": sum(1 for c in cf if c["fn"] == "dinucleotide"),
                  "long region": "one sequence of %d positions (A=3) with each permutation draw restricted to identity / rotation by one: position bookkeeping in fixed-width integer arrays" % max(len(c["x"][0]) for c in cf if c.get("rotations"))}
    rep.assumptions = ["RNG model: RandomState.shuffle / numpy.random.permutation return an arbitrary permutation, a function of (seed, call index) only; bit-level streams outside the claim",
                       "numba semantics: numpy.random.permutation(-1) is empty; _fast_shuffle interpreted from its Python source",
                       "determinism is checked as seed routing (which seed reaches which draw), not as literal outputs",
                       "dinucleotide_shuffle raising 'all shuffles identical' is accepted (the statement is about returned results)"]
    rep.absorb(harness.run_configs("checks.C02", "worker", cf))
    rep.witness_ok = rep.stats["returned"] > 0
    return harness.finish(rep)
