"""./check entry point"""
import argparse
import importlib
import json
import os
import sys
import traceback


def main():
    ap = argparse.ArgumentParser()
    ap.add_argument("prop")
    ap.add_argument("--tier", default=os.environ.get("VERIF_TIER", "quick"), choices=["quick", "thorough"])
    ap.add_argument("--replay", default=None)
    a = ap.parse_args()
    seed = int(os.environ.get("VERIF_SEED", "0") or 0)
    try:
        mod = importlib.import_module("checks." + a.prop)
    except ModuleNotFoundError:
        print("HARNESS-ERROR no check for %s" % a.prop)
        return 3
    try:
        if a.replay:
            v = json.load(open(a.replay))
            ok, detail = mod.replay(v["replay"])
            print(("VIOLATION property=%s replay=%s  reproduced: %s" % (a.prop, a.replay, detail)) if ok else ("not reproduced: %s" % (detail,)))
            return 1 if ok else 0
        return mod.main(a.tier, seed)
    except Exception:
        traceback.print_exc()
        print("HARNESS-ERROR property=%s uncaught exception in the harness" % a.prop)
        return 3


if __name__ == "__main__":
    sys.exit(main())
