"""C04 - DeepLIFT/SHAP attributions sum to the prediction difference from reference.

Decided compositionally, every link being a solver obligation generated from the real code:
  R  rule lemmas: the real _nonlinear / _maxpool hook functions run on ARBITRARY captured input / output / gradient
     tensors (element-wise activation = uninterpreted function): per element (per pooling window)
     new_grad * delta_in == grad_out * delta_out, ordinary gradient where the inputs coincide.  These lemmas make the
     completeness identity hold layer by layer for networks of any depth (pen-and-paper chain rule).
  E  end-to-end runs of the real deep_lift_shap on depth-1 networks from the grammar (linear / conv / avg-pool / max-pool,
     activation = UF): per example-reference pair sum((x - ref) * multipliers) == F(x)[t] - F(ref)[t]; the returned
     attributions sum to F(x)[t] - mean_j F(ref_j)[t]; the convergence-warning condition is unsatisfiable.
"""
import itertools
from fractions import Fraction

import numpy as np
import z3

from symtm import core, tensor as T, harness, nn
from symtm.core import ite, s_and, s_or, s_not, s_sum
from . import common as C, dl

PROP = "C04"


def replay(r):
    C.real_tangermeme()
    import torch
    import warnings
    from tangermeme.deep_lift_shap import deep_lift_shap
    A, arch, target = r["A"], r["arch"], r["target"]
    L = r["L"]
    acts = [r.get("act")] if r.get("act") else [None, "ReLU", "Tanh", "GELU", "Softplus", "LeakyReLU"]
    seqs = [list(s) for s in itertools.product(range(A), repeat=L)]
    import random
    rnd = random.Random(1)
    ns = r.get("ns", 2)
    cases = []
    if r.get("x"):
        cases.append((r["x"], r["refs"]))
    for _ in range(30):
        cases.append(([rnd.choice(seqs) for _ in range(r.get("B", 1))], [[rnd.choice(seqs) for _ in range(ns)] for _ in range(r.get("B", 1))]))
    if r.get("ref_values"):
        # references that are not one-hot: all-zero columns, uniform columns, arbitrary profiles
        g_ = torch.Generator().manual_seed(2)
        cases = [(r["x"], torch.tensor([[[[float(Fraction(v)) for v in row] for row in ref] for ref in ex] for ex in r["ref_values"]], dtype=torch.float64))]
        for _ in range(10):
            Bq = r.get("B", 1)
            soft = torch.rand(Bq, ns, A, L, generator=g_, dtype=torch.float64)
            soft[:, 0] = 0.0
            if ns > 1:
                soft[:, 1] = 1.0 / A
            cases.append(([rnd.choice(seqs) for _ in range(Bq)], soft))
    for act in acts:
        model = dl.real_model(arch, A, L, seed=r.get("seed", 1), act_override=act)
        if r.get("history_ops"):
            # an earlier call (another model) that overrides the rule of a built-in activation must not change later calls
            other = dl.real_model(arch, A, L, seed=9, act_override=act)
            act_cls = [type(m_) for m_ in other if not isinstance(m_, (torch.nn.Linear, torch.nn.Conv1d, torch.nn.Flatten, torch.nn.AvgPool1d, torch.nn.MaxPool1d))][0]
            with warnings.catch_warnings():
                warnings.simplefilter("ignore")
                x0, refs0 = cases[0]
                deep_lift_shap(other, C.real_onehot(x0, A).double(), references=C.real_onehot(refs0, A).double(), target=target, device="cpu",
                               additional_nonlinear_ops={act_cls: (lambda mod, gi, go: gi)})
        for x, refs in cases:
            X = C.real_onehot(x, A).double()
            R = refs if isinstance(refs, torch.Tensor) else C.real_onehot(refs, A).double()
            if isinstance(refs, torch.Tensor):
                refs = refs.tolist()
            with warnings.catch_warnings(record=True) as wlist:
                warnings.simplefilter("always")
                try:
                    extra = {"n_shuffles": r["n_shuffles_arg"]} if r.get("n_shuffles_arg") else {}
                    mult = deep_lift_shap(model, X, references=R, target=target, device="cpu", raw_outputs=True, **extra)
                    attr = deep_lift_shap(model, X, references=R, target=target, device="cpu", **extra)
                    if tuple(mult.shape[:2]) != (len(x), len(refs[0])):
                        return True, "raw multipliers have shape %s for %d references per example" % (tuple(mult.shape), len(refs[0]))
                except Exception as e:
                    return True, "deep_lift_shap raised %s: %s" % (type(e).__name__, e)
            if any("Convergence" in str(w.message) for w in wlist):
                return True, "convergence warning emitted for arch %s act %s x=%s refs=%s" % (arch, act, x, refs)
            with torch.no_grad():
                yx = model(X)[:, target]
                for i in range(len(x)):
                    yr = model(R[i])[:, target]
                    for j in range(len(refs[i])):
                        lhs = ((X[i] - R[i, j]) * mult[i, j]).sum()
                        if abs(float(lhs - (yx[i] - yr[j]))) > 1e-7 * max(1.0, abs(float(yx[i]))):
                            return True, "arch %s act %s: sum((x-ref)*multipliers) = %.8g but F(x)-F(ref) = %.8g (x=%s ref=%s)" % (arch, act, float(lhs), float(yx[i] - yr[j]), x[i], refs[i][j])
                    if abs(float(attr[i].sum() - (yx[i] - yr.mean()))) > 1e-7 * max(1.0, abs(float(yx[i]))):
                        return True, "arch %s act %s: attributions sum to %.8g but F(x) - mean F(ref) = %.8g" % (arch, act, float(attr[i].sum()), float(yx[i] - yr.mean()))
    return False, "ok"


class FakeModule:
    pass


def worker(cfg):
    ld, shims = C.fresh_env()
    dls = ld.load("deep_lift_shap")
    dl.install_deferred_any(shims, None)
    torch_s = shims["torch"]
    NN = torch_s.nn
    stats = core.Stats()
    out = {"violations": [], "samples": [], "unknown": 0}
    kind = cfg["kind"]

    def add(key, what, r):
        out["violations"].append(C.violation(key, what, r, replay))

    if kind == "lemma_nonlinear":
        n = cfg["n"]

        def body(ctx):
            f = z3.Function("act_any", z3.RealSort(), z3.RealSort())
            ix = [core.Real("ix%d" % k) for k in range(n)]
            ir = [core.Real("ir%d" % k) for k in range(n)]
            ox = [core.lift(f(v.z)) for v in ix]
            orr = [core.lift(f(v.z)) for v in ir]
            gin = [core.Real("gin%d" % k) for k in range(2 * n)]
            gout = [core.Real("g%d" % k) for k in range(n)]          # both halves receive the same incoming gradient
            mod = FakeModule()
            mk = lambda vals: T.Tensor(np.array(vals, dtype=object).reshape(2, n), dtype="float32")
            mod.input, mod.output = mk(ix + ir), mk(ox + orr)
            (new,) = dls._nonlinear(mod, (mk(gin),), (mk(gout + gout),))
            claims = []
            for k in range(n):
                d = ix[k] - ir[k]
                big = s_or(d >= dl.SWITCH, -d >= dl.SWITCH)
                small = s_and(d < dl.SWITCH, -d < dl.SWITCH)
                for half, g_in in ((0, gin[k]), (1, gin[n + k])):
                    v = new.a[half, k]
                    claims.append(s_or(s_not(big), v * d == gout[k] * (ox[k] - orr[k])))     # rescale rule: m * delta_in == g * delta_out
                    claims.append(s_or(s_not(small), v == g_in))                             # ordinary gradient where the inputs coincide
                claims.append(s_or(s_not(big), new.a[0, k] == new.a[1, k]))                   # halves agree (invariant that lets the example half stand for the pair)
            m, unk = dl.split_prove(ctx, claims, "_nonlinear rule lemma")
            out["unknown"] += unk
            if m is not None:
                add("rule:nonlinear", "_nonlinear does not implement the rescale rule element-wise", dict(cfg, arch="dense1", A=2, L=3, target=1))
            return "returned"
        core.explore(body, stats=stats)

    elif kind == "lemma_maxpool":
        Cc, Lp, K = cfg["C"], cfg["L"], cfg["K"]

        def body(ctx):
            ix = np.array([[core.Real("ix_%d_%d" % (c, p)) for p in range(Lp)] for c in range(Cc)], dtype=object)
            ir = np.array([[core.Real("ir_%d_%d" % (c, p)) for p in range(Lp)] for c in range(Cc)], dtype=object)
            inp = T.Tensor(np.stack([ix, ir]), dtype="float32")
            mod = NN.MaxPool1d(K, stride=cfg.get("stride"), padding=cfg.get("padding", 0), ceil_mode=cfg.get("ceil_mode", False))
            S_, P_ = (cfg.get("stride") or K), cfg.get("padding", 0)
            old = T.GRAD_ENABLED[0]
            T.GRAD_ENABLED[0] = False
            outp = mod(inp)                                   # arg-max positions of both halves are decided by forking
            T.GRAD_ENABLED[0] = old
            mod.input, mod.output = inp, outp
            Lo = outp.shape[-1]
            g = np.array([[core.Real("g_%d_%d" % (c, t)) for t in range(Lo)] for c in range(Cc)], dtype=object)
            gout = T.Tensor(np.stack([g, g]), dtype="float32")
            gin = T.Tensor(np.array([[[core.Real("gin_%d_%d_%d" % (h, c, p)) for p in range(Lp)] for c in range(Cc)] for h in range(2)], dtype=object), dtype="float32")
            (new,) = dls._maxpool(mod, (gin,), (gout,))
            # band: |delta_in| is 0 or >= 1e-7 (the rule's own switch)
            sw = dl.SWITCH_POOL
            for c in range(Cc):
                for p in range(Lp):
                    d = ix[c, p] - ir[c, p]
                    ctx.assume(s_or(d == 0, d >= sw, -d >= sw))
            claims = []
            for c in range(Cc):
                if S_ >= K:
                    for t in range(Lo):
                        win = [p for p in range(t * S_ - P_, t * S_ - P_ + K) if 0 <= p < Lp]
                        lhs = s_sum([ite(ix[c, p] - ir[c, p] == 0, 0, new.a[0, c, p] * (ix[c, p] - ir[c, p])) for p in win])
                        claims.append(lhs == g[c, t] * (outp.a[0, c, t] - outp.a[1, c, t]))
                else:
                    # overlapping windows share input positions: the contributions of all windows add up per channel
                    lhs = s_sum([ite(ix[c, p] - ir[c, p] == 0, 0, new.a[0, c, p] * (ix[c, p] - ir[c, p])) for p in range(Lp)])
                    claims.append(lhs == s_sum([g[c, t] * (outp.a[0, c, t] - outp.a[1, c, t]) for t in range(Lo)]))
            for c in range(Cc):
                for p in range(Lp):
                    nz = ix[c, p] - ir[c, p] != 0
                    claims.append(s_or(s_not(nz), new.a[0, c, p] == new.a[1, c, p]))          # halves agree wherever the rule applies
                    claims.append(s_or(nz, s_and(new.a[0, c, p] == gin.a[0, c, p], new.a[1, c, p] == gin.a[1, c, p])))
            m, unk = dl.split_prove(ctx, claims, "_maxpool rule lemma")
            out["unknown"] += unk
            if m is not None:
                add("rule:maxpool", "_maxpool does not distribute grad_out * delta_out over the pooling window", dict(cfg, arch="convmaxceil" if cfg.get("ceil_mode") else "convmaxpad" if cfg.get("padding") else ("convmaxov" if S_ < K else "convmax"), A=2, L=6 if cfg.get("ceil_mode") else 4 if cfg.get("padding") else 5, target=1, B=2, ns=2))
            return "returned"
        core.explore(body, stats=stats, max_paths=5000)

    elif kind == "e2e":
        arch, A, L, B, ns, target = cfg["arch"], cfg["A"], cfg["L"], cfg["B"], cfg["ns"], cfg["target"]

        def body(ctx):
            net = dl.build(arch, A, L, seed=cfg.get("seed", 1), symbolic_weights=cfg.get("symw", False), NN=NN)
            xc, X, rc, R = dl.sym_inputs(ctx, A, L, B, ns, concrete=(cfg["x"], cfg["refs"]) if cfg.get("x") is not None else None)
            rp = lambda m: dict(cfg, x=(cfg["x"] if cfg.get("x") is not None else C.eval_chars(m, xc)), refs=(cfg["refs"] if cfg.get("x") is not None else C.eval_chars(m, rc)))
            if cfg.get("ref_values"):
                # the reference set need not be one-hot (all-zero, uniform or arbitrary profiles)
                R = T.Tensor(np.array([[[[Fraction(v) for v in row] for row in ref] for ref in ex] for ex in cfg["ref_values"]], dtype=object), dtype=dl.FLOAT[0])
            try:
                if cfg.get("history_ops"):
                    other = dl.build(arch, A, L, seed=9, NN=NN)
                    act_cls = [type(m_) for m_ in other._modules.values() if type(m_).__name__ in nn.ACT_NAMES][0]
                    dls.deep_lift_shap(other, X, references=R, target=target, device="cpu", additional_nonlinear_ops={act_cls: (lambda mod, gi, go: gi)})
                    ctx.state["deferred_any"] = []
                extra = {"n_shuffles": cfg["n_shuffles_arg"]} if cfg.get("n_shuffles_arg") else {}      # ignored for a reference tensor
                mult = dls.deep_lift_shap(net, X, references=R, target=target, batch_size=cfg.get("batch_size", 32), device="cpu", raw_outputs=True, **extra)
                deferred = list(ctx.state.get("deferred_any", []))
                attr = dls.deep_lift_shap(net, X, references=R, target=target, batch_size=cfg.get("batch_size", 32), device="cpu", **extra)
                if tuple(mult.shape) != (B, ns, A, L):
                    m = ctx.model() if ctx.check() == z3.sat else None
                    add("dls:reference-count", "raw output has shape %s for %d references per example" % (tuple(mult.shape), ns), rp(m))
                    return "returned"
            except Exception as e:
                if isinstance(e, core.Inconclusive):
                    raise
                m = ctx.model() if ctx.check() == z3.sat else None
                add("dls:raises", "deep_lift_shap raised %s: %s" % (type(e).__name__, e), rp(m))
                return "raised"
            Fx = [dl.forward_plain(net, X.a[i]) for i in range(B)]
            Fr = [[dl.forward_plain(net, R.a[i, j]) for j in range(ns)] for i in range(B)]
            # band on every hidden pre-activation of every pair
            for i in range(B):
                for j in range(ns):
                    _, _, _, band = dl.oracle(net, X.a[i], R.a[i, j], target) if arch != "convmax" else (None, None, None, _band_maxnet(net, X.a[i], R.a[i, j]))
                    for b_ in band:
                        ctx.assume(b_)
            claims = []
            for i in range(B):
                for j in range(ns):
                    lhs = s_sum([(X.a[(i,) + c] - R.a[(i, j) + c]) * mult.a[(i, j) + c] for c in np.ndindex(A, L)])
                    claims.append(lhs == Fx[i][target] - Fr[i][j][target])
                claims.append(s_sum(list(attr.a[i].flat)) == Fx[i][target] - s_sum([Fr[i][j][target] for j in range(ns)]) * Fraction(1, ns))
            m, unk = dl.split_prove(ctx, claims, "completeness")
            out["unknown"] += unk
            if m is not None:
                add("dls:completeness", "sum((x - ref) * multipliers) != F(x)[t] - F(ref)[t] (or the attributions do not sum to the averaged difference)", rp(m))
                return "returned"
            for cl_ in claims:                 # proved above on this path: usable as lemmas
                ctx.solver.add(core.zb(cl_))
            # no convergence warning: the recorded condition of `if torch.any(convergence_deltas > warning_threshold)` is unsatisfiable
            conds = [c for grp in deferred for c in grp]
            for cnd in conds:                       # one small query per recorded comparison
                ctx.stats.obligations += 1
                r_ = ctx.check(cnd)
                if r_ == z3.unsat:
                    ctx.stats.discharged += 1
                elif r_ == z3.sat:
                    add("dls:convergence-warning", "the convergence-delta warning condition is satisfiable for a supported model", rp(ctx.model()))
                    break
                else:
                    out["unknown"] += 1
            if not out["samples"]:
                out["samples"].append({"cfg": cfg, "claims": len(claims), "warning_conditions": len(conds)})
            return "returned"
        core.explore(body, stats=stats, max_paths=5000, reset=ld.restore)
    out["stats"] = stats.as_dict()
    if out["unknown"] and not out["violations"] and not cfg.get("stretch"):
        raise core.Inconclusive("%d obligations unknown (solver timeout)" % out["unknown"])
    return out


def _band_maxnet(net, x, ref):
    """band assumptions for the conv -> act -> maxpool architecture (pre-activation and pooling inputs)"""
    layers = list(net._modules.values())
    band = []
    vx = T.Tensor(np.array(x, dtype=object)[None], dtype="float32")
    vr = T.Tensor(np.array(ref, dtype=object)[None], dtype="float32")
    old = T.GRAD_ENABLED[0]
    T.GRAD_ENABLED[0] = False
    try:
        for m in layers:
            name = type(m).__name__
            if name in nn.ACT_NAMES or name == "MaxPool1d":
                sw = dl.SWITCH if name != "MaxPool1d" else dl.SWITCH_POOL
                for a, b in zip(vx.a.flat, vr.a.flat):
                    d = a - b
                    band.append(s_or(d == 0, d >= sw, -d >= sw))
            if name == "MaxPool1d":
                break
            vx, vr = m(vx), m(vr)
    finally:
        T.GRAD_ENABLED[0] = old
    return band


def configs(tier):
    q = tier == "quick"
    cf = [dict(kind="lemma_nonlinear", n=2), dict(kind="lemma_maxpool", C=1, L=4, K=2), dict(kind="lemma_maxpool", C=1, L=3, K=3, padding=1),
          dict(kind="lemma_maxpool", C=1, L=3, K=2, stride=1),           # overlapping pooling windows
          dict(kind="lemma_maxpool", C=1, L=3, K=2, ceil_mode=True),     # ceil_mode: partial last window (seed C04-r6m1)
          dict(kind="e2e", arch="dense1", A=2, L=2, B=1, ns=2, target=0, n_shuffles_arg=1),
          dict(kind="e2e", arch="dense1", A=2, L=2, B=1, ns=2, target=1), dict(kind="e2e", arch="affine", A=2, L=3, B=2, ns=2, target=0, batch_size=3),
          dict(kind="e2e", arch="conv", A=2, L=2, B=1, ns=1, target=0)]
    # every element-wise activation class registered in _NON_LINEAR_OPS, each through a minimal network: a mis-registered
    # rule (e.g. an activation routed to the max-pool rule) breaks completeness
    for a_ in ("ReLU ReLU6 RReLU SELU CELU GELU SiLU Mish ELU LeakyReLU Sigmoid Tanh Softplus Softshrink LogSigmoid PReLU").split():
        cf.append(dict(kind="e2e", arch="tiny:" + a_, A=2, L=2, B=1, ns=1, target=1, act=a_))
    import itertools as _it
    def deep(arch, A, L, every):
        seqs = [list(s_) for s_ in _it.product(range(A), repeat=L)]
        pairs = [(a, b) for a in seqs for b in seqs]
        return [dict(kind="e2e", arch=arch, A=A, L=L, B=1, ns=1, target=(k % 2), x=[a], refs=[[b]]) for k, (a, b) in enumerate(pairs) if k % every == 0]
    # depth 2-3 end to end: sequences enumerated, activations uninterpreted
    half = "1/2"
    cf += [dict(kind="e2e", arch="dense1", A=2, L=2, B=1, ns=2, target=0, x=[[0, 1]], refs=[[[0, 0], [0, 0]]], ref_values=[[[[0, 0], [0, 0]], [[half, half], [half, half]]]]),
           dict(kind="e2e", arch="conv", A=2, L=2, B=1, ns=1, target=1, x=[[1, 0]], refs=[[[0, 0]]], ref_values=[[[["1/4", 0], ["3/4", 0]]]]),
           dict(kind="e2e", arch="dense1", A=2, L=2, B=1, ns=1, target=1, history_ops=True),
           dict(kind="e2e", arch="dense2", A=2, L=2, B=1, ns=1, target=0, x=[[0, 1]], refs=[[[1, 0]]], history_ops=True)]
    cf += deep("dense2", 2, 2, 2 if q else 1)
    cf += deep("dense3", 2, 2, 5 if q else 1)
    if not q:
        cf += deep("conv2", 2, 4, 5) + deep("convmax", 2, 3, 2)
    if not q:
        cf += [dict(kind="lemma_nonlinear", n=4), dict(kind="lemma_maxpool", C=2, L=4, K=2), dict(kind="lemma_maxpool", C=1, L=6, K=3),
               dict(kind="e2e", arch="dense1", A=2, L=3, B=1, ns=1, target=1), dict(kind="e2e", arch="dense1w", A=2, L=3, B=1, ns=1, target=0),
               dict(kind="e2e", arch="conv", A=2, L=3, B=1, ns=1, target=1), dict(kind="e2e", arch="convavg", A=2, L=3, B=1, ns=1, target=1),
               dict(kind="e2e", arch="convmax", A=2, L=3, B=1, ns=1, target=1, stretch=True), dict(kind="e2e", arch="dense2", A=2, L=2, B=1, ns=1, target=1, stretch=True)]
    return cf


def main(tier, seed):
    rep = harness.Report(PROP, tier, seed)
    ld, _ = C.fresh_env()
    rep.functions = [ld.func_info("deep_lift_shap", f) for f in ("deep_lift_shap", "_nonlinear", "_maxpool", "hypothetical_attributions", "_register_hooks", "_b_hook")]
    cf = configs(tier)
    res = harness.run_configs("checks.C04", "worker", cf)
    rep.absorb(res)
    rep.bounds = {"rule_lemmas": "_nonlinear on 2..4 arbitrary elements per half (any element-wise activation); _maxpool on channels <= 2, length <= 6, kernel 2..3 (arg-max positions forked)",
                  "end_to_end": sorted({(c["arch"], c["A"], c["L"], c["B"], c["ns"]) for c in cf if c["kind"] == "e2e"}),
                  "stretch_unknown_obligations": sum(r.get("unknown", 0) for r in res)}
    rep.assumptions = ["activations are uninterpreted functions (every element-wise activation at once); |delta_in| is 0 or >= the rule's switch (1e-6 / 1e-7): inside the band the rule uses the derivative and the error is O(delta^2)",
                       "exact real arithmetic: floating-point rounding is outside the claim (the statement says 'up to tolerance')",
                       "autograd / module-hook semantics are those of the environment model; the layer-by-layer chain from the rule lemmas to arbitrary depth is a pen-and-paper argument",
                       "Softmax, GLU, MaxPool2d are outside the claim; depth > 1 end-to-end runs are stretch obligations (non-linear real arithmetic)"]
    rep.witness_ok = rep.stats["returned"] > 0
    return harness.finish(rep)
