"""C08 - perturbation wrappers evaluate exactly the input that each output index denotes.

Engine A on the real marginalize / marginalize_annotations / ablate / ablate_annotations / space /
apply_pairwise / apply_product with the real substitute / multisubstitute / shuffle / predict
underneath, an uninterpreted row-wise model (1-2 outputs, 0-1 extra args), symbolic contents,
symbolic shuffle permutations (RNG model) and symbolic batch size.
"""
import itertools

import numpy as np
import z3

from symtm import core, tensor as T, harness, env
from symtm.core import SInt, ite, s_and, s_or, s_not, s_sum
from symtm.loader import SymStr
from . import common as C
from .C03 import UFModel, expected_row
from .C01 import spec_substitute, sel

PROP = "C08"
D_OUT = 2


def _rows_claim(y, n_lead, exp_fn, kind, n_out):
    """y: tensor or list of tensors with leading index tuple; exp_fn(t, d, idx) -> expected term"""
    ys = [y] if kind == "tensor" else list(y)
    cl = [len(ys) == n_out]
    for t, yt in enumerate(ys[:n_out]):
        if not isinstance(yt, T.Tensor) or tuple(yt.shape) != tuple(n_lead) + (D_OUT,):
            cl.append(False)
            continue
        for idx in np.ndindex(*n_lead):
            for d in range(D_OUT):
                cl.append(yt.a[idx + (d,)] == exp_fn(t, d, idx))
    return s_and(*cl)


def _ann_rows(ctx, na, B, L, maxw):
    """annotation table: row 0 fully symbolic (idx, start, end), further rows concrete and distinct"""
    rows = []
    for r_ in range(na):
        if r_ == 0:
            idx, s, e = core.Int("i%d" % r_), core.Int("s%d" % r_), core.Int("e%d" % r_)
            ctx.assume(s_and(idx >= 0, idx < B, s >= 0, s < e, e <= L, e - s <= maxw))
        else:
            idx = (r_ + 1) % B
            s = (r_ - 1) % L
            e = min(L, s + 1 + (r_ % 2), s + maxw)
        rows.append([idx, s, e])
    return rows


def _ohe_row(chars, A):
    """flattened one-hot features (A x L, row-major) of a char list"""
    return [ite(ch == k, 1, 0) for k in range(A) for ch in chars]


# ------------------------------------------------------------------ replay on the real build

def _alphabet(cfg, A):
    """the alphabet of a configuration: the first A letters, or - for string motifs - a non-default ordering of them"""
    al = list(C.ALPHA[:A])
    if cfg.get("alphabet_perm"):
        al = [al[i] for i in cfg["alphabet_perm"]]
    return al


def _real_model(kind, n_out, feat, n_args):
    import torch
    g = torch.Generator().manual_seed(11)
    W1 = torch.randn(feat, D_OUT, generator=g, dtype=torch.float64)

    class M(torch.nn.Module):
        def __init__(self):
            super().__init__()
            self.p = torch.nn.Parameter(torch.zeros(1, dtype=torch.float64))

        def row(self, X, *a):
            y = torch.tanh(X.reshape(X.shape[0], -1).to(torch.float64) @ W1)
            for k, ai in enumerate(a):
                y = y + (k + 2) * torch.sin(ai.to(torch.float64).reshape(ai.shape[0], -1).sum(dim=-1, keepdim=True) + torch.arange(D_OUT))
            return y

        def forward(self, X, *a):
            y = self.row(X, *a)
            outs = [y * (t + 1) + t for t in range(n_out)]
            return outs[0] if kind == "tensor" else tuple(outs)
    return M()


def replay(r):
    C.real_tangermeme()
    import torch
    from tangermeme import marginalize as mg, ablate as ab, space as sp, product as pr, ersatz
    from tangermeme.predict import predict
    k, A, x, kind, n_out, n_args = r["kind"], r["A"], r["x"], r["out"], r["n_out"], r["n_args"]
    B, L = len(x), len(x[0])
    X = C.real_onehot(x, A).type(getattr(torch, r.get("x_dtype", "float64")))
    g = torch.Generator().manual_seed(5)
    args = [torch.randn(B, 1, generator=g, dtype=torch.float64) for _ in range(n_args)]
    m = _real_model(kind, n_out, A * L, n_args)
    bs = r.get("batch_size", 32)
    kw = dict(device="cpu", batch_size=bs)
    if n_args:
        kw["args"] = tuple(args)
    alphabet = _alphabet(r, A)
    mk_motif = (lambda mm: "".join(alphabet[c] for c in mm[0])) if r.get("motif_str") else (lambda mm: C.real_onehot(mm, A).type(torch.float64))

    def outs(y):
        return [y] if kind == "tensor" else list(y)

    def model_on(Xq, aq):
        with torch.no_grad():
            return outs(m(Xq, *aq))

    def cmp(y, lead_shape, inp_fn, what):
        ys = outs(y)
        if len(ys) != n_out:
            return "%s: %d outputs returned, model has %d" % (what, len(ys), n_out)
        for t, yt in enumerate(ys):
            if tuple(yt.shape) != tuple(lead_shape) + (D_OUT,):
                return "%s: output %d has shape %s, expected %s" % (what, t, tuple(yt.shape), tuple(lead_shape) + (D_OUT,))
            for idx in np.ndindex(*lead_shape):
                Xq, aq = inp_fn(idx)
                e = model_on(Xq, aq)[t][0]
                if not torch.allclose(yt[idx].to(torch.float64), e, atol=1e-10):
                    return "%s: output %d entry %s is not func on the input that index denotes" % (what, t, idx)
        return None

    try:
        if k == "marginalize":
            mot = mk_motif(r["motif"])
            yb, ya = mg.marginalize(m, X, mot, start=r["start"], alphabet=alphabet, **kw)
            Xs = ersatz.substitute(X, mot, start=r["start"], alphabet=alphabet)
            bad = cmp(yb, (B,), lambda i: (X[i[0]:i[0] + 1], [a[i[0]:i[0] + 1] for a in args]), "before") or \
                cmp(ya, (B,), lambda i: (Xs[i[0]:i[0] + 1], [a[i[0]:i[0] + 1] for a in args]), "after")
        elif k == "marginalize_annotations":
            x0 = r["x0"]
            X0 = C.real_onehot(x0, A).type(torch.float64)
            B0 = len(x0)
            ann = torch.tensor(r["annotations"])
            a0 = [torch.randn(B0, 1, generator=g, dtype=torch.float64) for _ in range(n_args)]
            if n_args:
                kw["args"] = tuple(a0)
            if r.get("start") is not None:
                kw["start"] = r["start"]
            yb, ya = mg.marginalize_annotations(m, X, X0, ann, alphabet=alphabet, **kw)
            na = len(r["annotations"])

            def after(i):
                idx, s, e = r["annotations"][i[0]]
                Xs = ersatz.substitute(X0, X[idx:idx + 1, :, s:e], start=r.get("start"))
                return Xs[i[1]:i[1] + 1], [a[i[1]:i[1] + 1] for a in a0]
            bad = cmp(yb, (na, B0), lambda i: (X0[i[1]:i[1] + 1], [a[i[1]:i[1] + 1] for a in a0]), "before") or cmp(ya, (na, B0), after, "after")
        elif k == "ablate":
            n, s, e, seed = r["n"], r["start"], r["end"], r.get("seed", 3)
            if r.get("history"):
                from tangermeme.predict import predict as _pred
                seen = []

                def func_rs(model_, X_, args=None, random_state=None, **kw_):
                    seen.append(random_state)
                    return _pred(model_, X_, args=args, **kw_)
                s0 = r.get("seed0", 0) if r.get("seed0", 0) != seed else seed + 1
                ab.ablate(m, X, s, e, n=n, random_state=s0, func=func_rs, **kw)
                ab.ablate(m, X, s, e, n=n, random_state=seed, func=func_rs, **kw)
                if seen != [s0, s0, seed, seed]:
                    return True, "ablate called twice with seeds %s then %s handed func the seeds %s" % (s0, seed, seen)
            yb, ya = ab.ablate(m, X, s, e, n=n, random_state=seed, **kw)
            Xp = ersatz.shuffle(X, start=s, end=(e if e >= 0 else L + 1 + e), n=n, random_state=seed)
            bad = cmp(yb, (B,), lambda i: (X[i[0]:i[0] + 1], [a[i[0]:i[0] + 1] for a in args]), "before") or \
                cmp(ya, (B, n), lambda i: (Xp[i[0], i[1]][None], [a[i[0]:i[0] + 1] for a in args]), "after")
        elif k == "ablate_annotations":
            n, seed = r["n"], r.get("seed", 3)
            ann = torch.tensor(r["annotations"])
            na = len(r["annotations"])
            kw.pop("args", None)
            yb, ya = ab.ablate_annotations(m, X, ann, n=n, random_state=seed, **kw)

            def after(i):
                idx, s, e = r["annotations"][i[0]]
                Xp = ersatz.shuffle(X[idx:idx + 1], start=s, end=e, n=n, random_state=seed)
                return Xp[0, i[2]][None], []
            bad = cmp(yb, (na, 1), lambda i: (X[r["annotations"][i[0]][0]][None], []), "before") or cmp(ya, (na, 1, n), after, "after")
        elif k == "space":
            mots = [mk_motif(mm) for mm in r["motifs"]]
            spc = r["spacing"]
            yb, ya = sp.space(m, X, mots, spc, start=r["start"], alphabet=alphabet, **kw)
            S = len(spc)

            def after(i):
                Xs = ersatz.multisubstitute(X, mots, list(spc[i[1]]), start=r["start"], alphabet=alphabet)
                return Xs[i[0]:i[0] + 1], [a[i[0]:i[0] + 1] for a in args]
            bad = cmp(yb, (B, S), lambda i: (X[i[0]:i[0] + 1], [a[i[0]:i[0] + 1] for a in args]), "before") or cmp(ya, (B, S), after, "after")
        elif k in ("apply_pairwise", "apply_product"):
            sizes = r["arg_sizes"]
            pargs = [torch.randn(sz, 1, generator=g, dtype=torch.float64) for sz in sizes]
            fn = pr.apply_pairwise if k == "apply_pairwise" else pr.apply_product
            if r.get("func_kwargs"):
                def func_kw(model_, X_, args=None, scale=1, shift=0, **kw_):
                    return predict(model_, X_, args=args, **kw_) * scale + shift
                y = (fn(func_kw, m, X, args=pargs, batch_size=bs, device="cpu", additional_func_kwargs={"scale": 2}, shift=1) - 1) / 2
            else:
                y = fn(predict, m, X, args=pargs, batch_size=bs, device="cpu")
            lead = (B, sizes[0]) if k == "apply_pairwise" else (B,) + tuple(sizes)

            def inp(i):
                if k == "apply_pairwise":
                    return X[i[0]:i[0] + 1], [a[i[1]:i[1] + 1] for a in pargs]
                return X[i[0]:i[0] + 1], [a[i[1 + q]:i[1 + q] + 1] for q, a in enumerate(pargs)]
            bad = cmp(y, lead, inp, k)
        else:
            raise KeyError(k)
    except Exception as e:
        return True, "raised %s: %s" % (type(e).__name__, e)
    return (bad is not None), (bad or "ok")


# ------------------------------------------------------------------ symbolic harness

def worker(cfg):
    ld, shims = C.fresh_env()
    stats = core.Stats()
    out = {"violations": [], "samples": []}
    k, A, B, L, kind, n_out, n_args = cfg["kind"], cfg["A"], cfg["B"], cfg["L"], cfg["out"], cfg["n_out"], cfg["n_args"]
    alphabet = _alphabet(cfg, A)
    mods = {n: ld.load(n) for n in ("marginalize", "ablate", "space", "product", "predict")}

    def motif(ctx, name, w):
        """a motif as a one-hot tensor or (motif_str) as a string over the configuration's alphabet; returns (motif, codes)"""
        mc = C.sym_chars(ctx, name, (1, w), A)
        if cfg.get("motif_str"):
            codes = []
            for t in range(w):
                r_ = ord(alphabet[-1])
                for k_ in range(A - 1):
                    r_ = ite(mc[0, t] == k_, ord(alphabet[k_]), r_)
                codes.append(r_)
            return SymStr(codes), mc
        return C.onehot_from_chars(mc, A, dtype="float32"), mc

    def body(ctx):
        xc = C.sym_chars(ctx, "x", (B, L), A)
        X = C.onehot_from_chars(xc, A, dtype=cfg.get("x_dtype", "float32"))
        args = [T.Tensor(np.array([[core.Real("a%d_%d" % (q, i))] for i in range(B)], dtype=object), dtype="float32") for q in range(n_args)]
        bs = core.Int("batch_size")
        ctx.assume(bs.z >= 1)
        model = UFModel(n_out, kind, out_dim=D_OUT)
        kw = dict(device="cpu", batch_size=bs)
        if n_args:
            kw["args"] = tuple(args)
        base = {"x": lambda m: C.eval_chars(m, xc), "batch_size": lambda m: core.model_value(m, bs)}

        def rp(m):
            d = dict(cfg)
            for kk, f in base.items():
                d[kk] = f(m)
            return d

        def F(chars, argrows):
            feats = _ohe_row(chars, A)
            return lambda t, d: expected_row(t, d, feats, argrows)

        def argrow(i):
            return [list(a.a[i].flat) for a in args]

        def fail(key, what):
            m = ctx.model() if ctx.check() == z3.sat else None
            out["violations"].append(C.violation(key, what, rp(m), replay))

        try:
            if k == "marginalize":
                w = cfg["w"]
                mo, mc = motif(ctx, "m", w)
                start = core.Int("start")
                ctx.assume(s_and(start >= 0, start + w <= L))
                base["motif"] = lambda m: C.eval_chars(m, mc)
                base["start"] = lambda m: core.model_value(m, start)
                yb, ya = mods["marginalize"].marginalize(model, X, mo, start=start, alphabet=alphabet, **kw)
                claim = s_and(_rows_claim(yb, (B,), lambda t, d, i: F(list(xc[i[0]]), argrow(i[0]))(t, d), kind, n_out),
                              _rows_claim(ya, (B,), lambda t, d, i: F(spec_substitute(list(xc[i[0]]), list(mc[0]), start), argrow(i[0]))(t, d), kind, n_out))
                key = "marginalize:wrong-index"
            elif k == "marginalize_annotations":
                B0, L0, na = cfg["B0"], cfg["L0"], cfg["n_ann"]
                x0 = C.sym_chars(ctx, "y", (B0, L0), A)
                X0 = C.onehot_from_chars(x0, A, dtype="float32")
                a0 = [T.Tensor(np.array([[core.Real("b%d_%d" % (q, i))] for i in range(B0)], dtype=object), dtype="float32") for q in range(n_args)]
                if n_args:
                    kw["args"] = tuple(a0)
                rows = _ann_rows(ctx, na, B, L, L0)
                ann = T.Tensor(np.array(rows, dtype=object), dtype="int64")
                base["x0"] = lambda m: C.eval_chars(m, x0)
                base["annotations"] = lambda m: [[core.model_value(m, v) for v in row] for row in rows]
                mstart = None
                if cfg.get("start") == "sym":
                    mstart = core.Int("mstart")
                    ctx.assume(s_and(mstart >= 0, *[mstart + (row[2] - row[1]) <= L0 for row in rows]))
                    kw["start"] = mstart
                base["start"] = lambda m: (None if mstart is None else core.model_value(m, mstart))
                yb, ya = mods["marginalize"].marginalize_annotations(model, X, X0, ann, alphabet=alphabet, **kw)
                mdl = ctx.model() if ctx.check() == z3.sat else None
                rv = [[core.model_value(mdl, v) for v in row] for row in rows]
                if ctx.prove(s_and(*[rows[i][j] == rv[i][j] for i in range(na) for j in (1, 2)]), "annotation spans concretised") is not None:
                    raise core.Inconclusive("annotation spans not determined on this path")

                def after(t, d, i):
                    idx, s, e = rows[i[0]][0], rv[i[0]][1], rv[i[0]][2]
                    w = e - s
                    p = (L0 // 2 - w // 2) if mstart is None else mstart
                    src = [sel([xc[b][q] for b in range(B)], idx) for q in range(s, e)]      # example idx may stay symbolic
                    return F(spec_substitute(list(x0[i[1]]), src, p), [list(a.a[i[1]].flat) for a in a0])(t, d)
                claim = s_and(_rows_claim(yb, (na, B0), lambda t, d, i: F(list(x0[i[1]]), [list(a.a[i[1]].flat) for a in a0])(t, d), kind, n_out),
                              _rows_claim(ya, (na, B0), after, kind, n_out))
                key = "annotations:multi-output-stacking" if kind != "tensor" else "marginalize_annotations:wrong-index"
            elif k in ("ablate", "ablate_annotations"):
                n = cfg["n"]
                seed = core.Int("seed")
                base["seed"] = lambda m: core.model_value(m, seed)

                def shuffled(chars, s, e, j):
                    Wd = e - s
                    perm = [SInt(env._rng_perm(seed.z, z3.IntVal(j), z3.IntVal(Wd), z3.IntVal(t))) for t in range(Wd)]
                    region = list(chars[s:e])
                    return list(chars[:s]) + [sel(region, perm[t]) for t in range(Wd)] + list(chars[e:])
                if k == "ablate":
                    start, end = core.Int("start"), core.Int("end")
                    if cfg.get("end_mode") == "neg":
                        # library convention (ersatz.shuffle): a negative end means L + 1 + end, -1 = whole sequence
                        ctx.assume(s_and(start >= 0, end < 0, start < L + 1 + end))
                        eff_end = L + 1 + end
                    else:
                        ctx.assume(s_and(start >= 0, start < end, end <= L))
                        eff_end = end
                    base["start"] = lambda m: core.model_value(m, start)
                    base["end"] = lambda m: core.model_value(m, end)
                    if cfg.get("history"):
                        # call history: an earlier call with a func that takes random_state (e.g. deep_lift_shap) and another seed;
                        # every call must hand *its own* seed to func, and a later call with func=predict must be unaffected
                        seen = []
                        seed0 = core.Int("seed0")
                        base["seed0"] = lambda m: core.model_value(m, seed0)
                        pred = mods["predict"].predict

                        def func_rs(model_, X_, args=None, random_state=None, **kw_):
                            seen.append(random_state)
                            return pred(model_, X_, args=args, **kw_)
                        mods["ablate"].ablate(model, X, start, end, n=n, random_state=seed0, func=func_rs, **kw)
                        mods["ablate"].ablate(model, X, start, end, n=n, random_state=seed, func=func_rs, **kw)
                        okh = len(seen) == 4 and all(v is not None for v in seen)
                        mh = ctx.prove(s_and(okh, *([seen[0] == seed0, seen[1] == seed0, seen[2] == seed, seen[3] == seed] if okh else [])), "func receives the seed of its own call")
                        if mh is not None:
                            out["violations"].append(C.violation("ablate:state-leaks-between-calls", "ablate: func does not receive the random_state of the call it belongs to (state leaks between calls)", dict(rp(mh), history=True), replay))
                            return "returned"
                    yb, ya = mods["ablate"].ablate(model, X, start, end, n=n, random_state=seed, **kw)
                    mdl = ctx.model() if ctx.check() == z3.sat else None
                    sv, ev = core.model_value(mdl, start), core.model_value(mdl, eff_end)
                    if ctx.prove(s_and(start == sv, eff_end == ev), "window concretised") is not None:
                        raise core.Inconclusive("window not determined on this path")
                    claim = s_and(_rows_claim(yb, (B,), lambda t, d, i: F(list(xc[i[0]]), argrow(i[0]))(t, d), kind, n_out),
                                  _rows_claim(ya, (B, n), lambda t, d, i: F(shuffled(list(xc[i[0]]), sv, ev, i[1]), argrow(i[0]))(t, d), kind, n_out))
                    key = "ablate:wrong-index"
                else:
                    na = cfg["n_ann"]
                    rows = _ann_rows(ctx, na, B, L, L)
                    ann = T.Tensor(np.array(rows, dtype=object), dtype="int64")
                    base["annotations"] = lambda m: [[core.model_value(m, v) for v in row] for row in rows]
                    kw.pop("args", None)
                    yb, ya = mods["ablate"].ablate_annotations(model, X, ann, n=n, random_state=seed, **kw)
                    mdl = ctx.model() if ctx.check() == z3.sat else None
                    rv = [[core.model_value(mdl, v) for v in row] for row in rows]
                    if ctx.prove(s_and(*[rows[i][j] == rv[i][j] for i in range(na) for j in range(3)]), "annotations concretised") is not None:
                        raise core.Inconclusive("annotation rows not determined on this path")
                    claim = s_and(_rows_claim(yb, (na, 1), lambda t, d, i: F(list(xc[rv[i[0]][0]]), [])(t, d), kind, n_out),
                                  _rows_claim(ya, (na, 1, n), lambda t, d, i: F(shuffled(list(xc[rv[i[0]][0]]), rv[i[0]][1], rv[i[0]][2], i[2]), [])(t, d), kind, n_out))
                    key = "annotations:multi-output-stacking" if kind != "tensor" else "ablate_annotations:wrong-index"
            elif k == "space":
                ws, S = cfg["ws"], cfg["S"]
                mms = [motif(ctx, "m%d" % q, w) for q, w in enumerate(ws)]
                mos, mcs = [mm[0] for mm in mms], [mm[1] for mm in mms]
                spv = [[core.Int("sp%d_%d" % (s_, q)) for q in range(len(ws) - 1)] for s_ in range(S)]
                start = core.Int("start")
                ctx.assume(start >= 0)
                default_start = cfg.get("start") == "none"
                for row in spv:
                    tot = 0 if default_start else start
                    for q, w in enumerate(ws):
                        tot = tot + w + (row[q] if q < len(row) else 0)
                    ctx.assume(s_and(*[v >= 0 for v in row], tot <= L))
                spt = T.Tensor(np.array(spv, dtype=object).reshape(S, len(ws) - 1), dtype="int32")
                base["motifs"] = lambda m: [C.eval_chars(m, mc) for mc in mcs]
                base["spacing"] = lambda m: [[core.model_value(m, v) for v in row] for row in spv]
                base["start"] = lambda m: (None if default_start else core.model_value(m, start))
                yb, ya = mods["space"].space(model, X, mos, spt, start=None if default_start else start, alphabet=alphabet, **kw)

                def after(t, d, i):
                    cur = list(xc[i[0]])
                    # default: the whole construct of THIS spacing row is centred
                    p = (L // 2 - (sum(ws) + s_sum(spv[i[1]])) // 2) if default_start else start
                    for q, w in enumerate(ws):
                        cur = spec_substitute(cur, list(mcs[q][0]), p)
                        p = p + w + (spv[i[1]][q] if q < len(ws) - 1 else 0)
                    return F(cur, argrow(i[0]))(t, d)
                claim = s_and(_rows_claim(yb, (B, S), lambda t, d, i: F(list(xc[i[0]]), argrow(i[0]))(t, d), kind, n_out),
                              _rows_claim(ya, (B, S), after, kind, n_out))
                key = "space:wrong-index"
            elif k in ("apply_pairwise", "apply_product"):
                sizes = cfg["arg_sizes"]
                pargs = [T.Tensor(np.array([[core.Real("p%d_%d" % (q, j))] for j in range(sz)], dtype=object), dtype="float32") for q, sz in enumerate(sizes)]
                fn = getattr(mods["product"], k)
                if cfg.get("func_kwargs"):
                    # a func with its own named arguments: one routed through additional_func_kwargs, one through **kwargs;
                    # every batch (also a final partial one) must receive both
                    def func_kw(model_, X_, args=None, scale=1, shift=0, **kw_):
                        return mods["predict"].predict(model_, X_, args=args, **kw_) * scale + shift
                    y = fn(func_kw, model, X, args=pargs, batch_size=bs, device="cpu", additional_func_kwargs={"scale": 2}, shift=1)
                    post = lambda v: 2 * v + 1
                else:
                    y = fn(mods["predict"].predict, model, X, args=pargs, batch_size=bs, device="cpu")
                    post = lambda v: v
                if k == "apply_pairwise":
                    lead = (B, sizes[0])
                    ex = lambda t, d, i: post(F(list(xc[i[0]]), [list(a.a[i[1]].flat) for a in pargs])(t, d))
                else:
                    lead = (B,) + tuple(sizes)
                    ex = lambda t, d, i: post(F(list(xc[i[0]]), [list(a.a[i[1 + q]].flat) for q, a in enumerate(pargs)])(t, d))
                claim = _rows_claim(y, lead, ex, kind, n_out)
                key = k + ":wrong-index"
        except (ValueError, RuntimeError, IndexError, TypeError) as e:
            ky = "annotations:multi-output-stacking" if (k.endswith("annotations") and kind != "tensor") else k + ":raises"
            fail(ky, "%s raised %s: %s" % (k, type(e).__name__, e))
            return "raised"
        m = ctx.prove(claim, "every output entry == F(input its index denotes)")
        if m is not None:
            out["violations"].append(C.violation(key, "%s: an output entry is not func applied to the input its index denotes" % k, rp(m), replay))
        if not out["samples"]:
            out["samples"].append({"cfg": cfg, "path": "returned"})
        return "returned"

    core.explore(body, stats=stats, max_paths=20000)
    out["stats"] = stats.as_dict()
    return out


def configs(tier):
    cf = []
    outs = [("tensor", 1), ("tuple", 2)]
    q = tier == "quick"
    for kind, n_out in outs:
        for n_args in (0, 1):
            cf.append(dict(kind="marginalize", A=3, B=2, L=4, w=2, out=kind, n_out=n_out, n_args=n_args))
            cf.append(dict(kind="ablate", A=2, B=2, L=3 if q else 4, n=2, out=kind, n_out=n_out, n_args=n_args))
            cf.append(dict(kind="space", A=2, B=2, L=4 if q else 5, ws=[1, 1], S=2, out=kind, n_out=n_out, n_args=n_args))
            if n_args == 0:
                cf.append(dict(kind="space", A=2, B=1, L=5 if q else 6, ws=[1, 1], S=2, start="none", out=kind, n_out=n_out, n_args=0))
                cf.append(dict(kind="ablate", A=2, B=2, L=3, n=2, end_mode="neg", out=kind, n_out=n_out, n_args=0))
                cf.append(dict(kind="ablate", A=2, B=1, L=3, n=2, history=True, out=kind, n_out=n_out, n_args=0))
                cf.append(dict(kind="marginalize_annotations", A=2, B=2, L=3, B0=1, L0=4, n_ann=2, start="sym", out=kind, n_out=n_out, n_args=0))
            for na in (1, 3):
                cf.append(dict(kind="marginalize_annotations", A=2, B=2, L=3, B0=2 if na == 1 else 1, L0=3, n_ann=na, out=kind, n_out=n_out, n_args=n_args))
        for na in (1, 3):
            cf.append(dict(kind="ablate_annotations", A=2, B=2, L=3, n=2, n_ann=na, out=kind, n_out=n_out, n_args=0))
        cf.append(dict(kind="apply_pairwise", A=2, B=2, L=2, arg_sizes=[3, 3], out=kind, n_out=n_out, n_args=0))
        cf.append(dict(kind="apply_product", A=2, B=2, L=2, arg_sizes=[3, 2], out=kind, n_out=n_out, n_args=0))
        cf.append(dict(kind="apply_product", A=2, B=1, L=2, arg_sizes=[2], out=kind, n_out=n_out, n_args=0))
    # string motifs over an alphabet that is not the default ordering (the alphabet must reach every encoder)
    cf.append(dict(kind="space", A=4, B=1, L=3, ws=[1, 1], S=1, out="tensor", n_out=1, n_args=0, motif_str=True, alphabet_perm=[3, 2, 1, 0]))
    cf.append(dict(kind="marginalize", A=4, B=1, L=3, w=2, out="tensor", n_out=1, n_args=0, motif_str=True, alphabet_perm=[1, 0, 3, 2]))
    # the library's native int8 one-hot X with real-valued product arguments (they must reach func unrounded)
    cf.append(dict(kind="apply_product", A=2, B=2, L=2, arg_sizes=[2, 2], out="tensor", n_out=1, n_args=0, x_dtype="int8"))
    cf.append(dict(kind="apply_pairwise", A=2, B=1, L=2, arg_sizes=[2, 2], out="tuple", n_out=2, n_args=0, x_dtype="int8"))
    cf.append(dict(kind="apply_product", A=2, B=2, L=2, arg_sizes=[3, 2], out="tensor", n_out=1, n_args=0, func_kwargs=True))
    cf.append(dict(kind="apply_pairwise", A=2, B=2, L=2, arg_sizes=[3, 3], out="tensor", n_out=1, n_args=0, func_kwargs=True))
    if not q:
        cf.append(dict(kind="ablate", A=3, B=3, L=4, n=3, out="tensor", n_out=1, n_args=1))
        cf.append(dict(kind="space", A=2, B=2, L=6, ws=[1, 2, 1], S=2, out="tuple", n_out=2, n_args=1))
        cf.append(dict(kind="space", A=2, B=1, L=5, ws=[2, 1], S=3, out="tensor", n_out=1, n_args=0))
        cf.append(dict(kind="apply_product", A=2, B=2, L=2, arg_sizes=[2, 3, 2], out="tensor", n_out=1, n_args=0))
        cf.append(dict(kind="apply_pairwise", A=2, B=3, L=2, arg_sizes=[4], out="tuple", n_out=2, n_args=0))
        cf.append(dict(kind="marginalize_annotations", A=2, B=3, L=4, B0=2, L0=4, n_ann=2, out="tuple", n_out=2, n_args=1))
        cf.append(dict(kind="ablate_annotations", A=2, B=3, L=4, n=3, n_ann=2, out="tuple", n_out=2, n_args=0))
    return cf


def main(tier, seed):
    rep = harness.Report(PROP, tier, seed)
    ld, _ = C.fresh_env()
    rep.functions = [ld.func_info("marginalize", "marginalize"), ld.func_info("marginalize", "marginalize_annotations"), ld.func_info("ablate", "ablate"),
                     ld.func_info("ablate", "ablate_annotations"), ld.func_info("space", "space"), ld.func_info("product", "_apply"),
                     ld.func_info("product", "apply_pairwise"), ld.func_info("product", "apply_product"), ld.func_info("ersatz", "shuffle"),
                     ld.func_info("ersatz", "substitute"), ld.func_info("ersatz", "multisubstitute"), ld.func_info("predict", "predict")]
    cf = configs(tier)
    rep.bounds = {"configs": [{k: v for k, v in c.items()} for c in cf][:40], "batch_size": "unbounded symbolic Int >= 1",
                  "annotation rows / windows / spacings / shuffle permutations / seed": "symbolic"}
    rep.assumptions = ["model = uninterpreted row-wise function with 1-2 outputs", "func = predict (deep_lift_shap as func is covered by C04-C06 separately)",
                       "RNG model: shuffle j is an arbitrary permutation named by (seed, call index j)",
                       "*_annotations are checked without extra model args (ablate_annotations forwards un-sliced args and predict rejects them)"]
    rep.absorb(harness.run_configs("checks.C08", "worker", cf))
    rep.witness_ok = rep.stats["returned"] > 0
    return harness.finish(rep)
