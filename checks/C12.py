"""C12 - FIMO reports exactly the windows above threshold, both strands, fields correct.

Engine A on the real fimo._fast_hits (symbolic sequence characters incl. unknown, symbolic log-odds,
thresholds, tables) and on the real fimo.fimo glue (concrete PWMs -> real _all_pwm_to_mapping /
_pwm_to_mapping / logaddexp2 source; symbolic one-hot sequences; both strands; dim=0/1; counts;
reverse-complemented input).
"""
import itertools
import math
from fractions import Fraction

import os
import numpy as np
import z3

from symtm import env, core, tensor as T, harness
from symtm.core import SInt, SLog, ite, s_and, s_or, s_not, s_sum
from . import common as C

PROP = "C12"
BIN = Fraction(1, 2)


def window_score(chars, pwm_col, start, w):
    """sum over the window of the log-odds of the observed character; unknown (-1) contributes 0"""
    tot = 0
    for j in range(w):
        ch = chars[start + j]
        v = 0
        for c in range(4):
            v = ite(ch == c, pwm_col(c, j), v)
        tot = tot + v
    return tot


# ------------------------------------------------------------------ replay on the real build

def replay(r):
    C.real_tangermeme()
    import numpy
    import torch
    from tangermeme.tools.fimo import fimo
    rng = numpy.random.RandomState(3)
    seqs = r["seqs"]                       # list of char lists (-1 = N), equal lengths
    L = len(seqs[0])
    widths = r.get("widths", [2])
    motifs = {}
    for q, w in enumerate(widths):
        pw = rng.dirichlet(numpy.ones(4) * 0.4, size=w).T
        if r.get("pwms") and q < len(r["pwms"]):
            pw = numpy.array(r["pwms"][q], dtype=float)
        motifs["m%d" % q] = torch.from_numpy(pw)
    X = C.real_onehot(seqs, 4).type(torch.float32)
    thr = r.get("threshold", 0.3)
    eps, bin_size = 0.0001, float(Fraction(r.get("bin", "1/2")))

    if r.get("views") == "history":
        try:
            fimo(motifs, X, bin_size=bin_size, eps=0.05, threshold=thr)
        except Exception as e:
            return True, "fimo raised %s: %s" % (type(e).__name__, e)

    def scan(Xt, rc):
        try:
            return fimo(motifs, Xt, bin_size=bin_size, eps=eps, threshold=thr, reverse_complement=rc)
        except Exception as e:
            return e
    if r.get("fasta"):
        import os, tempfile, shutil
        d = tempfile.mkdtemp(prefix="c12_")
        try:
            names = ["chr2", "chr10", "chr1"][:len(seqs)]
            with open(os.path.join(d, "s.fa"), "w") as f:
                for k_, (nm, row) in enumerate(zip(names, seqs)):
                    if k_ == 1:
                        f.write(">chrS\nA\n")
                    f.write(">%s\n%s\n" % (nm, "".join("ACGT"[c] if c >= 0 else "N" for c in row)))
            try:
                rf_ = fimo(motifs, os.path.join(d, "s.fa"), bin_size=bin_size, eps=eps, threshold=thr)
                rt_ = fimo(motifs, X, bin_size=bin_size, eps=eps, threshold=thr)
            except Exception as e:
                return True, "fimo raised %s: %s" % (type(e).__name__, e)
            for a, b in zip(rf_, rt_):
                fa = sorted((str(n_), int(s_), str(st)) for n_, s_, st in zip(a["sequence_name"], a["start"], a["strand"]))
                ta = sorted((names[int(n_)], int(s_), str(st)) for n_, s_, st in zip(b["sequence_name"], b["start"], b["strand"]))
                if fa != ta:
                    return True, "FASTA scan reports %s, tensor scan of the same sequences reports %s" % (fa[:4], ta[:4])
        finally:
            shutil.rmtree(d, ignore_errors=True)
    if r.get("fwd"):
        try:
            cf_ = fimo(motifs, X, bin_size=bin_size, eps=eps, threshold=thr, reverse_complement=False, return_counts=True)
            rf_ = fimo(motifs, X, bin_size=bin_size, eps=eps, threshold=thr, reverse_complement=False)
        except Exception as e:
            return True, "fimo(reverse_complement=False, return_counts=True) raised %s: %s" % (type(e).__name__, e)
        if [int(v) for v in cf_] != [len(d) for d in rf_]:
            return True, "forward-only counts %s differ from the forward-only hit tables %s" % (list(cf_), [len(d) for d in rf_])
    # return_counts and dim=1 against the hit tables of the same two-strand scan
    try:
        tabs_ = fimo(motifs, X, bin_size=bin_size, eps=eps, threshold=thr, reverse_complement=True)
        cnt_ = fimo(motifs, X, bin_size=bin_size, eps=eps, threshold=thr, reverse_complement=True, return_counts=True)
        dim1_ = fimo(motifs, X, bin_size=bin_size, eps=eps, threshold=thr, reverse_complement=True, dim=1)
    except Exception as e:
        return True, "fimo raised %s: %s" % (type(e).__name__, e)
    if [int(v) for v in cnt_] != [len(d) for d in tabs_]:
        return True, "return_counts %s differs from the per-motif hit tables of the same scan %s" % ([int(v) for v in cnt_], [len(d) for d in tabs_])
    by_seq = sorted((int(n_), int(q), int(s_), str(st)) for q, d in enumerate(tabs_) for n_, s_, st in zip(d["sequence_name"], d["start"], d["strand"]))
    by_seq1 = sorted((int(n_), int(q), int(s_), str(st)) for d in dim1_ for n_, q, s_, st in zip(d["sequence_name"], d["motif_idx"], d["start"], d["strand"]))
    if any(len(set(d["sequence_name"])) != 1 for d in dim1_) or by_seq != by_seq1:
        return True, "dim=1 grouping %s does not describe the hit set of the dim=0 tables %s" % (by_seq1[:4], by_seq[:4])
    for rc in (True, False):
        res = scan(X, rc)
        if isinstance(res, Exception):
            return True, "fimo raised %s: %s" % (type(res).__name__, res)
        for q, (name, pw) in enumerate(motifs.items()):
            w = pw.shape[1]
            lo = numpy.log2(pw.numpy() + eps) - math.log2(0.25)
            tabs = {}
            from tangermeme.tools.fimo import _pwm_to_mapping
            want = []
            for strand, mat in (("+", lo), ("-", lo[::-1, ::-1])) if rc else (("+", lo),):
                sm, tab = _pwm_to_mapping(numpy.ascontiguousarray(mat), bin_size)
                idx = numpy.where(tab < math.log2(thr))[0]
                sthr = numpy.float32((idx[0] + sm) * bin_size) if len(idx) else float("inf")
                for b, row in enumerate(seqs):
                    for i in range(0, L - w + 1):
                        sc = sum(mat[row[i + j], j] for j in range(w) if row[i + j] >= 0)
                        if sc > sthr + 1e-6 or (sc > sthr and abs(sc - sthr) > 1e-6):
                            want.append((b, i, i + w, strand, sc))
                        elif abs(sc - sthr) <= 1e-6:
                            want.append(None)          # float32 tie: either outcome
            got = [(int(a), int(b_), int(c), d, float(e)) for a, b_, c, d, e in zip(res[q]["sequence_name"], res[q]["start"], res[q]["end"], res[q]["strand"], res[q]["score"])]
            # reported p-value = the table entry of the hit's own score bin (bins of width bin_size counted from the table's lowest score)
            for (a, b_, c, d, e), pv in zip(got, res[q]["p-value"]):
                mat = lo if d == "+" else lo[::-1, ::-1]
                sm, tab = _pwm_to_mapping(numpy.ascontiguousarray(mat), bin_size)
                cand = {float(2.0 ** tab[j]) for j in (int((e - 1e-9) / bin_size) - sm, int(e / bin_size) - sm, int((e + 1e-9) / bin_size) - sm) if 0 <= j < len(tab)}
                if not any(abs(float(pv) - cv) <= 1e-9 * max(1.0, cv) for cv in cand):
                    return True, "motif %s: hit (seq %d, start %d, strand %s, score %.4f) reports p-value %.6g, the table entry of its score bin is %s (bin_size %s)" % (name, a, b_, d, e, float(pv), sorted(cand), bin_size)
            need = [x for x in want if x is not None]
            gset = {(a, b_, c, d) for a, b_, c, d, e in got}
            for x in need:
                if x[:4] not in gset:
                    return True, "motif %s: window (seq %d, start %d, end %d, strand %s, score %.4f) exceeds the threshold but is not reported (L=%d, w=%d)" % ((name,) + x + (L, w))
            if None not in want and len(got) != len(need):
                return True, "motif %s: %d hits reported, %d windows exceed the threshold" % (name, len(got), len(need))
            for a, b_, c, d, e in got:
                if c - b_ != w or b_ < 0 or c > L:
                    return True, "hit with wrong span (%d, %d) for width %d" % (b_, c, w)
    return False, "ok"


# ------------------------------------------------------------------ symbolic harness

def worker(cfg):
    ld, shims = C.fresh_env()
    fimo = ld.load("tools.fimo")
    stats = core.Stats()
    out = {"violations": [], "samples": []}
    kind = cfg["kind"]

    def add(key, what, r):
        out["violations"].append(C.violation(key, what, r, replay))

    if kind == "hits":
        Ls, ws, TAB = cfg["Ls"], cfg["ws"], cfg["T"]
        tot, W, nm = sum(Ls), sum(ws), len(ws)
        BIN = Fraction(cfg.get("bin", "1/2"))

        def body(ctx):
            env.PRANGE_ANY_ORDER[0] = bool(cfg.get("prange_any_order"))      # the order of the parallel motif loop is the solver's choice
            X = np.empty((tot,), dtype=object)
            for i in range(tot):
                v = core.Int("c%d" % i)
                ctx.assume(s_and(v >= -1, v <= 3))
                X[i] = v
            pwm = np.empty((4, W), dtype=object)
            for c in np.ndindex(4, W):
                pwm[c] = core.Real("w_%d_%d" % c)
            thr = [core.Real("thr%d" % k) for k in range(nm)]
            small = [core.Int("sm%d" % k) for k in range(nm)]
            tabs = [SLog(core.Real("t%d" % j)) for j in range(TAB * nm)]
            clen = np.array([0] + list(np.cumsum(Ls)), dtype=object)
            plen = np.array([0] + list(np.cumsum(ws)), dtype=object)
            tlen = np.array([TAB * k for k in range(nm + 1)], dtype=object)
            seqs = [[X[sum(Ls[:b]) + p] for p in range(Ls[b])] for b in range(len(Ls))]
            # table-extent precondition (established by C11): the bin of every window score lies inside the motif's table
            for k in range(nm):
                for b, Lb in enumerate(Ls):
                    for i in range(0, Lb - ws[k] + 1):
                        sc = window_score(seqs[b], lambda c, j, k=k: pwm[c, sum(ws[:k]) + j], i, ws[k])
                        bn = core.s_int(sc / BIN) - small[k]
                        ctx.assume(s_and(bn >= 0, bn < TAB))
            A_ = lambda a, dt: T.NDArray(np.array(a, dtype=object), dtype=dt)

            def rp(m):
                return dict(cfg, seqs=[[core.model_value(m, v) for v in row] for row in seqs] if len(set(Ls)) == 1 else [[core.model_value(m, v) for v in seqs[0]]], widths=list(ws))
            try:
                hits = fimo._fast_hits(A_(X, "int8"), A_(clen, "int64"), A_(pwm, "float64"), A_(plen, "uint64"), A_(thr, "float32"), BIN,
                                       A_(small, "int64"), A_(tabs, "float64"), A_(tlen, "int64"))
            except Exception as e:
                if isinstance(e, core.Inconclusive):
                    raise
                m = ctx.model() if ctx.check() == z3.sat else None
                add("fast_hits:raises", "_fast_hits raised %s: %s" % (type(e).__name__, e), rp(m))
                return "raised"
            for k in range(nm):
                w = ws[k]
                got = list(hits[k])
                exp = []
                for b, Lb in enumerate(Ls):
                    for i in range(0, Lb - w + 1):
                        sc = window_score(seqs[b], lambda c, j, k=k: pwm[c, sum(ws[:k]) + j], i, w)
                        exp.append((b, i, sc))
                # under this path every `score > thresh` was decided: the reported list must be exactly the windows decided true
                gi = 0
                for (b, i, sc) in exp:
                    is_hit = sc > thr[k]
                    if gi < len(got) and int(got[gi][0]) == b and int(got[gi][1]) == i:
                        g = got[gi]
                        gi += 1
                        bn = core.s_int(sc / BIN) - small[k]
                        pv = 0
                        for t in range(TAB):
                            pv = ite(bn == t, tabs[TAB * k + t].p, pv)
                        m = ctx.prove(s_and(is_hit, g[2] == i + w, g[3] == sc, g[4] == pv), "reported hit: above threshold, fields correct")
                        if m is not None:
                            add("fast_hits:wrong-field-or-spurious-hit", "a reported hit is not above threshold or has a wrong end / score / p-value", rp(m))
                            return "returned"
                    else:
                        m = ctx.prove(s_not(is_hit), "unreported window is not above threshold")
                        if m is not None:
                            key = "fast_hits:last-window-skipped" if i == Ls[b] - w else "fast_hits:missed-window"
                            add(key, "window (sequence %d, start %d of 0..%d) exceeds the threshold on this path but is not reported" % (b, i, Ls[b] - w), rp(m))
                            return "returned"
                if gi != len(got):
                    m = ctx.model() if ctx.check() == z3.sat else None
                    add("fast_hits:extra-hit", "hits reported outside 0..L-w or out of order", rp(m))
                    return "returned"
            if len(out["samples"]) < 2:
                out["samples"].append({"cfg": cfg, "hits_on_path": [len(h) for h in hits]})
            return "returned"
        core.explore(body, stats=stats, max_paths=60000)
        out["stats"] = stats.as_dict()
        return out

    if kind == "glue":
        B, L = cfg["B"], cfg["L"]
        pw_list = cfg["pwms"]
        thr_p = cfg["threshold"]
        torch_s = shims["torch"]

        def body(ctx):
            ch = C.sym_chars(ctx, "x", (B, L), 4, lo=-1)
            X = C.onehot_from_chars(ch, 4, dtype="float32")
            motifs = {"m%d" % q: T.Tensor(np.array(pw, dtype=object), dtype="float64") for q, pw in enumerate(pw_list)}
            rp = lambda m: dict(cfg, seqs=C.eval_chars(m, ch), widths=[len(pw[0]) for pw in pw_list], pwms=pw_list, threshold=thr_p)
            kw = dict(bin_size=0.5, eps=0.0001, threshold=thr_p)
            views = cfg.get("views", "all")
            try:
                if views == "history":
                    # call history: the same motifs scanned earlier with another eps / bin_size must not influence this call
                    fimo.fimo(motifs, X, reverse_complement=True, bin_size=0.5, eps=0.05, threshold=thr_p)
                res = fimo.fimo(motifs, X, reverse_complement=True, **kw)
                res1 = fimo.fimo(motifs, X, reverse_complement=True, dim=1, **kw) if views in ("all", "views") else None
                cnt = fimo.fimo(motifs, X, reverse_complement=True, return_counts=True, **kw) if views in ("all", "views") else None
                Xrc = X.flip(dims=(-1,))[:, [3, 2, 1, 0]]
                res_rc = fimo.fimo(motifs, Xrc, reverse_complement=True, **kw) if views in ("all", "rc") else None
                if views == "fasta":
                    # the same sequences supplied as a FASTA file (records deliberately NOT in lexicographic order)
                    from symtm import env as _env
                    from symtm.loader import SymStr
                    names = ["chr2", "chr10", "chr1"][:B]
                    recs = []
                    for b in range(B):
                        codes = [ite(ch[b, p] == 0, ord("A"), ite(ch[b, p] == 1, ord("C"), ite(ch[b, p] == 2, ord("G"), ite(ch[b, p] == 3, ord("T"), ord("N"))))) for p in range(L)]
                        recs.append((names[b], SymStr(codes)))
                    if B >= 2:
                        recs.insert(1, ("chrS", "A"))           # a record shorter than every motif: contributes no hit, shifts no name
                    _env.FASTA_REGISTRY["sym.fa"] = recs
                    resfa = fimo.fimo(motifs, "sym.fa", reverse_complement=True, **kw)
                    resfa1 = fimo.fimo(motifs, "sym.fa", reverse_complement=True, dim=1, **kw)
                    for q in range(len(pw_list)):
                        t_rows = sorted((names[int(b)], int(s_), str(st)) for b, s_, st in zip(res[q].data["sequence_name"], res[q].data["start"], res[q].data["strand"]))
                        f_rows = sorted((str(nm), int(s_), str(st)) for nm, s_, st in zip(resfa[q].data["sequence_name"], resfa[q].data["start"], resfa[q].data["strand"]))
                        ctx.stats.obligations += 1
                        if t_rows == f_rows:
                            ctx.stats.discharged += 1
                        else:
                            m = ctx.model() if ctx.check() == z3.sat else None
                            add("fimo:fasta-vs-tensor", "FASTA input and tensor input describe different hit sets (e.g. hits attributed to the wrong record): %s vs %s" % (f_rows[:3], t_rows[:3]), dict(rp(m), fasta=True))
                            return "returned"
                    grouped = sorted((str(nm), int(s_), str(st)) for df in resfa1 for nm, s_, st in zip(df.data["sequence_name"], df.data["start"], df.data["strand"]))
                    allf = sorted((str(nm), int(s_), str(st)) for q in range(len(pw_list)) for nm, s_, st in zip(resfa[q].data["sequence_name"], resfa[q].data["start"], resfa[q].data["strand"]))
                    ctx.stats.obligations += 1
                    if grouped == allf and all(len(set(df.data["sequence_name"])) <= 1 for df in resfa1):
                        ctx.stats.discharged += 1
                    else:
                        add("fimo:fasta-dim1", "dim=1 grouping of a FASTA scan does not describe the same hit set", dict(rp(ctx.model() if ctx.check() == z3.sat else None), fasta=True))
                        return "returned"
                if views == "fwd":
                    # forward strand only: hits, counts and dim=1 must describe the '+' subset of the two-strand scan
                    resf = fimo.fimo(motifs, X, reverse_complement=False, **kw)
                    try:
                        cntf = fimo.fimo(motifs, X, reverse_complement=False, return_counts=True, **kw)
                    except Exception as e:
                        if isinstance(e, core.Inconclusive):
                            raise
                        m = ctx.model() if ctx.check() == z3.sat else None
                        add("fimo:return-counts-forward-only-raises", "fimo(return_counts=True, reverse_complement=False) raised %s: %s" % (type(e).__name__, e), dict(rp(m), fwd=True))
                        return "raised"
                    for q in range(len(pw_list)):
                        plus = sorted((int(b), int(s_)) for b, s_, st in zip(res[q].data["sequence_name"], res[q].data["start"], res[q].data["strand"]) if st == "+")
                        gotf = sorted((int(b), int(s_)) for b, s_ in zip(resf[q].data["sequence_name"], resf[q].data["start"]))
                        ctx.stats.obligations += 1
                        if plus == gotf and all(st == "+" for st in resf[q].data["strand"]) and bool(cntf.a[q] == len(gotf)):
                            ctx.stats.discharged += 1
                        else:
                            m = ctx.model() if ctx.check() == z3.sat else None
                            add("fimo:forward-only-inconsistent", "forward-only scan / counts differ from the '+' hits of the two-strand scan", dict(rp(m), fwd=True))
                            return "returned"
            except Exception as e:
                if isinstance(e, core.Inconclusive):
                    raise
                m = ctx.model() if ctx.check() == z3.sat else None
                if os.environ.get("VERIF_DEBUG"):
                    import traceback; traceback.print_exc()
                add("fimo:raises", "fimo raised %s: %s" % (type(e).__name__, e), rp(m))
                return "raised"

            def rows(df):
                return list(zip(df.data["motif_name"], df.data["sequence_name"], df.data["start"], df.data["end"], df.data["strand"], df.data["score"], df.data["p-value"]))
            cl = []
            flat0 = []
            for q, pw in enumerate(pw_list):
                w = len(pw[0])
                lo_ = [[math.log2(pw[c][j] + 0.0001) - math.log2(0.25) for j in range(w)] for c in range(4)]
                r0 = rows(res[q])
                flat0 += r0
                exp_n = 0
                for (mn, b, s, e, strand, sc, pv) in r0:
                    b, s = int(b), int(s)
                    mat = (lambda c, j: lo_[c][j]) if strand == "+" else (lambda c, j: lo_[3 - c][w - 1 - j])
                    want = window_score(list(ch[b]), mat, s, w)
                    cl.append(s_and(mn == "m%d" % q, e == s + w, s >= 0, s + w <= L))
                    cl.append(s_and(sc - want < Fraction(1, 10 ** 6), want - sc < Fraction(1, 10 ** 6)))
                    cl.append(s_and(pv > 0, pv < thr_p))
                # counts describe the same set
                if cnt is not None:
                    cl.append(cnt.a[q] == len(r0))
                # mirror image under reverse complement of the input, strands exchanged
                if res_rc is not None:
                    rr = rows(res_rc[q])
                    key0 = sorted((int(b), int(s), strand) for (_, b, s, e, strand, sc, pv) in r0)
                    keyr = sorted((int(b), L - w - int(s), "-" if strand == "+" else "+") for (_, b, s, e, strand, sc, pv) in rr)
                    cl.append(key0 == keyr)
            # dim=1 regroups the same hits by sequence
            if res1 is not None:
                flat1 = []
                for df in res1:
                    flat1 += rows(df)
                k0 = sorted((str(a), int(b), int(c), str(d)) for (a, b, c, e_, d, f, g) in flat0)
                k1 = sorted((str(a), int(b), int(c), str(d)) for (a, b, c, e_, d, f, g) in flat1)
                cl.append(k0 == k1)
            if views == "history":
                ld.restore()                     # module-level containers back to their state at import: a fresh process
                fresh = fimo.fimo(motifs, X, reverse_complement=True, **kw)
                for q in range(len(pw_list)):
                    ra, rb = rows(res[q]), rows(fresh[q])
                    cl.append(len(ra) == len(rb))
                    for x_, y_ in zip(ra, rb):
                        cl.append(s_and(*[(u == v) for u, v in zip(x_, y_)]))
            m = ctx.prove(s_and(*cl), "fields correct; counts, dim=1 and reverse-complemented input describe the same hit set")
            if m is not None:
                add("fimo:inconsistent-views", "a reported field is wrong, or return_counts / dim=1 / reverse-complemented input / the same call in a fresh process do not describe the same hit set", rp(m))
            # completeness: every window of every sequence and strand is reported iff its score exceeds the score threshold
            # implied by the p-value threshold (recomputed from the module's own table construction on the concrete PWM)
            tol = Fraction(1, 10 ** 5)
            for q, pw in enumerate(pw_list):
                w = len(pw[0])
                lo_ = [[math.log2(pw[c][j] + 0.0001) - math.log2(0.25) for j in range(w)] for c in range(4)]
                have = {(int(b), int(s), strand) for (_, b, s, e, strand, sc, pv) in rows(res[q])}
                for strand in ("+", "-"):
                    matl = [[lo_[c][j] if strand == "+" else lo_[3 - c][w - 1 - j] for j in range(w)] for c in range(4)]
                    sm, tab = fimo._pwm_to_mapping(T.NDArray(np.array(matl, dtype=object), dtype="float64"), 0.5)
                    idx = [t for t in range(tab.shape[0]) if tab.a[t] < math.log2(thr_p)]
                    sthr = float((idx[0] + int(core.unwrap0(sm))) * 0.5) if idx else float("inf")
                    for b in range(B):
                        for i in range(0, L - w + 1):
                            sc = window_score(list(ch[b]), lambda c, j: matl[c][j], i, w)
                            if (b, i, strand) in have:
                                claim = (sc > Fraction(sthr) - tol) if sthr != float("inf") else False
                                what = "reported window is not above the score threshold"
                            else:
                                claim = (sc < Fraction(sthr) + tol) if sthr != float("inf") else True
                                what = "window above the score threshold is not reported"
                            mm = ctx.prove(claim, what)
                            if mm is not None:
                                key = "fast_hits:last-window-skipped" if (i == L - w and (b, i, strand) not in have) else "fimo:wrong-hit-set"
                                add(key, "%s (motif %d, sequence %d, start %d of 0..%d, strand %s)" % (what, q, b, i, L - w, strand), rp(mm))
                                return "returned"
            if len(out["samples"]) < 2:
                out["samples"].append({"cfg": {k: v for k, v in cfg.items() if k != "pwms"}, "hits_on_path": len(flat0)})
            return "returned"
        core.explore(body, stats=stats, max_paths=60000, reset=ld.restore)
        out["stats"] = stats.as_dict()
        return out
    raise KeyError(kind)


def configs(tier):
    q = tier == "quick"
    cf = [dict(kind="hits", Ls=[3], ws=[2], T=3), dict(kind="hits", Ls=[1], ws=[2], T=2), dict(kind="hits", Ls=[3], ws=[1, 2], T=3),
          dict(kind="hits", Ls=[3, 3], ws=[3], T=2), dict(kind="hits", Ls=[2], ws=[2], T=2), dict(kind="hits", Ls=[0, 2], ws=[1], T=2)]
    # two motifs with the iterations of the parallel motif loop in ANY order (each motif only ever writes its own hit list)
    cf.append(dict(kind="hits", Ls=[2], ws=[1, 2], T=2, prange_any_order=True))
    # bin sizes whose reciprocal is not an integer
    cf += [dict(kind="hits", Ls=[2], ws=[2], T=3, bin="3/4"), dict(kind="hits", Ls=[3], ws=[2], T=2, bin="2")]
    if not q:
        cf += [dict(kind="hits", Ls=[5], ws=[2], T=3), dict(kind="hits", Ls=[4], ws=[1, 2], T=3), dict(kind="hits", Ls=[4, 2], ws=[2, 3], T=3), dict(kind="hits", Ls=[6], ws=[4], T=2)]
    pw1 = [[0.7, 0.1], [0.1, 0.1], [0.1, 0.7], [0.1, 0.1]]
    pw2 = [[0.25, 0.9, 0.1], [0.25, 0.03, 0.2], [0.25, 0.03, 0.3], [0.25, 0.04, 0.4]]
    cf.append(dict(kind="glue", B=1, L=3, pwms=[pw1], threshold=0.3, views="rc"))
    cf.append(dict(kind="glue", B=2, L=2, pwms=[pw1], threshold=0.3, views="views"))
    cf.append(dict(kind="glue", B=1, L=3, pwms=[pw1], threshold=0.3, views="fwd"))
    cf.append(dict(kind="glue", B=2, L=2, pwms=[pw1], threshold=0.3, views="fasta"))
    cf.append(dict(kind="glue", B=1, L=3, pwms=[pw1], threshold=0.3, views="history"))
    cf.append(dict(kind="glue", B=1, L=3, pwms=[pw1, pw2], threshold=0.3, views="views"))      # several motifs: per-motif strand pairing of counts / frames
    if not q:
        cf.append(dict(kind="glue", B=1, L=4, pwms=[pw1, pw2], threshold=0.3, views="rc"))
        cf.append(dict(kind="glue", B=2, L=3, pwms=[pw2], threshold=0.4, views="all"))
    return cf


def main(tier, seed):
    rep = harness.Report(PROP, tier, seed)
    ld, _ = C.fresh_env()
    rep.functions = [ld.func_info("tools.fimo", f) for f in ("_fast_hits", "fimo", "_all_pwm_to_mapping", "_pwm_to_mapping", "logaddexp2")]
    cf = configs(tier)
    rep.bounds = {"fast_hits": "sequence lengths %s (incl. shorter than the motif and empty), motif widths %s, characters in {-1,0..3}, log-odds / thresholds / tables symbolic" % (
        [c["Ls"] for c in cf if c["kind"] == "hits"], [c["ws"] for c in cf if c["kind"] == "hits"]),
        "glue": "concrete PWMs (widths 2-3), symbolic one-hot sequences with unknown characters, B <= 2, L <= 4, both strands, dim 0/1, counts, reverse-complemented input"}
    rep.assumptions = ["numba kernel executed from its Python source: uint64 scalars are unbounded non-negative integers and range() of a negative count is empty (numba reinterprets the wrapped bound as negative)",
                       "prange iterations are executed sequentially (each motif writes only hits[k]); real thread scheduling, FASTA *parsing* (pyfaidx is modelled as an in-memory record list) and float32 rounding of the score threshold are outside the claim",
                       "table extents cover every window score (C11)"]
    rep.absorb(harness.run_configs("checks.C12", "worker", cf))
    rep.witness_ok = rep.stats["returned"] > 0
    return harness.finish(rep)
