"""C20 - greedy design never worsens the loss and takes the best substitution each step.

Engine A on the real design.greedy_substitution / _fast_tile_substitute with the real substitute,
one_hot_encode and predict underneath.  The starting sequence, the model (an uninterpreted function
of the sequence), the target, tol and max_iter are symbolic; the loss is the element-wise L1 loss
(piece-wise linear, so every comparison is decided in linear arithmetic).  The accepted steps are
observed by wrapping the `substitute` / `predict` names inside the loaded design module.
"""
import itertools
from fractions import Fraction

import numpy as np
import z3

from symtm import core, tensor as T, harness, nn
from symtm.core import SInt, ite, s_and, s_or, s_not, s_sum
from . import common as C
from .C01 import spec_substitute

PROP = "C20"
T_OUT = 2


class Unwind(BaseException):
    pass


def l1(a, b):
    return abs(a - b)


def _F(t, chars, A):
    feats = [core.zn(ite(ch == k, 1, 0)) for k in range(A) for ch in chars]
    feats = [z3.ToReal(f) if z3.is_int(f) else f for f in feats]
    f = z3.Function("G%d_%d" % (t, len(feats)), *([z3.RealSort()] * len(feats) + [z3.RealSort()]))
    return core.lift(f(*feats))


class SeqModel(nn.Module):
    def __init__(self, A):
        super().__init__()
        self.A = A
        self.w = nn.Parameter(np.array([1], dtype=object), dtype="float32")
        self.drop = nn.Dropout()          # a fresh module is in training mode: candidates must be scored in eval mode

    def forward(self, X):
        return self.drop(self._f(X))

    def _f(self, X):
        n, A, L = X.shape
        rows = []
        for i in range(n):
            feats = [core.zn(v) for v in X.a[i].flat]
            feats = [z3.ToReal(f) if z3.is_int(f) else f for f in feats]
            rows.append([core.lift(z3.Function("G%d_%d" % (t, len(feats)), *([z3.RealSort()] * len(feats) + [z3.RealSort()]))(*feats)) for t in range(T_OUT)])
        return T.Tensor(np.array(rows, dtype=object).reshape(n, T_OUT), dtype="float32")


MASK = [None]


def seq_loss(y, chars, A):
    sel_ = [t for t in range(T_OUT) if MASK[0] is None or MASK[0][t]]
    return s_sum([abs(y[t] - _F(t, chars, A)) for t in sel_]) * Fraction(1, len(sel_))


# ------------------------------------------------------------------ replay

def replay(r):
    """real torch: table model with the values of the solver's interpretation of the model function"""
    C.real_tangermeme()
    import torch
    from tangermeme.design import greedy_substitution
    A, x, motifs, table = r["A"], r["x"], r["motifs"], r["table"]
    L = len(x)
    alphabet = list(C.ALPHA[:A])

    class M(torch.nn.Module):
        def __init__(self):
            super().__init__()
            self.p = torch.nn.Parameter(torch.zeros(1, dtype=torch.float64))

            self.drop = torch.nn.Dropout(0.5)

        def forward(self, X):
            out = []
            for row in C.real_chars(X):
                out.append(table["".join(map(str, row))])
            return self.drop(torch.tensor(out, dtype=torch.float64))
    X = C.real_onehot([x], A).type(torch.float64)
    y = torch.tensor([r["y"]], dtype=torch.float64)
    loss = lambda a, b: (a - b).abs()

    msk = r.get("mask")
    sel_ = [t for t in range(T_OUT) if msk is None or msk[t]]

    def L_of(chars):
        return float(np.mean([abs(r["y"][t] - table["".join(map(str, chars))][t]) for t in sel_]))
    import tangermeme.design as rdes
    steps = []
    real_sub = rdes.substitute

    def sub_log(Xa, motif, start=None, alphabet=None):
        steps.append((motifs.index(motif), int(start), C.real_chars(Xa)[0]))
        return real_sub(Xa, motif, start=start, alphabet=alphabet)
    rdes.substitute = sub_log
    if r.get("history"):
        for m_ in motifs:
            real_sub(C.real_onehot([[0] * len(x)], A), m_, start=0, alphabet=alphabet[::-1])
    try:
        Xf = greedy_substitution(M(), X, motifs, y, loss=loss, mask=(None if msk is None else torch.tensor(msk)), tol=r["tol"], max_iter=r["max_iter"], alphabet=alphabet, device="cpu")
    except Exception as e:
        return True, "greedy_substitution raised %s: %s" % (type(e).__name__, e)
    finally:
        rdes.substitute = real_sub
    fin = C.real_chars(Xf)[0]
    if len(fin) != L or any(c < 0 for c in fin):
        return True, "result is not a valid one-hot sequence of the original length"
    if L_of(fin) > L_of(x) + 1e-12:
        return True, "final loss %.6g is higher than the starting loss %.6g" % (L_of(fin), L_of(x))
    mcs = [[alphabet.index(ch) for ch in m] for m in motifs]
    eps = 1e-9

    def cands(base):
        return [(mi, p, spec_substitute(base, mc, p)) for mi, mc in enumerate(mcs) for p in range(0, L - len(mc) + 1)]
    if r["max_iter"] >= 0 and len(steps) > r["max_iter"]:
        return True, "%d substitutions applied with max_iter=%d" % (len(steps), r["max_iter"])
    cur = list(x)
    for step in steps:
        mi, p, base = step
        if base != cur:
            return True, "substitution applied to an unexpected sequence"
        chosen = L_of(spec_substitute(base, mcs[mi], p))
        better = [(c[0], c[1]) for c in cands(base) if L_of(c[2]) < chosen - eps]
        if better:
            return True, "accepted step (motif %d at %d, loss %.6g) is not the best: %s give a smaller loss" % (mi, p, chosen, better)
        gain = L_of(base) - chosen
        if gain <= eps:
            return True, "step %d (motif %d at %d) was applied although it does not improve the current loss (%.6g -> %.6g)" % (len(steps), mi, p, L_of(base), chosen)
        if step is not steps[-1] and gain <= r["tol"] + eps:
            return True, "search continued after an improvement %.6g <= tol %.6g" % (gain, r["tol"])
        cur = spec_substitute(base, mcs[mi], p)
    if cur != fin:
        return True, "result differs from the starting sequence outside the substituted windows"
    # stop rule: unless the iteration cap was hit, no candidate may improve the final sequence's predecessor by more than tol
    n_eval_cap = r["max_iter"]
    last_base = steps[-1][2] if steps else cur
    # the run stopped after its last evaluation; if that evaluation declined, no improving candidate may exist for `cur`
    best_after = min([L_of(c[2]) for c in cands(cur)] + [L_of(cur)])
    if (n_eval_cap < 0 or len(steps) < n_eval_cap) and L_of(cur) - best_after > r["tol"] + eps:
        # a further improving step (> tol) existed: legitimate only if the last accepted step itself had improvement <= tol
        last_imp = (L_of(steps[-1][2]) - L_of(cur)) if steps else None
        if last_imp is None or last_imp > r["tol"] + eps:
            return True, "stopped although (motif, position) candidates improving the loss by more than tol remained"
    return False, "ok"


# ------------------------------------------------------------------ symbolic harness

def worker(cfg):
    ld, shims = C.fresh_env()
    des = ld.load("design")
    stats = core.Stats()
    out = {"violations": [], "samples": [], "unwound": 0}
    A, L, motifs, K = cfg["A"], cfg["L"], cfg["motifs"], cfg["K"]
    alphabet = list(C.ALPHA[:A])
    mcs = [[alphabet.index(ch) for ch in m] for m in motifs]
    real_sub, real_pred = des.substitute, des.predict

    def body(ctx):
        xc = C.sym_chars(ctx, "x", (1, L), A)
        X = C.onehot_from_chars(xc, A, dtype="float32")
        snap = X.a.copy()
        y = [core.Real("y%d" % t) for t in range(T_OUT)]
        Y = T.Tensor(np.array([y], dtype=object), dtype="float32")
        tol = core.Real("tol")
        ctx.assume(tol >= 0)
        max_iter = core.Int("max_iter")
        ctx.assume(s_and(max_iter >= -1, max_iter <= K))
        events = []

        def sub_wrap(Xa, motif, start=None, alphabet=None):
            events.append(("S", motifs.index(motif) if motif in motifs else -1, start))
            return real_sub(Xa, motif, start=start, alphabet=alphabet)

        def pred_wrap(model, Xa, **kw):
            events.append(("P", Xa.shape[0]))
            if sum(1 for e in events if e[0] == "P") > 1 + (K + 1) * len(motifs):
                raise Unwind()
            return real_pred(model, Xa, **kw)
        des.substitute, des.predict = sub_wrap, pred_wrap
        model = SeqModel(A)
        MASK[0] = cfg.get("mask")
        mask_t = None if cfg.get("mask") is None else T.Tensor(np.array(cfg["mask"], dtype=object), dtype="bool")

        def rp(m):
            table = {}
            for seq in itertools.product(range(A), repeat=L):
                table["".join(map(str, seq))] = [float(core.model_value(m, _F(t, list(seq), A))) for t in range(T_OUT)]
            return dict(cfg, x=C.eval_chars(m, xc)[0], y=[float(core.model_value(m, v)) for v in y], tol=float(core.model_value(m, tol)),
                        max_iter=core.model_value(m, max_iter), table=table)
        if cfg.get("history"):
            # an earlier design in the same process used the same motif strings with another alphabet ordering
            for m_ in motifs:
                real_sub(C.onehot_from_chars(np.zeros((1, L), dtype=object), A), m_, start=0, alphabet=alphabet[::-1])
        try:
            Xf = des.greedy_substitution(model, X, list(motifs), Y, loss=l1, mask=mask_t, tol=tol, max_iter=max_iter, alphabet=alphabet, device="cpu")
        except Unwind:
            out["unwound"] += 1
            return "raised"
        except Exception as e:
            if isinstance(e, core.Inconclusive):
                raise
            m = ctx.model() if ctx.check() == z3.sat else None
            key = "greedy:motif-as-long-as-sequence" if any(len(m_) == L for m_ in motifs) else "greedy:raises"
            out["violations"].append(C.violation(key, "greedy_substitution raised %s: %s" % (type(e).__name__, e), rp(m), replay))
            return "raised"
        finally:
            des.substitute, des.predict = real_sub, real_pred
        # reconstruct the observed run: sequence held at each evaluation, accepted steps
        cur = list(xc[0])
        seqs = [cur]
        steps = []
        n_eval = (sum(1 for e in events if e[0] == "P") - 1) // max(1, len(motifs))
        for e in events:
            if e[0] == "S":
                mi, st = e[1], e[2]
                stv = st.item() if isinstance(st, T.Arr) else st
                steps.append((mi, stv, cur))
                cur = spec_substitute(cur, mcs[mi], stv)
                seqs.append(cur)
        cl = [C.tensor_equals_chars(Xf, np.array([cur], dtype=object), A)]                # differs only inside substituted windows / valid one-hot
        cl.append(seq_loss(y, cur, A) <= seq_loss(y, list(xc[0]), A))                      # never worse than the start
        cl.append(s_or(max_iter == -1, len(steps) <= max_iter))
        cands = lambda base: [(mi, p, spec_substitute(base, mc, p)) for mi, mc in enumerate(mcs) for p in range(0, L - len(mc) + 1)]
        opt = []
        for mi, stv, base in steps:                                                         # each accepted step is an arg-min over ALL fitting candidates
            chosen = seq_loss(y, spec_substitute(base, mcs[mi], stv), A)
            opt.append(s_and(stv >= 0, stv + len(mcs[mi]) <= L, *[chosen <= seq_loss(y, c[2], A) for c in cands(base)]))
        # "as soon as": every accepted step strictly improves on the sequence held at that moment, and every evaluation that
        # was followed by another one had found an improvement above tol
        early = []
        for k, (mi, stv, base) in enumerate(steps):
            gain = seq_loss(y, base, A) - seq_loss(y, spec_substitute(base, mcs[mi], stv), A)
            early.append(gain > 0)
            if k < n_eval - 1:
                early.append(gain > tol)
        # stop rule: the loop ends at the iteration cap (n_eval == max_iter) or when the best improvement found by its
        # last evaluation is <= tol; an evaluation that declined to substitute must have had no improving candidate
        if n_eval >= 1:
            last_accepted = bool(events) and events[-1][0] == "S"
            last_base = steps[-1][2] if last_accepted else cur
            cs = cands(last_base)
            best = core.s_min(*[seq_loss(y, c[2], A) for c in cs]) if len(cs) > 1 else (seq_loss(y, cs[0][2], A) if cs else seq_loss(y, last_base, A))
            imp = seq_loss(y, last_base, A) - best
            stop = s_or(max_iter == n_eval, imp <= tol)
            if not last_accepted:
                opt.append(imp <= 0)
        else:
            stop = max_iter == 0
        m = ctx.prove(s_and(*cl), "valid one-hot / only substituted windows / loss not worse / <= max_iter steps")
        if m is not None:
            out["violations"].append(C.violation("greedy:result-invariants", "result invariants violated (one-hot / windows / loss not worse / iteration cap)", rp(m), replay))
        m = ctx.prove(s_and(*opt), "each accepted step is the arg-min over every fitting (motif, position)")
        if m is not None:
            out["violations"].append(C.violation("greedy:last-fitting-position-not-tried", "an accepted (or declined) step is not optimal over all fitting (motif, position) candidates", rp(m), replay))
        m = ctx.prove(s_and(*early), "continues only while the improvement exceeds tol")
        if m is not None:
            out["violations"].append(C.violation("greedy:continues-without-improvement", "a substitution was applied without improving the current loss, or the search continued after an improvement <= tol", rp(m), replay))
        m = ctx.prove(stop, "stop rule")
        if m is not None:
            out["violations"].append(C.violation("greedy:stop-rule", "stopped although the best available improvement exceeds tol and max_iter was not reached", rp(m), replay))
        if not C.same_objects(X.a, snap):
            out["violations"].append(C.violation("greedy:modifies-input", "input modified", rp(ctx.model() if ctx.check() == z3.sat else None), replay))
        if not out["samples"]:
            out["samples"].append({"cfg": cfg, "accepted_steps_on_path": [(mi, int(stv) if not isinstance(stv, core.Sym) else str(stv)) for mi, stv, _ in steps], "evaluations": n_eval})
        return "returned"

    core.explore(body, stats=stats, max_paths=30000, reset=ld.restore)
    out["stats"] = stats.as_dict()
    return out


def configs(tier):
    if tier == "quick":
        return [dict(A=2, L=3, motifs=["C"], K=2), dict(A=2, L=3, motifs=["CA", "A"], K=1), dict(A=2, L=4, motifs=["AC"], K=1),
                dict(A=3, L=3, motifs=["G", "CA"], K=1), dict(A=2, L=2, motifs=["CA"], K=1),
                dict(A=2, L=3, motifs=["C", "AC"], K=1, mask=[True, False]), dict(A=2, L=3, motifs=["CA", "A"], K=1, history=True)]
    return [dict(A=2, L=3, motifs=["C"], K=2), dict(A=2, L=3, motifs=["CA", "A"], K=2), dict(A=2, L=4, motifs=["AC"], K=2),
            dict(A=3, L=3, motifs=["G", "CA"], K=2), dict(A=2, L=2, motifs=["CA"], K=1), dict(A=2, L=5, motifs=["CAC", "A"], K=1),
            dict(A=3, L=4, motifs=["GC", "A", "CAG"], K=1), dict(A=4, L=4, motifs=["T", "GA"], K=1),
            dict(A=2, L=3, motifs=["C", "AC"], K=2, mask=[True, False]), dict(A=2, L=4, motifs=["CA"], K=1, mask=[False, True]), dict(A=2, L=3, motifs=["CA", "A"], K=1, history=True), dict(A=3, L=3, motifs=["G", "CA"], K=1, history=True)]


def main(tier, seed):
    rep = harness.Report(PROP, tier, seed)
    ld, _ = C.fresh_env()
    rep.functions = [ld.func_info("design", "greedy_substitution"), ld.func_info("design", "_fast_tile_substitute"), ld.func_info("ersatz", "substitute"),
                     ld.func_info("predict", "predict"), ld.func_info("utils", "one_hot_encode")]
    cf = configs(tier)
    res = harness.run_configs("checks.C20", "worker", cf)
    rep.absorb(res)
    rep.bounds = {"configs": cf, "max_iter": "symbolic in [-1, K]", "tol": "symbolic Real >= 0", "unwinding": "K+1 evaluations; paths that need more (max_iter = -1) are counted as outside the bound",
                  "paths_beyond_unwinding_bound": sum(r.get("unwound", 0) for r in res)}
    rep.assumptions = ["model = uninterpreted function of the sequence (exact arithmetic)", "loss = element-wise L1 (any user loss can be passed; L1 keeps the queries linear)",
                       "ties between equally good candidates: any minimiser accepted", "a step with 0 < improvement <= tol being applied before stopping is accepted (the statement does not forbid it)",
                       "single sequence (batch of 1), optional output mask, no args"]
    rep.witness_ok = rep.stats["returned"] > 0
    return harness.finish(rep)
