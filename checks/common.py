"""Shared pieces of the per-property harnesses."""
import os
import sys

import numpy as np
import z3

from symtm import core, tensor as T, env, loader, harness
from symtm.core import SInt, SBool, Sym, ite, Inconclusive

REPO = harness.REPO
ALPHA = "ACGTUVWXYZ"


def fresh_env(overrides=None):
    shims = env.standard_shims()
    ld = loader.Loader(shims, repo=REPO, overrides=overrides)
    core.DEFAULT_RESET[0] = ld.restore         # every explore() of this process resets the loaded modules' containers between paths
    return ld, shims


def sym_chars(ctx, name, shape, A, lo=0):
    """array (nested lists) of symbolic character codes in [lo, A)"""
    out = np.empty(shape, dtype=object)
    for c in np.ndindex(*shape):
        v = z3.Int("%s_%s" % (name, "_".join(map(str, c))))
        ctx.assume(z3.And(v >= lo, v < A))
        out[c] = SInt(v)
    return out


def onehot_from_chars(chars, A, cls=T.Tensor, dtype="int8", position_axis=-1):
    """chars: object array [..., L] of codes; returns Tensor [..., A, L] with If(code==c,1,0);
    a code of -1 gives an all-zero column (unknown character)"""
    chars = np.asarray(chars, dtype=object)
    shape = chars.shape[:-1] + (A, chars.shape[-1])
    a = np.empty(shape, dtype=object)
    for c in np.ndindex(*chars.shape):
        for k in range(A):
            a[c[:-1] + (k, c[-1])] = ite(chars[c] == k, 1, 0)
    return cls(a, dtype=dtype)


def eval_chars(model, chars):
    chars = np.asarray(chars, dtype=object)
    out = np.empty(chars.shape, dtype=object)
    for c in np.ndindex(*chars.shape):
        out[c] = core.model_value(model, chars[c])
    return out.tolist()


def real_onehot(chars, A, dtype=None):
    """concrete chars (nested list, -1 = N) -> real torch tensor [..., A, L]"""
    import torch
    ch = np.array(chars, dtype=np.int64)
    out = np.zeros(ch.shape[:-1] + (A, ch.shape[-1]), dtype=np.int8)
    for c in np.ndindex(*ch.shape):
        if ch[c] >= 0:
            out[c[:-1] + (int(ch[c]), c[-1])] = 1
    t = torch.from_numpy(out)
    return t if dtype is None else t.type(dtype)


def real_chars(t):
    """real one-hot tensor [..., A, L] -> nested list of codes (-1 for all-zero, -2 for invalid)"""
    a = t.detach().cpu().numpy()
    A = a.shape[-2]
    mv = np.moveaxis(a, -2, -1)
    out = np.empty(mv.shape[:-1], dtype=np.int64)
    for c in np.ndindex(*mv.shape[:-1]):
        col = mv[c]
        nz = np.nonzero(col)[0]
        if len(nz) == 0:
            out[c] = -1
        elif len(nz) == 1 and col[nz[0]] == 1:
            out[c] = nz[0]
        else:
            out[c] = -2
    return out.tolist()


def tensor_equals_chars(Y, exp_chars, A):
    """z3 claim: symbolic tensor Y [..., A, L] is the one-hot of exp_chars [..., L]"""
    exp_chars = np.asarray(exp_chars, dtype=object)
    if tuple(Y.shape) != exp_chars.shape[:-1] + (A, exp_chars.shape[-1]):
        return False
    cl = []
    for c in np.ndindex(*exp_chars.shape):
        for k in range(A):
            got = Y.a[c[:-1] + (k, c[-1])]
            cl.append(got == ite(exp_chars[c] == k, 1, 0))
    return core.s_and(*cl)


def same_objects(a, snap):
    return a.shape == snap.shape and all(a.flat[i] is snap.flat[i] for i in range(snap.size))


def real_tangermeme():
    """import the REAL package from REPO (real torch / numba) for replay"""
    if REPO not in sys.path:
        sys.path.insert(0, REPO)
    import tangermeme
    assert os.path.abspath(tangermeme.__file__).startswith(os.path.abspath(REPO)), tangermeme.__file__
    return tangermeme


_CONFIRMED = {}
REPLAY_CAP = 3


def violation(key, what, replay_input, replay_fn):
    """replay the concrete counterexample on the real build; returns the violation record.  Once a failure key has been
    confirmed REPLAY_CAP times in this worker process, further counterexamples of the same key are recorded without being
    replayed (reproduced = "skipped"); they never count on their own."""
    if _CONFIRMED.get(key, 0) >= REPLAY_CAP:
        return {"key": key, "what": what, "replay": replay_input, "reproduced": "skipped", "detail": "not replayed: this failure key was already confirmed %d times in this worker" % REPLAY_CAP}
    try:
        ok, detail = replay_fn(replay_input)
    except Exception as e:   # replay harness problem => not reproduced
        ok, detail = False, "replay raised %s: %s" % (type(e).__name__, e)
    if ok:
        _CONFIRMED[key] = _CONFIRMED.get(key, 0) + 1
    return {"key": key, "what": what, "replay": replay_input, "reproduced": bool(ok), "detail": detail}
