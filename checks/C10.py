"""C10 - variant-effect functions evaluate exactly the string-level edited sequences.

Engine A on the real substitution_effect / deletion_effect / insertion_effect (with the real
ersatz.insert underneath).  func is an identity recorder, so the assertions are about the tensors
that reach func.  Sequence contents and variant positions / characters are symbolic.
"""
import itertools

import numpy as np
import z3

from symtm import core, tensor as T, harness
from symtm.core import SInt, ite, s_and, s_or, s_not, s_sum
from . import common as C

PROP = "C10"


def ident(model, X, args=None, **kw):
    return X


# ------------------------------------------------------------------ string-level specs (generic: concrete or symbolic)

def spec_deletion(x, dels, left, M):
    """x: list of chars; dels: list of positions (may repeat); M: total to lose.
    returns list (length L-M) of chars, each an ite-sum over source positions"""
    L = len(x)
    deleted = [s_or(*[d == p for d in dels]) if dels else False for p in range(L)]
    nd = s_sum([ite(deleted[p], 1, 0) for p in range(L)])
    extra = M - nd
    kept = []
    for p in range(L):
        if left:
            before = s_sum([ite(deleted[q], 0, 1) for q in range(p)])       # undeleted strictly left of p
            trimmed = before < extra
        else:
            after = s_sum([ite(deleted[q], 0, 1) for q in range(p + 1, L)])
            trimmed = after < extra
        kept.append(s_and(s_not(deleted[p]), s_not(trimmed)))
    out = []
    for j in range(L - M):
        r = -5
        for p in range(L):
            rank = s_sum([ite(kept[q], 1, 0) for q in range(p)])
            r = ite(s_and(kept[p], rank == j), x[p], r)
        out.append(r)
    return out


def spec_insertion(x, ins, left):
    """ins: list of (concrete position, char) with distinct positions; returns list of length L"""
    L = len(x)
    s = []
    for q in range(L):
        for j, ch in ins:
            if j == q:
                s.append(ch)
        s.append(x[q])
    return s[-L:] if left else s[:L]


def spec_substitution(x, subs):
    out = list(x)
    for p in range(len(x)):
        for pos, ch in subs:
            out[p] = ite(pos == p, ch, out[p])
    return out


# ------------------------------------------------------------------ replay

def replay(r):
    C.real_tangermeme()
    import torch
    from tangermeme import variant_effect as ve
    A, x, kind, rows, left = r["A"], r["x"], r["kind"], r["rows"], r.get("left", False)
    B, L = len(x), len(x[0])
    X = C.real_onehot(x, A)
    if r.get("xdtype"):
        X = X.type(getattr(torch, r["xdtype"]))
    X0 = X.clone()
    V = torch.tensor(rows, dtype=torch.int64).reshape(len(rows), 2 if kind == "deletion" else 3)
    f = lambda model, X, args=None, **kw: X
    valid = all(0 <= row[0] < B and 0 <= row[1] < L for row in rows)
    if kind != "deletion":
        valid = valid and all(0 <= row[2] < A for row in rows)
    try:
        if kind == "substitution":
            yb, ya = ve.substitution_effect(None, X, V, func=f)
        elif kind == "deletion":
            yb, ya = ve.deletion_effect(None, X, V, left=left, func=f)
        else:
            yb, ya = ve.insertion_effect(None, X, V, left=left, func=f)
    except Exception as e:
        if valid:
            return True, "raised %s: %s on a variant list that can be honoured" % (type(e).__name__, e)
        return False, "raised as expected"
    if not valid:
        return True, "returned for a variant list that cannot be honoured (position/character out of range)"
    if not torch.equal(X, X0):
        return True, "input modified"
    got_b, got_a = C.real_chars(yb), C.real_chars(ya)
    if kind == "substitution":
        exp_a = [spec_substitution(x[i], [(row[1], row[2]) for row in rows if row[0] == i]) for i in range(B)]
        exp_b = x
    elif kind == "deletion":
        M = max(len({row[1] for row in rows if row[0] == i}) for i in range(B))
        exp_a = [spec_deletion(x[i], [row[1] for row in rows if row[0] == i], left, M) for i in range(B)]
        exp_b = [xi[M:] if left else xi[:L - M] for xi in x]
    else:
        exp_a = [spec_insertion(x[i], [(row[1], row[2]) for row in rows if row[0] == i], left) for i in range(B)]
        exp_b = x
    if got_a != exp_a:
        return True, "edited sequences reaching func: %s, expected %s" % (got_a, exp_a)
    if got_b != exp_b:
        return True, "'before' sequences reaching func: %s, expected %s" % (got_b, exp_b)
    return False, "ok"


# ------------------------------------------------------------------ symbolic harness

def worker(cfg):
    ld, shims = C.fresh_env()
    ve = ld.load("variant_effect")
    stats = core.Stats()
    out = {"violations": [], "samples": []}
    A, B, L, kind, ex, left = cfg["A"], cfg["B"], cfg["L"], cfg["kind"], cfg["examples"], cfg.get("left", False)
    nrows = len(ex)

    def body(ctx):
        xc = C.sym_chars(ctx, "x", (B, L), A)
        X = C.onehot_from_chars(xc, A, dtype=cfg.get("xdtype", "int8"))      # the caller's dtype (a conversion to the same dtype is the same object)
        snap = X.a.copy()
        pos = [core.Int("p%d" % r) for r in range(nrows)]
        chs = [core.Int("c%d" % r) for r in range(nrows)]
        for r in range(nrows):
            ctx.assume(s_and(pos[r] >= 0, pos[r] <= L))             # L itself = first invalid position
            ctx.assume(s_and(chs[r] >= 0, chs[r] <= (A if cfg.get("bad_char") else A - 1)))
        for r, s in itertools.combinations(range(nrows), 2):
            if ex[r] == ex[s]:
                if kind == "substitution":
                    ctx.assume(s_or(pos[r] != pos[s], chs[r] == chs[s]))
                elif kind == "insertion":
                    ctx.assume(pos[r] != pos[s])
        if kind == "deletion":
            V = T.Tensor(np.array([[ex[r], pos[r]] for r in range(nrows)], dtype=object).reshape(nrows, 2), dtype="int64")
        else:
            V = T.Tensor(np.array([[ex[r], pos[r], chs[r]] for r in range(nrows)], dtype=object).reshape(nrows, 3), dtype="int64")
        valid = s_and(*[pos[r] < L for r in range(nrows)], *([chs[r] < A for r in range(nrows)] if kind != "deletion" else []))

        def rp(m):
            rows = [[ex[r], core.model_value(m, pos[r])] + ([core.model_value(m, chs[r])] if kind != "deletion" else []) for r in range(nrows)]
            return dict(cfg, x=C.eval_chars(m, xc), rows=rows)
        try:
            if kind == "substitution":
                yb, ya = ve.substitution_effect(None, X, V, func=ident)
            elif kind == "deletion":
                yb, ya = ve.deletion_effect(None, X, V, left=left, func=ident)
            else:
                yb, ya = ve.insertion_effect(None, X, V, left=left, func=ident)
        except (ValueError, IndexError, RuntimeError) as e:
            m = ctx.prove(s_not(valid), "raised => variant list cannot be honoured")
            if m is not None:
                out["violations"].append(C.violation("%s_effect:raises-on-valid" % kind, "%s_effect raised %s: %s for an honourable variant list" % (kind, type(e).__name__, e), rp(m), replay))
            return "raised"
        m = ctx.prove(valid, "returned => variant list valid")
        if m is not None:
            out["violations"].append(C.violation("%s_effect:accepts-invalid" % kind, "%s_effect returned for an out-of-range variant" % kind, rp(m), replay))
            return "returned"
        if not C.same_objects(X.a, snap):
            m = ctx.prove(s_and(*[X.a.flat[i] == snap.flat[i] for i in range(snap.size)]), "input unchanged")
            if m is not None:
                out["violations"].append(C.violation("%s_effect:modifies-input" % kind, "input tensor modified", rp(m), replay))
        if kind == "substitution":
            exp_a = np.array([spec_substitution(list(xc[i]), [(pos[r], chs[r]) for r in range(nrows) if ex[r] == i]) for i in range(B)], dtype=object)
            exp_b = xc
        elif kind == "deletion":
            Mi = [s_sum([ite(s_or(*[pos[r] == p for r in range(nrows) if ex[r] == i]), 1, 0) if any(ex[r] == i for r in range(nrows)) else 0 for p in range(L)]) for i in range(B)]
            M = core.s_max(*Mi) if len(Mi) > 1 else Mi[0]
            n_out = ya.shape[-1]
            mm = ctx.prove(M == L - n_out, "output length == L - max deletions")
            if mm is not None:
                key = _del_key(rp(mm), left)
                out["violations"].append(C.violation(key, "deletion_effect output length is not L - max #deletions", rp(mm), replay))
                return "returned"
            Mc = L - n_out
            exp_a = np.array([spec_deletion(list(xc[i]), [pos[r] for r in range(nrows) if ex[r] == i], left, Mc) for i in range(B)], dtype=object)
            exp_b = np.array([list(xc[i][Mc:]) if left else list(xc[i][:L - Mc]) for i in range(B)], dtype=object)
        else:
            mdl = ctx.model() if ctx.check() == z3.sat else None
            pv = [core.model_value(mdl, pos[r]) for r in range(nrows)]
            pin = ctx.prove(s_and(*[pos[r] == pv[r] for r in range(nrows)]), "positions concretised on this path")
            if pin is not None:
                raise core.Inconclusive("insertion positions not determined by the path condition")
            exp_a = np.array([spec_insertion(list(xc[i]), [(pv[r], chs[r]) for r in range(nrows) if ex[r] == i], left) for i in range(B)], dtype=object)
            exp_b = xc
        m = ctx.prove(C.tensor_equals_chars(ya, exp_a, A), "edited tensors == string-level edit")
        if m is not None:
            key = _del_key(rp(m), left) if kind == "deletion" else "%s_effect:wrong-edit" % kind
            out["violations"].append(C.violation(key, "%s_effect passes a differently edited sequence to func" % kind, rp(m), replay))
        m = ctx.prove(C.tensor_equals_chars(yb, exp_b, A), "'before' tensors == trimmed reference")
        if m is not None:
            out["violations"].append(C.violation("%s_effect:wrong-before" % kind, "%s_effect 'before' input is not the reference trimmed from the same side" % kind, rp(m), replay))
        if not out["samples"]:
            out["samples"].append({"cfg": cfg, "path": "returned"})
        return "returned"

    core.explore(body, stats=stats, max_paths=60000)
    out["stats"] = stats.as_dict()
    return out


def _del_key(r, left):
    """a deleted position lying on the flank that is trimmed (the rightmost positions for left=False)"""
    L = len(r["x"][0])
    B = len(r["x"])
    sets = [sorted({row[1] for row in r["rows"] if row[0] == i}) for i in range(B)]
    on_flank = any((s and ((s[0] == 0) if left else (s[-1] == L - 1))) for s in sets)
    return "deletion_effect:deleted-position-on-trimmed-flank-kept" if on_flank else "deletion_effect:wrong-edit"


def configs(tier):
    cf = []
    if tier == "quick":
        Ls, pats = (4, 5), {1: [[0], [0, 0], [0, 0, 0]], 2: [[0], [0, 1], [0, 0, 1], [1, 1]]}
    else:
        Ls, pats = (4, 6, 7), {1: [[0], [0, 0], [0, 0, 0]], 2: [[0], [0, 1], [0, 0, 1], [1, 1], [0, 0, 1, 1]], 3: [[0, 1, 2], [2, 2, 0], [1]]}
    for kind in ("substitution", "deletion", "insertion"):
        for L in Ls:
            for B, ps in pats.items():
                for ex in ps:
                    for left in ((False, True) if kind != "substitution" else (False,)):
                        if len(ex) >= 4 and L > 6:
                            continue
                        cf.append(dict(kind=kind, A=2 if len(ex) > 2 else 3, B=B, L=L, examples=ex, left=left))
    # the caller's tensor in other dtypes (a dtype "conversion" to the dtype a tensor already has returns the tensor itself)
    for kind in ("substitution", "deletion", "insertion"):
        for k_, dt in enumerate(("float32", "float64", "int64", "float16", "int32", "uint8") if tier != "quick" else ("float32", "float64", "int64")):
            cf.append(dict(kind=kind, A=3, B=2, L=4, examples=[0, 1] if k_ % 2 == 0 else [1, 1], left=(k_ % 2 == 1) and kind != "substitution", xdtype=dt))
    cf.append(dict(kind="substitution", A=2, B=1, L=3, examples=[0, 0], bad_char=True))
    cf.append(dict(kind="insertion", A=2, B=1, L=3, examples=[0], bad_char=True))
    return cf


def validate_model():
    """environment-model validation: concrete variant lists through the real source on the model vs real torch"""
    C.real_tangermeme()
    import torch
    from tangermeme import variant_effect as rve
    ld, _ = C.fresh_env()
    sve = ld.load("variant_effect")
    n = 0
    x = [[0, 1, 2, 1, 0, 2], [2, 2, 1, 0, 0, 1]]
    cases = [("deletion", [[0, 1], [0, 3], [1, 2]], False), ("deletion", [[0, 1], [1, 3], [1, 2]], True), ("deletion", [[0, 5]], False), ("deletion", [[1, 0]], True),
             ("insertion", [[0, 1, 2], [0, 4, 0], [1, 0, 1]], False), ("insertion", [[1, 5, 2], [0, 2, 0]], True), ("insertion", [[0, 6, 1]], False),
             ("substitution", [[0, 1, 2], [1, 5, 0], [1, 0, 0]], False), ("substitution", [[0, 7, 2]], False)]
    f = lambda model, X, args=None, **kw: X
    for kind, rows, left in cases:
        Xr = C.real_onehot(x, 3)
        Vr = torch.tensor(rows)
        try:
            if kind == "substitution":
                rb, ra = getattr(rve, kind + "_effect")(None, Xr, Vr, func=f)
            else:
                rb, ra = getattr(rve, kind + "_effect")(None, Xr, Vr, left=left, func=f)
            real = (rb.to(torch.int64).tolist(), ra.to(torch.int64).tolist())
        except (ValueError, IndexError, RuntimeError) as e:
            real = "raised"
        res = {}

        def body(ctx):
            Xs = C.onehot_from_chars(np.array(x, dtype=object), 3)
            Vs = T.Tensor(np.array(rows, dtype=object), dtype="int64")
            try:
                if kind == "substitution":
                    sb, sa = getattr(sve, kind + "_effect")(None, Xs, Vs, func=ident)
                else:
                    sb, sa = getattr(sve, kind + "_effect")(None, Xs, Vs, left=left, func=ident)
                res["s"] = ([[[int(v) for v in r] for r in m] for m in sb.a.tolist()], [[[int(v) for v in r] for r in m] for m in sa.a.tolist()])
            except (ValueError, IndexError, RuntimeError) as e:
                res["s"] = "raised"
        core.explore(body)
        if res["s"] != real:
            raise core.Inconclusive("environment model disagrees with real torch on %s %s left=%s: %s vs %s" % (kind, rows, left, res["s"], real))
        n += 1
    return n


def main(tier, seed):
    rep = harness.Report(PROP, tier, seed)
    ld, _ = C.fresh_env()
    rep.functions = [ld.func_info("variant_effect", f) for f in ("substitution_effect", "deletion_effect", "insertion_effect")] + [ld.func_info("ersatz", "insert")]
    cf = configs(tier)
    rep.bounds = {"L": sorted({c["L"] for c in cf}), "B": sorted({c["B"] for c in cf}), "variant_rows": "up to %d, example assignment patterns enumerated, every position in [0, L] and character symbolic" % max(len(c["examples"]) for c in cf),
                  "trim_side": "both"}
    rep.assumptions = ["func is an identity recorder (the claim is about the tensors reaching func)", "variant positions are non-negative (negative indexing is not addressed by the statement)",
                       "substitution rows naming the same position carry the same character; insertion positions of one example are distinct",
                       "deleted positions form a set (duplicate rows count once)"]
    rep.absorb(harness.run_configs("checks.C10", "worker", cf))
    rep.witness_ok = rep.stats["returned"] > 0 and rep.stats["raised"] > 0
    rep.run_validation(validate_model)
    return harness.finish(rep)
