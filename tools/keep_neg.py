"""usage: keep_neg.py Cxx <src dir> <name> <outcome: silent|silent-after-model-extension> "<what happened>"  -> /verif/seeded_negative/<name>/
A negative seed is a behaviour-preserving change written by an independent sub-agent: the check must stay silent (exit 0) on it."""
import json, os, shutil, sys
pid, src, name, outcome, report = sys.argv[1:6]
dst = os.path.join("/verif/seeded_negative", name)
os.makedirs(dst, exist_ok=True)
shutil.copy(os.path.join(src, "patch.diff"), dst)
shutil.copy(os.path.join(src, "demo.py"), os.path.join(dst, "demo.py"))
notes = open(os.path.join(src, "notes.txt")).read() if os.path.exists(os.path.join(src, "notes.txt")) else ""
meta = {"property": pid, "kind": "behaviour-preserving change (negative seed)", "source": "independent sub-agent given only the property text and a scratch worktree",
        "what_was_rewritten": notes.strip(),
        "confirmed": "tools/negtest.sh: demo.py (a check of the property) exits 0 on a clean scratch worktree of /repo and with patch.diff applied; the sub-agent ran a randomized differential test against the original and the relevant pytest files",
        "check_run": "./check %s --tier quick against the patched scratch worktree (TANGERMEME_REPO): must exit 0" % pid,
        "outcome": outcome, "check_report": report}
json.dump(meta, open(os.path.join(dst, "meta.json"), "w"), indent=1)
print("kept", dst)
