#!/bin/bash
# usage: tools/seedbatch.sh Cxx <tag> [pytest files...]   - runs tools/seedtest.sh on /tmp/mut_Cxx<tag>/m1..m3
P=$1; TAG=$2; shift 2
for m in 1 2 3; do
  d=/tmp/mut_${P}${TAG}/m$m
  [ -f $d/patch.diff ] || continue
  echo "== $P$TAG m$m"; tools/seedtest.sh $P $d "$@"
done
