#!/bin/bash
# usage: tools/seedtest.sh Cxx <mutant dir with patch.diff demo.py> [pytest files...]
# Confirms a seeded change in a scratch worktree of /repo (demo passes clean, fails patched, given tests pass patched)
# and runs the property's check against the patched worktree. The worktree is removed afterwards.
P=$1; M=$2; shift 2; TESTS="$@"
D=$(mktemp -d /tmp/seedwt.XXXXXX); rmdir $D
git -C /repo worktree add -q $D HEAD || exit 2
cd $D
/venv/bin/python $M/demo.py >/dev/null 2>&1; CLEAN=$?
git apply $M/patch.diff || { echo "PATCH-DOES-NOT-APPLY"; cd /; git -C /repo worktree remove --force $D; exit 2; }
/venv/bin/python $M/demo.py >/dev/null 2>&1; PATCHED=$?
TR="skipped"
if [ -n "$TESTS" ]; then TR=$(/venv/bin/python -m pytest -q -p no:cacheprovider $TESTS 2>&1 | tail -1); fi
echo "demo clean=$CLEAN patched=$PATCHED tests: $TR"
cd /verif
cp evidence/$P.json /tmp/seed_$P.bak 2>/dev/null
TANGERMEME_REPO=$D NUMBA_CACHE_DIR=$D/.nb ./check $P --tier ${TIER:-quick} 2>&1 | grep -E "VIOLATION|KNOWN|HARNESS|^OK|^FAIL" | cut -c1-300 | head -6
cp /tmp/seed_$P.bak evidence/$P.json 2>/dev/null
git -C /repo worktree remove --force $D
