#!/bin/bash
# usage: tools/revtest.sh Cxx <fix-commit> [tier]
# copies /repo/tangermeme to a scratch dir, reverse-applies one `fix:` commit of /repo there (the defect returns), runs the
# check against it (TANGERMEME_REPO) and prints the verdict; the scratch dir is removed.  Never touches /repo.
P=$1; CMT=$2; TIER=${3:-quick}
D=$(mktemp -d /tmp/rev.XXXXXX)
cp -r /repo/tangermeme $D/tangermeme
git -C /repo show $CMT -- tangermeme | (cd $D && patch -R -p1 -s) || { echo "REVERT-DOES-NOT-APPLY"; rm -rf $D; exit 2; }
cd /verif
mkdir -p /tmp/mut_evidence
cp evidence/$P.json /tmp/mut_evidence/$P.json.bak 2>/dev/null
TANGERMEME_REPO=$D NUMBA_CACHE_DIR=$D/.nb ./check $P --tier $TIER 2>&1 | grep -E "VIOLATION|KNOWN|HARNESS|^OK|^FAIL" | cut -c1-400
cp /tmp/mut_evidence/$P.json.bak evidence/$P.json 2>/dev/null
rm -rf $D
