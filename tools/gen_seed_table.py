"""Rewrites the seeded-change table in DESIGN.md (between the SEED-TABLE markers) from seeded/*/meta.json."""
import glob, json, os, re
V = os.path.dirname(os.path.dirname(os.path.abspath(__file__)))
rows = []
for f in sorted(glob.glob(os.path.join(V, "seeded", "*", "meta.json"))):
    m = json.load(open(f))
    name = os.path.basename(os.path.dirname(f))
    need = " ".join(m["needs_to_manifest"].split())[:260].replace("|", "/")
    rep = " ".join(m["check_report"].split())[:330].replace("|", "/")
    rows.append("| %s | %s | %s | %s |" % (name, m["detected"], need, rep))
table = "| seed | detected | change / what it needs to manifest | what the check reports |\n|---|---|---|---|\n" + "\n".join(rows)
p = os.path.join(V, "DESIGN.md")
s = open(p).read()
s = re.sub(r"<!-- SEED-TABLE-BEGIN -->.*<!-- SEED-TABLE-END -->", "<!-- SEED-TABLE-BEGIN -->\n" + table.replace("\\", "\\\\") + "\n<!-- SEED-TABLE-END -->", s, flags=re.S)
det0 = [json.load(open(f))["detected"] for f in glob.glob(os.path.join(V, "seeded", "*", "meta.json"))]
s = re.sub(r"\d+ changes were written by sub-agents", "%d changes were written by sub-agents" % len(det0), s)
s = re.sub(r"First-run outcome: \d+ detected as written, \d+ detected only after the check was strengthened", "First-run outcome: %d detected as written, %d detected only after the check was strengthened" % (det0.count("yes"), det0.count("after-strengthening")), s)
open(p, "w").write(s)
det = [json.load(open(f))["detected"] for f in glob.glob(os.path.join(V, "seeded", "*", "meta.json"))]
print(len(rows), {k: det.count(k) for k in set(det)})
