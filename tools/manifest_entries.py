PENDING_REASON = "check not built yet in this round (planned in DESIGN.md section 4); not claimed until its harness exists and passes"
NA = {}
COMMON_NOTE = ("Trusted base: the object-array environment model of torch/numpy/numba (symtm/tensor.py, env.py, nn.py), validated on every run by "
               "differential concrete runs against the real libraries and by replaying every counterexample on the real build; z3 5.1. "
               "Floating-point rounding, dtype casts, devices and sizes beyond the stated bounds are outside the claim.")
ENTRIES = {
 "C01": dict(
  technique="bounded symbolic execution (engine A, z3): real ersatz source on symbolic one-hot tensors, unbounded integer positions",
  text="Every feasible path of the real substitute/insert/delete/multisubstitute/randomize (+_validate_input, one_hot_encode, random_one_hot) is executed on symbolic sequence/motif characters and unbounded symbolic integer positions; per path z3 proves returned => span inside & output == string-level edit & input unchanged, raised => span not inside. All inputs inside the bounds (A<=4 quick/6 thorough, L<=5/6, w<=3/4, B<=2/3) are covered, positions are unbounded.",
  note=COMMON_NOTE + " insert() rejecting starts in (L-w, L] and randomize() rejecting end==L are accepted as stricter-than-required."),
}
