PENDING_REASON = "check not built yet in this round (planned in DESIGN.md section 4); not claimed until its harness exists and passes"
NA = {}
COMMON_NOTE = ("Trusted base: the object-array environment model of torch/numpy/numba (symtm/tensor.py, env.py, nn.py), validated on every run by "
               "differential concrete runs against the real libraries and by replaying every counterexample on the real build; z3 5.1. "
               "Floating-point rounding, dtype casts, devices and sizes beyond the stated bounds are outside the claim.")
ENTRIES = {
 "C01": dict(
  technique="bounded symbolic execution (engine A, z3): real ersatz source on symbolic one-hot tensors, unbounded integer positions",
  text="Every feasible path of the real substitute/insert/delete/multisubstitute/randomize (+_validate_input, one_hot_encode, random_one_hot) is executed on symbolic sequence/motif characters and unbounded symbolic integer positions; per path z3 proves returned => span inside & output == string-level edit & input unchanged, raised => span not inside. All inputs inside the bounds (A<=4 quick/6 thorough, L<=5/6, w<=3/4, B<=2/3) are covered, positions are unbounded.",
  note=COMMON_NOTE + " insert() rejecting starts in (L-w, L] and randomize() rejecting end==L are accepted as stricter-than-required."),
 "C03": dict(
  technique="bounded symbolic execution (engine A, z3): real predict() with symbolic batch size and an uninterpreted row-wise model",
  text="The real predict() runs with batch_size an unbounded symbolic Int >= 1 (the solver enumerates every effective batch size 1..n, all b >= n being one path), fully symbolic X/args and a model whose per-row output is an uninterpreted function; z3 proves each output row i == F(X[i], args[.][i]) in order, eval mode and gradients off at every forward, inputs untouched, misaligned args rejected. n <= 6 quick / 12 thorough, 0-3 args, tensor/tuple/list outputs.",
  note=COMMON_NOTE + " The model is any deterministic row-wise function (uninterpreted); batch-coupled layers are represented only by the training-flag observation."),
 "C15": dict(
  technique="bounded symbolic execution (engine A, z3): real utils encode/decode/reverse-complement/chunk/unchunk on symbolic bytes, tensor contents, chunk size and overlap",
  text="one_hot_encode/_fast_one_hot_encode/characters run on strings whose bytes are symbolic (0..127): accepted <=> all bytes in alphabet+ignore, encoding is the exact indicator, characters() inverts it (ignored -> N); reverse_complement tensor form is the involutive complement-reverse and agrees with the string form for all strings over ACGTN up to the bound; unchunk(chunk(X)) reproduces every position covered by a complete chunk for symbolic contents and every (size, overlap) with 1, 2, 3 and more chunks (size/overlap are symbolic Ints enumerated by the solver).",
  note=COMMON_NOTE + " ASCII bytes only; string length <= 3 quick / 4 thorough; sequence-length sets listed in evidence."),
 "C10": dict(
  technique="bounded symbolic execution (engine A, z3): real variant_effect functions with symbolic sequences and symbolic variant positions/characters",
  text="substitution_effect / deletion_effect / insertion_effect (with the real ersatz.insert) run with func = identity recorder, symbolic sequence contents and symbolic variant positions in [0, L] and characters; the solver enumerates every position combination (<= 3 rows quick / 4 thorough, B <= 2/3, L <= 5/7, both trim sides) and proves the tensors reaching func equal the string-level edit (If-sum specification of deletion+equalising trim), the 'before' tensor is the reference trimmed from the same side, examples do not interact, out-of-range variants raise.",
  note=COMMON_NOTE + " Non-negative positions; conflicting substitution rows and duplicate insertion positions excluded by assumption."),
 "C09": dict(
  technique="bounded symbolic execution (engine A, z3): real saturation_mutagenesis with symbolic sequences, window, batch size and an uninterpreted model",
  text="saturation_mutagenesis/_edit_distance_one/_attribution_score run over the real predict with symbolic one-hot sequences and args, every window 0 <= start < end <= L (symbolic, enumerated by the solver) plus the default, symbolic batch size, tensor- and tuple-output uninterpreted models; z3 proves y0 == F(X), y_hat[n,c,p-start] == F(X[n] with p:=c, args[n]) for every output, and the attribution output equals the documented formula (centred difference, mean over selected targets, masked unless hypothetical) written independently in exact rationals for target None/int/slice.",
  note=COMMON_NOTE + " A <= 4, L <= 4, B <= 2 quick; A <= 5, L <= 6 thorough."),
 "C08": dict(
  technique="bounded symbolic execution (engine A, z3): real perturbation wrappers over real substitute/multisubstitute/shuffle/predict with an uninterpreted model and symbolic shuffle permutations",
  text="marginalize, marginalize_annotations, ablate, ablate_annotations, space, apply_pairwise, apply_product run on symbolic sequences/motifs/args, symbolic positions, windows, spacing rows, annotation rows, seeds and batch size, with the RNG modelled as arbitrary permutations named by (seed, call index) and the model an uninterpreted row-wise function with 1-2 outputs; z3 proves 'before' == F(X, args) and every 'after'/product entry == F(the harness's own string-level edit of the example its index denotes, that example's args).",
  note=COMMON_NOTE + " func = predict only; small shapes (B <= 2-3, L <= 4-6, n shuffles <= 3, <= 3 annotations, product sets <= 3x2(x2)); *_annotations without extra args."),
 "C18": dict(
  technique="bounded symbolic execution (engine A, z3): real annotate counting functions and kmers on symbolic annotation tables / sequences vs If-sum enumeration",
  text="count_annotations (all dim modes, explicit shape), pairwise_annotations (symmetric or not), pairwise_annotations_spacing and kmers (with and without scores) run on tables whose every field (example, type, start, end) is symbolic and on symbolic sequences/scores; symbolic indices go through guarded stores (numpy negative-index wrap and IndexError modelled); z3 proves every entry equals brute-force counting written as sums of If terms, including that overlapping or too-distant pairs contribute nothing.",
  note=COMMON_NOTE + " <= 3 rows quick / 4 thorough, <= 2 examples, <= 3 types, coordinates <= 6, max_distance <= 3; kmers A <= 4, L <= 5, k <= 3; tensor input form only."),
 "C20": dict(
  technique="bounded symbolic execution (engine A, z3): real greedy_substitution with an uninterpreted model, symbolic target, tol and max_iter; step optimality proved against every fitting candidate",
  text="greedy_substitution/_fast_tile_substitute run over the real substitute, one_hot_encode and predict on a symbolic starting sequence, a model that is an uninterpreted function of the sequence, symbolic target, tol >= 0 and max_iter in [-1, K]; accepted steps are observed through the module's own substitute/predict names. Per path z3 proves: result is the start with exactly the observed windows overwritten (valid one-hot, same length), final loss <= starting loss, #steps <= max_iter, every accepted step is an arg-min over ALL (motif, position) with 0 <= p <= L-len(motif), a declined evaluation had no improving candidate, every continued evaluation improved by more than tol, and the run ended at the cap or with improvement <= tol.",
  note=COMMON_NOTE + " L1 loss (piece-wise linear); L <= 4 quick / 5 thorough, <= 3 motifs, unwinding K+1 evaluations (K <= 2): paths needing more are counted in evidence as outside the bound."),
}
