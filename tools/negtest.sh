#!/bin/bash
# usage: tools/negtest.sh Cxx <dir with patch.diff demo.py> [pytest files...]
# A behaviour-preserving change (negative seed): demo must pass clean AND patched, the given tests must pass patched, and
# the property's check must exit 0 against the patched scratch worktree.  The worktree is removed afterwards.
P=$1; M=$2; shift 2; TESTS="$@"; export OMP_NUM_THREADS=2
D=$(mktemp -d /tmp/negwt.XXXXXX); rmdir $D
git -C /repo worktree add -q $D HEAD || exit 2
cd $D
/venv/bin/python $M/demo.py >/dev/null 2>&1; CLEAN=$?
git apply $M/patch.diff || { echo "PATCH-DOES-NOT-APPLY"; cd /; git -C /repo worktree remove --force $D; exit 2; }
/venv/bin/python $M/demo.py >/dev/null 2>&1; PATCHED=$?
TR="skipped"
if [ -n "$TESTS" ]; then TR=$(/venv/bin/python -m pytest -q -p no:cacheprovider $TESTS 2>&1 | tail -1); fi
echo "demo clean=$CLEAN patched=$PATCHED tests: $TR"
cd /verif
cp evidence/$P.json /tmp/seed_$P.bak 2>/dev/null
TANGERMEME_REPO=$D NUMBA_CACHE_DIR=$D/.nb ./check $P --tier ${TIER:-quick} > /tmp/neg_$P.log 2>&1; RC=$?
grep -E "VIOLATION|KNOWN|HARNESS|^OK|^FAIL" /tmp/neg_$P.log | cut -c1-400 | head -6
echo "check exit=$RC"
cp /tmp/seed_$P.bak evidence/$P.json 2>/dev/null
git -C /repo worktree remove --force $D
