#!/bin/bash
# usage: tools/mutest.sh Cxx file 'python-regex' 'replacement' [tier]
# copies /repo/tangermeme to a scratch dir, applies one textual mutation, runs the check against it
# (TANGERMEME_REPO), prints the verdict, removes the scratch dir.  Never touches /repo.
P=$1; F=$2; PAT=$3; REP=$4; TIER=${5:-quick}
D=$(mktemp -d /tmp/mut.XXXXXX)
cp -r /repo/tangermeme $D/tangermeme
/venv/bin/python - "$D/tangermeme/$F" "$PAT" "$REP" <<'PY'
import re, sys
p, pat, rep = sys.argv[1:4]
s = open(p).read()
n = len(re.findall(pat, s))
if n != 1:
    print("MUTATION-ERROR pattern matched %d times" % n); sys.exit(2)
open(p, "w").write(re.sub(pat, rep, s))
PY
[ $? -ne 0 ] && { rm -rf $D; exit 2; }
cd /verif
mkdir -p /tmp/mut_evidence
cp evidence/$P.json /tmp/mut_evidence/$P.json.bak 2>/dev/null
TANGERMEME_REPO=$D NUMBA_CACHE_DIR=$D/.nb ./check $P --tier $TIER 2>&1 | grep -E "VIOLATION|KNOWN|HARNESS|^OK|^FAIL" | cut -c1-400
cp /tmp/mut_evidence/$P.json.bak evidence/$P.json 2>/dev/null
rm -rf $D
