"""Regenerates MANIFEST.json from tools/manifest_entries.py (claimed checks) + properties.jsonl."""
import json, os, sys
sys.path.insert(0, os.path.dirname(os.path.dirname(os.path.abspath(__file__))))
from tools.manifest_entries import ENTRIES, PENDING_REASON, NA
V = os.path.dirname(os.path.dirname(os.path.abspath(__file__)))
props = [json.loads(l) for l in open(os.path.join(V, "properties.jsonl"))]
checks, na = [], []
for p in props:
    pid = p["id"]
    if pid in ENTRIES and os.path.exists(os.path.join(V, "checks", pid + ".py")):
        e = ENTRIES[pid]
        checks.append({
            "property_id": pid,
            "quick_cmd": "./check %s --tier quick" % pid,
            "thorough_cmd": "./check %s --tier thorough" % pid,
            "evidence_file": "/verif/evidence/%s.json" % pid,
            "replay_cmd_template": "./check %s --replay {path}" % pid,
            "engine": e.get("engine", "symtm"),
            "level_claimed": {"category": "model_checking", "text": e["text"], "design_ref": e.get("design_ref", "DESIGN.md section 4, " + pid)},
            "level_note": e["note"],
            "technique": e["technique"],
        })
    else:
        na.append({"property_id": pid, "reason": NA.get(pid, PENDING_REASON)})
m = {
    "version": 1,
    "setup_cmd": "./setup.sh",
    "hooks": {"guard": "TANGERMEME_VERIF", "enable": "no hooks in /repo: the loader instruments the real source from outside (symtm/loader.py)",
              "baseline_off_cmd": "cd /repo && /venv/bin/python -m pytest -ra -q -p no:cacheprovider --timeout=900 --continue-on-collection-errors",
              "source_commits": [], "add_only": True},
    "engines": [
        {"name": "symtm", "path": "/verif/symtm", "serves_properties": [c["property_id"] for c in checks],
         "kind_free_text": "bounded symbolic execution of the real tangermeme source over z3: engine A = native forking executor on an object-array torch/numpy model; engine B = predicated AST interpreter for numba kernels; counterexamples replayed on the real torch/numba build"}],
    "checks": checks,
    "not_applicable": na,
    "notes": "Every check: exit 0 = all obligations unsat within the stated bounds; exit 1 + VIOLATION line = replay-confirmed counterexample; exit 3 = inconclusive/harness error (never reported as success). See DESIGN.md.",
}
json.dump(m, open(os.path.join(V, "MANIFEST.json"), "w"), indent=1)
print("claimed:", [c["property_id"] for c in checks], "not_applicable:", len(na))
