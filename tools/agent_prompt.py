"""prints the prompt given to a mutant-writing sub-agent for one property (only the property text + worktree)"""
import json, sys
pid = sys.argv[1]
tag = sys.argv[2] if len(sys.argv) > 2 else ""
wt = "/tmp/wt_" + pid + tag
out = "/tmp/mut_" + pid + tag
p = [json.loads(l) for l in open("/verif/properties.jsonl") if json.loads(l)["id"] == pid][0]
print(f"""You are helping test a verification effort for the Python library jmschrei/tangermeme (a PyTorch genomics toolkit).
You have your own scratch git worktree of the library at {wt} . Work ONLY inside {wt} (and /tmp for scratch files). Do NOT read, list or use anything under /verif or /repo, and do not look at other /tmp/wt_* directories.

Here is a semantic property that the library is supposed to satisfy:

  Title: {p['title']}
  Statement: {p['statement']}
  Quantified over: {p['quantifier']['text']}
  Relevant files: {', '.join(p['anchors']['files'])}

YOUR TASK: produce up to THREE *different* small source changes to the library (each as a separate patch against the unmodified worktree) that each BREAK this property while
  (a) the code still imports/compiles, and
  (b) the existing test suite still passes exactly as before: run  `cd {wt} && /venv/bin/python -m pytest -q -p no:cacheprovider tests/<relevant test files>`  (running the relevant test files is enough; the full suite takes ~2.5 min: `/venv/bin/python -m pytest -q -p no:cacheprovider`). NOTE: a handful of tests fail even on the unmodified tree (the captum tests, tests/tools/test_cmd_tomtom.py and five *pwm_to_mapping tests in tests/tools/test_fimo.py); that is expected - your change must simply not change which tests pass/fail.
Prefer subtle, realistic bugs that need something specific to manifest - an unusual input (edge position, particular size relationship, a batch size that does not divide, etc.), a multi-step sequence of operations, or two cooperating sites that each look fine alone - NOT ones that ordinary use would expose at once. Each of the three should be a different kind of bug in a different place if possible. Look beyond the most obvious line: less-travelled keyword arguments and defaults, alternative input types (strings vs tensors vs numpy, builtin vs numpy scalars, dtypes), helper functions the public function relies on, aliasing / in-place updates of caller-owned objects, state that survives from one call to the next, and size relationships the tests never use.

For each change i = 1..3 write, under {out}/m<i>/ :
  - patch.diff  : `git diff` of the change against the unmodified worktree (must apply with `git apply` at the repository root)
  - demo.py     : a small standalone program (run as `cd <repo root> && /venv/bin/python {out}/m<i>/demo.py`, it must `import tangermeme` from the current directory - insert os.getcwd() at sys.path[0]) that exits 0 on the unmodified code and exits non-zero (assertion failure) with the change applied; it must test the PROPERTY (a behavioural statement), not the implementation detail.
  - notes.txt   : 2-5 lines: what was changed, what it needs in order to manifest, which tests you ran.
Never use `git stash` (the stash is shared with other worktrees of this repository); to flip between clean and patched use `git apply` / `git apply -R` / `git checkout -- .` only. After producing each patch, restore the worktree (`git -C {wt} checkout -- .`) before making the next one, and verify: demo passes on clean tree, fails with patch; relevant tests pass with patch.
Python to use: /venv/bin/python (has torch, numpy, numba, pandas, pytest). The machine is shared and busy: prefix every python / pytest command with `OMP_NUM_THREADS=2` (without it torch oversubscribes the cores and a test file can take 20 minutes instead of 20 seconds). There is no network. Finish by replying with a short summary listing the three changes (one line each).""")
