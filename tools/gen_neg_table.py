"""Rewrites the negative-seed table in DESIGN.md (between the NEG-TABLE markers) from seeded_negative/*/meta.json."""
import glob, json, os, re
V = os.path.dirname(os.path.dirname(os.path.abspath(__file__)))
rows = []
for f in sorted(glob.glob(os.path.join(V, "seeded_negative", "*", "meta.json"))):
    m = json.load(open(f))
    name = os.path.basename(os.path.dirname(f))
    what = " ".join(m["what_was_rewritten"].split())[:220].replace("|", "/")
    rep = " ".join(m["check_report"].split())[:420].replace("|", "/")
    rows.append("| %s | %s | %s | %s |" % (name, m["outcome"], what, rep))
table = "| negative seed | outcome | what was rewritten | check |\n|---|---|---|---|\n" + "\n".join(rows)
p = os.path.join(V, "DESIGN.md")
s = open(p).read()
s = re.sub(r"<!-- NEG-TABLE-BEGIN -->.*<!-- NEG-TABLE-END -->", "<!-- NEG-TABLE-BEGIN -->\n" + table.replace("\\", "\\\\") + "\n<!-- NEG-TABLE-END -->", s, flags=re.S)
open(p, "w").write(s)
oc = [json.load(open(f))["outcome"] for f in glob.glob(os.path.join(V, "seeded_negative", "*", "meta.json"))]
print(len(rows), {k: oc.count(k) for k in set(oc)})
