"""usage: keep_seed.py Cxx <src dir> <name> <detected: yes|no|after-strengthening> "<what check reports>"  -> /verif/seeded/<name>/"""
import json, os, shutil, sys
pid, src, name, detected, report = sys.argv[1:6]
dst = os.path.join("/verif/seeded", name)
os.makedirs(dst, exist_ok=True)
shutil.copy(os.path.join(src, "patch.diff"), dst)
shutil.copy(os.path.join(src, "demo.py"), os.path.join(dst, "demo.py"))
notes = open(os.path.join(src, "notes.txt")).read() if os.path.exists(os.path.join(src, "notes.txt")) else ""
meta = {"property": pid, "source": "independent sub-agent given only the property text and a scratch worktree",
        "needs_to_manifest": notes.strip(),
        "confirmed": "tools/seedtest.sh: demo.py exits 0 on a clean scratch worktree of /repo and non-zero with patch.diff applied; the relevant pytest files still pass with the patch",
        "check_run": "./check %s --tier quick against the patched scratch worktree (TANGERMEME_REPO)" % pid,
        "detected": detected, "check_report": report}
json.dump(meta, open(os.path.join(dst, "meta.json"), "w"), indent=1)
print("kept", dst)
