"""prints the prompt given to a sub-agent that writes BEHAVIOUR-PRESERVING changes for one property (negative seeds:
the check must stay silent on them).  Only the property text + a scratch worktree are given."""
import json, sys
pid = sys.argv[1]
tag = sys.argv[2] if len(sys.argv) > 2 else "neg"
wt = "/tmp/wt_" + pid + tag
out = "/tmp/mut_" + pid + tag
p = [json.loads(l) for l in open("/verif/properties.jsonl") if json.loads(l)["id"] == pid][0]
print(f"""You are helping test a verification effort for the Python library jmschrei/tangermeme (a PyTorch genomics toolkit).
You have your own scratch git worktree of the library at {wt} . Work ONLY inside {wt} (and /tmp for scratch files). Do NOT read, list or use anything under /verif or /repo, and do not look at other /tmp/wt_* directories.

Here is a semantic property that the library satisfies:

  Title: {p['title']}
  Statement: {p['statement']}
  Quantified over: {p['quantifier']['text']}
  Relevant files: {', '.join(p['anchors']['files'])}

YOUR TASK: produce THREE *different* source changes to the library (each as a separate patch against the unmodified worktree) that are realistic MAINTENANCE changes a contributor might make to the code this property depends on and that KEEP THE PROPERTY TRUE for every input - behaviour-preserving refactorings / rewrites, e.g.: replace one torch/numpy idiom by an equivalent one (slicing vs torch.cat vs index_select vs torch.where vs masked assignment vs scatter/gather; a Python loop vs a vectorised expression; clone-then-assign vs building a new tensor; reshape/permute/view/movedim variants; list comprehension vs preallocated tensor), restructure the validation code without changing which inputs are accepted, reorder independent statements, hoist or inline a helper, change loop structure (while vs for, enumerate, zip, reversed iteration where order does not matter), rename variables, use different but equivalent integer arithmetic for offsets, or (for numba kernels) equivalent index arithmetic / loop bounds / temporary variables. Each of the three should rewrite a different part or use a clearly different idiom, and each should change at least ~5 lines of real logic (not comments or whitespace). Do NOT change public signatures, defaults, dtypes of results, or error behaviour (the same inputs must be accepted / rejected; exception types may stay the same).
Requirements for each change:
  (a) the code still imports/compiles,
  (b) the existing test suite passes exactly as before: run  `cd {wt} && /venv/bin/python -m pytest -q -p no:cacheprovider tests/<relevant test files>`. NOTE: a handful of tests fail even on the unmodified tree (the captum tests, tests/tools/test_cmd_tomtom.py); that is expected - your change must simply not change which tests pass/fail,
  (c) the property still holds for ALL inputs in the quantifier above - think about edge cases (boundaries, empty ranges, batch sizes that do not divide, negative / past-the-end positions, numpy vs builtin scalars, aliasing of the caller's tensors, repeated calls): your rewrite must behave identically there too. Write a randomized differential test comparing the patched function with the original on many inputs including edge cases, and run it.

For each change i = 1..3 write, under {out}/m<i>/ :
  - patch.diff  : `git diff` of the change against the unmodified worktree (must apply with `git apply` at the repository root)
  - demo.py     : a small standalone program (run as `cd <repo root> && /venv/bin/python {out}/m<i>/demo.py`, it must `import tangermeme` from the current directory - insert os.getcwd() at sys.path[0]) that checks the PROPERTY on a few dozen inputs including edge cases and exits 0 both on the unmodified code and with the change applied.
  - notes.txt   : 2-5 lines: what was rewritten and why it is behaviour-preserving, which tests you ran.
Never use `git stash` (the stash is shared with other worktrees of this repository); to flip between clean and patched use `git apply` / `git apply -R` / `git checkout -- .` only. After producing each patch, restore the worktree (`git -C {wt} checkout -- .`) before making the next one.
Python to use: /venv/bin/python (has torch, numpy, numba, pandas, pytest). The machine is shared and busy: prefix every python / pytest command with `OMP_NUM_THREADS=2` (without it torch oversubscribes the cores and a test file can take 20 minutes instead of 20 seconds). There is no network. Finish by replying with a short summary listing the three changes (one line each).""")
