"""Facade modules (torch, numpy, numba, tqdm, pandas-lite ...) handed to the loader."""
import builtins
import contextlib
import math
import types
from fractions import Fraction

import numpy as np
import z3

from . import core, tensor as T
from .core import Sym, SInt, SReal, SBool, Inconclusive, ite
from .tensor import Arr, Tensor, NDArray, _obj, _dtype_name


class DT(str):
    """dtype object: compares like its name, callable as a scalar constructor"""
    def __call__(self, x=0):
        if self.startswith("float"):
            return core.s_float(x)
        if self == "bool":
            return bool(x)
        v = core.s_int(x) if not isinstance(x, (SInt,)) else x
        if self.startswith("uint"):
            # unsigned conversion wraps a negative value (numpy / numba semantics): uint64(-1) == 2**64 - 1
            mod = 2 ** int(self[4:])
            if isinstance(v, core.Sym):
                return core.ite(v < 0, v + mod, v)
            return v + mod if v < 0 else v
        return v

    def __eq__(self, o):
        return str(self) == _dtype_name(o)

    def __ne__(self, o):
        return not self.__eq__(o)

    __hash__ = str.__hash__


# ----------------------------------------------------------------------------- RNG model

_rng_perm = z3.Function("rng_perm", z3.IntSort(), z3.IntSort(), z3.IntSort(), z3.IntSort(), z3.IntSort())
_rng_int = z3.Function("rng_int", z3.IntSort(), z3.IntSort(), z3.IntSort(), z3.IntSort())
GLOBAL_STREAM = -777   # pseudo seed of the unseeded global numpy stream


def _seed_term(seed):
    if seed is None:
        return z3.IntVal(GLOBAL_STREAM)
    return core.zn(seed)


class RandomState:
    """numpy.random.RandomState model: every draw is an arbitrary value of the right kind, a
    function of (seed term, call index) only.  Draws are logged in ctx.log as ('rng', ...)."""

    def __init__(self, seed=None):
        self.seed = seed
        self.calls = 0

    def _next(self, kind, n):
        ctx = core.cur()
        k = self.calls
        self.calls += 1
        if ctx is not None:
            ctx.log.append(("rng", kind, self.seed, k, n))
        return k

    def _perm(self, n):
        k = self._next("perm", n)
        st = _seed_term(self.seed)
        vals = [SInt(_rng_perm(st, z3.IntVal(k), z3.IntVal(n), z3.IntVal(i))) for i in range(n)]
        ctx = core.cur()
        for v in vals:
            ctx.assume(z3.And(v.z >= 0, v.z < n))
        if ctx.state.get("rng_rotations"):
            # restricted outcome set (stated by the configuration that asks for it): the solver picks a rotation
            r = core.Int("rng_rot_%d" % k)
            ctx.assume(z3.And(r.z >= 0, r.z < min(max(n, 1), 2)))
            rv = int(r)                                  # identity or rotation by one: a path each
            vals = [(rv + i) % max(n, 1) for i in range(n)]
        elif n > 1:
            ctx.assume(z3.Distinct(*[v.z for v in vals]))
        return vals

    def shuffle(self, x):
        n = len(x)
        vals = self._perm(n)
        old = [x[i] for i in range(n)] if not isinstance(x, Arr) else None
        if isinstance(x, Arr):
            src = x.a.copy()
            gathered = T._sym_getitem(src, (np.array(vals, dtype=object),)) if n else src
            x.a[...] = gathered
        elif isinstance(x, list):
            # a Python list of arbitrary objects: the permutation is chosen by the solver (one path per permutation)
            idx = [int(v) for v in vals]
            x[:] = [old[i] for i in idx]
        else:
            raise Inconclusive("RandomState.shuffle on a non-array")

    def permutation(self, n):
        if isinstance(n, Arr) and n.ndim == 0:
            n = n.item()
        if isinstance(n, Arr):
            x = n.copy()
            self.shuffle(x)
            return x
        n = int(n)
        if n < 0:
            raise ValueError("negative dimensions are not allowed")
        return NDArray(np.array(self._perm(n), dtype=object), dtype="int64")

    def choice(self, n, size=None, p=None, replace=True):
        if isinstance(n, Arr):
            raise Inconclusive("choice over an array")
        n = int(n)
        cnt = 1 if size is None else int(np.prod(size))
        k = self._next("choice", cnt)
        st = _seed_term(self.seed)
        ctx = core.cur()
        vals = []
        for i in range(cnt):
            v = SInt(_rng_int(st, z3.IntVal(k), z3.IntVal(i)))
            ctx.assume(z3.And(v.z >= 0, v.z < n))
            vals.append(v)
        if size is None:
            return vals[0]
        return NDArray(np.array(vals, dtype=object).reshape(size), dtype="int64")

    def randint(self, lo, hi=None, size=None):
        if hi is None:
            lo, hi = 0, lo
        if size is not None:
            raise Inconclusive("randint with size")
        k = self._next("randint", 1)
        v = SInt(_rng_int(_seed_term(self.seed), z3.IntVal(k), z3.IntVal(0)))
        core.cur().assume(z3.And(v.z >= lo, v.z < hi))
        return v


class _GlobalRandom:
    """numpy.random module-level functions: the unseeded (or numpy.random.seed-ed) global stream"""
    RandomState = RandomState

    def __init__(self):
        self._rs = RandomState(None)

    def _state(self):
        ctx = core.cur()
        if ctx is None:
            return self._rs
        return ctx.state.setdefault("global_rng", RandomState(None))

    def seed(self, s=None):
        ctx = core.cur()
        rs = RandomState(s)
        if ctx is None:
            self._rs = rs
        else:
            ctx.state["global_rng"] = rs
            ctx.log.append(("rng_seed", s))

    def permutation(self, n):
        if isinstance(n, Arr) and n.ndim == 0:
            n = n.item()
        if not isinstance(n, Arr) and int(n) < 0:
            # numba semantics (the only caller is a jitted kernel): permutation(n) = shuffled arange(n), empty for n < 0
            return NDArray(np.empty((0,), dtype=object), dtype="int64")
        return self._state().permutation(n)

    def shuffle(self, x):
        return self._state().shuffle(x)

    def choice(self, *a, **k):
        return self._state().choice(*a, **k)

    def randint(self, *a, **k):
        return self._state().randint(*a, **k)


# ----------------------------------------------------------------------------- numpy facade

def make_numpy():
    m = types.ModuleType("numpy")
    m.ndarray = NDArray
    for d in T.DTYPES:
        setattr(m, d, DT(d))
    m.bool_ = DT("bool")
    m.inf = float("inf")
    m.nan = float("nan")
    m.pi = math.pi
    m.newaxis = None
    m.random = _GlobalRandom()
    m.integer = (int, SInt)
    m.floating = (float, SReal)

    def array(x, dtype=None, copy=True):
        if isinstance(x, Arr):
            return NDArray(x.a.copy(), dtype=_dtype_name(dtype) or x.dtype)
        if isinstance(x, (list, tuple)) and x and builtins.all(isinstance(v, str) for v in x):
            return StrArray(list(x))
        return NDArray(_obj(x), dtype=_dtype_name(dtype))
    m.array = array
    m.asarray = array
    m.zeros = lambda shape, dtype=None: T.zeros(shape if isinstance(shape, (tuple, list)) else (shape,), dtype=dtype or "float64", cls=NDArray)
    m.ones = lambda shape, dtype=None: T.ones(shape if isinstance(shape, (tuple, list)) else (shape,), dtype=dtype or "float64", cls=NDArray)

    def empty(shape, dtype=None):
        """uninitialised memory: every cell is an arbitrary value (havoc) while a symbolic run is in progress"""
        r = m.zeros(shape, dtype=dtype)
        ctx = core.cur()
        if ctx is not None:
            isint = str(r.dtype) in T.INT_DTYPES
            for c in np.ndindex(*r.a.shape):
                k = ctx.state["uninit"] = ctx.state.get("uninit", 0) + 1
                r.a[c] = (core.Int if isint else core.Real)("uninit!%d" % k)
        return r
    m.empty = empty

    def full(shape, fill_value, dtype=None):
        r = m.zeros(shape, dtype=dtype or ("int64" if isinstance(fill_value, int) and not isinstance(fill_value, bool) else "float64"))
        r.a[...] = fill_value
        return r
    m.full = full
    m.zeros_like = lambda x, dtype=None: T.full_like(x if isinstance(x, Arr) else NDArray(x), 0, dtype)
    m.ones_like = lambda x, dtype=None: T.full_like(x if isinstance(x, Arr) else NDArray(x), 1, dtype)
    m.empty_like = m.zeros_like
    m.arange = lambda *a, dtype=None: T.arange(*a, dtype=dtype, cls=NDArray)
    m.concatenate = lambda xs, axis=0: T.cat(xs, axis=axis, cls=NDArray)
    m.stack = lambda xs, axis=0: T.stack(xs, axis=axis, cls=NDArray)
    m.vstack = lambda xs: T.cat([x if x.ndim > 1 else x.reshape(1, -1) for x in xs], axis=0, cls=NDArray)
    m.where = lambda c, a=None, b=None: T.where(c, a, b, cls=NDArray)
    m.nonzero = lambda x: x.nonzero()
    def np_unique(x, *a, **k):
        if isinstance(x, Arr) and x.a.size and builtins.all(isinstance(v, str) for v in x.a.flat):
            x = [v for v in x.a.flat]
        if isinstance(x, StrArray) or (isinstance(x, (list, tuple)) and x and builtins.all(isinstance(v, str) for v in x)):
            return StrArray(sorted(set(x.items if isinstance(x, StrArray) else x)))
        if k.get("return_index") and k.get("axis") is None:
            # flat concrete data: numpy's own contract (sorted values, index of the first occurrence, inverse, counts)
            flat = list(x.a.flat) if isinstance(x, Arr) else list(_obj(x).flat)
            if builtins.any(isinstance(v, Sym) for v in flat):
                raise Inconclusive("numpy.unique(return_index=True) on symbolic data is not modelled")
            vals = sorted(set(flat), key=lambda q: Fraction(q))
            out = [NDArray(np.array(vals, dtype=object), dtype=getattr(x, "dtype", None))]
            out.append(NDArray(np.array([flat.index(v) for v in vals], dtype=object), dtype="int64"))
            if k.get("return_inverse"):
                out.append(NDArray(np.array([vals.index(v) for v in flat], dtype=object), dtype="int64"))
            if k.get("return_counts"):
                out.append(NDArray(np.array([flat.count(v) for v in vals], dtype=object), dtype="int64"))
            return tuple(out)
        return T.unique(x, *a, **k)
    m.unique = np_unique
    m.bincount = T.bincount

    def take(x, indices, axis=None):
        x = x if isinstance(x, Arr) else NDArray(_obj(x))
        idx = indices if isinstance(indices, Arr) else NDArray(_obj(indices), dtype="int64")
        if axis is None:
            return x.reshape(-1)[idx]
        return x[(slice(None),) * (axis % x.a.ndim) + (idx,)]
    m.take = take
    m.flatnonzero = lambda x: (x if isinstance(x, Arr) else NDArray(_obj(x))).reshape(-1).nonzero()[0]

    class _AddUfunc:
        """numpy.add with its unbuffered in-place form add.at(a, idx, b): repeated indices accumulate"""
        def __call__(self, a, b):
            return a + b

        def at(self, a, idx, b=None):
            ia = list((idx.a if isinstance(idx, Arr) else _obj(idx)).flat)
            ba = list((b.a if isinstance(b, Arr) else _obj(b)).flat) if isinstance(b, (Arr, list, tuple, np.ndarray)) else [b] * len(ia)
            for t, v in zip(ia, ba):
                a[t] = a[t] + v
    m.add = _AddUfunc()

    def np_split(x, sections, axis=0):
        x = x if isinstance(x, Arr) else NDArray(_obj(x))
        n = x.a.shape[axis]
        if isinstance(sections, int):
            if n % sections:
                raise ValueError("array split does not result in an equal division")
            cuts = [n // sections * k for k in range(1, sections)]
        else:
            cuts = [int(v) for v in (sections.a.flat if isinstance(sections, Arr) else sections)]
        out, at = [], 0
        for c in cuts + [n]:
            out.append(x[(slice(None),) * axis + (slice(at, builtins.max(at, c)),)])
            at = builtins.max(at, c)
        return out
    m.split = np_split
    _nd = lambda x: x if isinstance(x, Arr) else NDArray(_obj(x))
    m.sum = lambda x, axis=None, **k: _nd(x).sum(axis=axis)
    m.cumsum = lambda x, axis=None, dtype=None: _nd(x).cumsum(axis=axis)
    m.abs = lambda x: abs(x)
    m.minimum = lambda a, b: NDArray(T._min2(_obj(a), _obj(b))) if isinstance(a, Arr) or isinstance(b, Arr) else core.s_min(a, b)
    m.maximum = lambda a, b: NDArray(T._max2(_obj(a), _obj(b))) if isinstance(a, Arr) or isinstance(b, Arr) else core.s_max(a, b)
    m.argmax = lambda x, axis=None: x.argmax(axis=axis)
    m.argmin = lambda x, axis=None: x.argmin(axis=axis)
    m.argsort = lambda x, axis=-1, kind=None: x.argsort(axis=axis)
    m.repeat = lambda x, r, axis=None: NDArray(np.repeat(_obj(x), r, axis=axis))
    m.isin = lambda x, vals: NDArray(T._uf(lambda v: core.s_or(*[v == w for w in list(_obj(vals).flat)]), 1)(_obj(x)), dtype="bool")
    m.set_printoptions = lambda *a, **k: None

    def diff(x, n=1, axis=-1):
        x = _nd(x)
        if n != 1 or x.ndim != 1:
            raise Inconclusive("numpy.diff beyond first differences of a vector is not modelled")
        return x[1:] - x[:-1]
    m.diff = diff

    def _no_nan(x):
        cells = list(_obj(x).flat)
        if builtins.any(isinstance(v, float) and v != v for v in cells):
            raise Inconclusive("NaN cells in a nan-aware reduction are not modelled")
        return cells

    def nanquantile(x, q, **k):
        cells = _no_nan(x)
        if not cells:
            return NDArray(np.array(float("nan"), dtype=object).reshape(()), dtype="float64")        # numpy: nan (with a RuntimeWarning)
        return NDArray(np.array(sym_quantile(cells, Fraction(q).limit_denominator(10 ** 6)), dtype=object).reshape(()), dtype="float64")
    m.nanquantile = nanquantile
    m.quantile = nanquantile

    def nansum(x, axis=None, **k):
        _no_nan(x)
        return _nd(x).sum(axis=axis)
    m.nansum = nansum
    m.ascontiguousarray = lambda x, dtype=None: (x.copy() if isinstance(x, Arr) else NDArray(_obj(x)))
    m.nan_to_num = lambda x, *a, **k: x

    def frombuffer(buf, dtype=None):
        from .loader import SymBytes
        if isinstance(buf, SymBytes):
            return NDArray(np.array(buf.codes, dtype=object), dtype=_dtype_name(dtype))
        r = np.frombuffer(buf, dtype=_np_dtype(dtype))
        return NDArray(r, dtype=_dtype_name(dtype))
    m.frombuffer = frombuffer
    m.fromiter = lambda it, dtype=None, count=-1: NDArray(np.array(list(it), dtype=object), dtype=_dtype_name(dtype))

    def _elementwise(name, f):
        def g(x, *a, **k):
            if isinstance(x, Arr):
                if T.has_sym(x):
                    raise Inconclusive("numpy.%s of symbolic data is not modelled" % name)
                return NDArray(T._uf(lambda v: f(v), 1)(x.a), dtype="float64")
            if isinstance(x, Sym):
                raise Inconclusive("numpy.%s of a symbolic value is not modelled" % name)
            return f(x)
        return g
    m.log = _elementwise("log", lambda v: math.log(v) if v > 0 else (float("-inf") if v == 0 else float("nan")))
    m.log2 = _elementwise("log2", lambda v: math.log2(v) if v > 0 else (float("-inf") if v == 0 else float("nan")))
    m.sqrt = _elementwise("sqrt", math.sqrt)
    def _sym_floor(v):
        z = core.zn(v)
        return v if z3.is_int(z) else core.lift(z3.ToReal(z3.ToInt(z)))

    def _sym_ceil(v):
        z = core.zn(v)
        return v if z3.is_int(z) else core.lift(z3.ToReal(-z3.ToInt(-z)))

    def _rounding(name, fc, fs):
        def g(x, *a, **k):
            if isinstance(x, Arr):
                return NDArray(T._uf(lambda v: fs(v) if isinstance(v, Sym) else fc(v), 1)(x.a), dtype="float64")
            return fs(x) if isinstance(x, Sym) else fc(x)
        return g
    m.floor = _rounding("floor", lambda v: float(math.floor(v)), _sym_floor)
    m.ceil = _rounding("ceil", lambda v: float(math.ceil(v)), _sym_ceil)
    def _np_round(x, decimals=0, *a, **k):
        """numpy.round / around: half to even, exact on rationals, symbolic on symbolic reals (core.s_round)"""
        if isinstance(x, Arr):
            return x.round(decimals) if (T.has_sym(x) or decimals) else NDArray(T._uf(lambda v: v if isinstance(v, (int, np.integer)) and not isinstance(v, bool) else float(np.round(float(v))), 1)(x.a), dtype="float64")
        return core.s_round(x, decimals) if (isinstance(x, Sym) or decimals) else float(np.round(float(x)))
    m.round = _np_round
    m.around = m.round
    m.sign = _elementwise("sign", lambda v: (v > 0) - (v < 0))
    return m


def _np_dtype(dt):
    n = _dtype_name(dt)
    return np.dtype(n) if n else None


class StrArray:
    """numpy array of strings (alphabet lookups); symbolic indices build no strings: they fork"""
    def __init__(self, items):
        self.items = list(items)

    def __len__(self):
        return len(self.items)

    def __getitem__(self, k):
        if isinstance(k, Arr) and str(k.dtype) == "bool":
            keep = T.concretize_bool_array(k.a.reshape(-1))
            return StrArray([v for v, b in zip(self.items, keep) if b])
        if isinstance(k, Arr):
            return StrArray([self.items[int(i)] for i in k.a.flat])
        if isinstance(k, (list, tuple)):
            return StrArray([self.items[int(i)] for i in k])
        return self.items[int(k)]

    def __setitem__(self, k, v):
        if isinstance(k, Arr) and str(k.dtype) == "bool":        # boolean mask (symbolic entries are decided by forking)
            keep = T.concretize_bool_array(k.a.reshape(-1))
            if len(keep) != len(self.items):
                raise IndexError("boolean index did not match indexed array")
            vals = iter(v.items) if isinstance(v, StrArray) else None
            for i, b in enumerate(keep):
                if b:
                    self.items[i] = v if vals is None else next(vals)
            return
        if isinstance(k, Arr):
            for i in k.a.flat:
                self.items[int(i)] = v
        else:
            self.items[int(k)] = v

    def __iter__(self):
        return iter(self.items)

    def tolist(self):
        return list(self.items)


# ----------------------------------------------------------------------------- torch facade

class _NoGrad:
    def __init__(self, flag=False):
        self.flag = flag

    def __enter__(self):
        self.old = T.GRAD_ENABLED[0]
        T.GRAD_ENABLED[0] = self.flag
        return self

    def __exit__(self, *a):
        T.GRAD_ENABLED[0] = self.old
        return False

    def __call__(self, f):
        def w(*a, **k):
            with _NoGrad(self.flag):
                return f(*a, **k)
        return w


class _InferenceMode(_NoGrad):
    def __init__(self, mode=True):
        super().__init__(not mode)
        self.mode = mode

    def __enter__(self):
        super().__enter__()
        self.old_inf = T.INFERENCE_MODE[0]
        T.INFERENCE_MODE[0] = bool(self.mode)
        return self

    def __exit__(self, *a):
        T.INFERENCE_MODE[0] = self.old_inf
        return super().__exit__(*a)

    def __call__(self, f):
        def w(*a, **k):
            with _InferenceMode(self.mode):
                return f(*a, **k)
        return w


def GRAD_MODEL_ON():
    return T.GRAD_ENABLED[0]


def make_torch():
    from . import nn as NN
    m = types.ModuleType("torch")
    m.Tensor = Tensor
    for d in T.DTYPES:
        setattr(m, d, DT(d))
    m.float = DT("float32")
    m.double = DT("float64")
    m.long = DT("int64")
    m.int = DT("int32")
    m.half = DT("float16")
    m.dtype = DT
    m.device = lambda x=None: "cpu"

    def tensor(x, dtype=None, device=None, requires_grad=False):
        if isinstance(x, Arr):
            return Tensor(x.a.copy(), dtype=_dtype_name(dtype) or x.dtype)
        return Tensor(_obj(x), dtype=_dtype_name(dtype))
    m.tensor = tensor
    m.as_tensor = tensor
    m.from_numpy = lambda x: Tensor(x.a, dtype=x.dtype)       # shares memory, like torch
    m.is_tensor = lambda x: isinstance(x, Tensor)
    m.cat = T.cat
    m.concat = T.cat
    m.stack = T.stack
    m.vstack = lambda xs: T.cat([x if x.ndim > 1 else x.reshape(1, -1) for x in xs], dim=0)
    m.hstack = lambda xs: T.cat(xs, dim=-1 if xs[0].ndim == 1 else 1)
    m.clone = lambda x: x.clone()
    m.zeros = T.zeros
    m.ones = T.ones

    def t_empty(*shape, dtype=None, device=None, **kw):
        """uninitialised memory: every cell is an arbitrary value (havoc) while a symbolic run is in progress"""
        r = T.zeros(*shape, dtype=dtype)
        ctx = core.cur()
        if ctx is not None:
            isint = str(r.dtype) in T.INT_DTYPES
            for c in np.ndindex(*r.a.shape):
                k_ = ctx.state["uninit"] = ctx.state.get("uninit", 0) + 1
                r.a[c] = (core.Int if isint else core.Real)("uninit!%d" % k_)
        return r
    m.empty = t_empty
    m.contiguous_format = "contiguous_format"
    m.preserve_format = "preserve_format"
    m.channels_last = "channels_last"
    m.empty_like = lambda x, dtype=None, **k: t_empty(*x.a.shape, dtype=dtype or x.dtype)

    def eye(n, m_=None, dtype=None, device=None, **k):
        m_ = n if m_ is None else m_
        a = np.empty((int(n), int(m_)), dtype=object)
        for c in np.ndindex(*a.shape):
            a[c] = 1 if c[0] == c[1] else 0
        return Tensor(a, dtype=_dtype_name(dtype) or "float32")
    m.eye = eye
    m.unbind = lambda x, dim=0: x.unbind(dim)
    m.split = lambda x, size, dim=0: x.split(size, dim)
    m.zeros_like = lambda x, dtype=None, **k: T.full_like(x, 0, dtype)
    m.ones_like = lambda x, dtype=None, **k: T.full_like(x, 1, dtype)
    m.arange = T.arange
    m.where = T.where
    m.gather = T.gather
    m.index_select = lambda x, dim, index: x.index_select(dim, index)
    m.masked_select = lambda x, mask: x.masked_select(mask)
    m.meshgrid = T.meshgrid
    m.promote_types = lambda a, b: DT(T.promote_types(a, b))
    m.abs = lambda x: abs(x)
    m.sub = lambda a, b: a - b
    m.add = lambda a, b: a + b
    m.mul = lambda a, b: a * b
    m.sum = lambda x, dim=None, **k: x.sum(dim=dim, **k)
    m.mean = lambda x, dim=None, **k: x.mean(dim=dim, **k)
    m.max = lambda x, *a, **k: x.max(*a, **k)
    m.min = lambda x, *a, **k: x.min(*a, **k)
    m.maximum = lambda a, b: Tensor(T._max2(a.a, _obj(b)), dtype=a.dtype)
    m.minimum = lambda a, b: Tensor(T._min2(a.a, _obj(b)), dtype=a.dtype)
    m.argmax = lambda x, dim=None, **k: x.argmax(dim=dim, **k)
    m.argsort = lambda x, dim=-1, descending=False, stable=False: x.argsort(dim=dim, descending=descending)
    m.sort = lambda x, dim=-1, descending=False, stable=False: x.sort(dim=dim, descending=descending)
    m.cumsum = lambda x, dim=None: x.cumsum(dim=dim)
    m.flip = lambda x, dims: x.flip(dims)
    m.chunk = lambda x, n, dim=0: x.chunk(n, dim)
    m.unique = T.unique
    m.any = lambda x, *a, **k: x.any(*a, **k)
    m.all = lambda x, *a, **k: x.all(*a, **k)
    def clamp(x, min=None, max=None):
        def f(v):
            if min is not None:
                v = ite(v < min, min, v)
            if max is not None:
                v = ite(v > max, max, v)
            return v
        if GRAD_MODEL_ON() and x.requires_grad:
            raise Inconclusive("autograd model: clamp of a tracked tensor")
        return Tensor(T._uf(f, 1)(x.a), dtype=x.dtype)
    m.clamp = clamp
    m.numel = lambda x: x.numel()
    m.matmul = T.matmul
    m.transpose = lambda x, a, b: x.transpose(a, b)
    m.permute = lambda x, d: x.permute(*d)
    m.reshape = lambda x, s: x.reshape(*s)
    m.squeeze = lambda x, dim=None: x.squeeze(dim)
    m.unsqueeze = lambda x, d: x.unsqueeze(d)
    m.moveaxis = lambda x, s, d: x.moveaxis(s, d)
    m.repeat_interleave = lambda x, n, dim=None: x.repeat_interleave(n, dim)
    m.no_grad = lambda: _NoGrad(False)
    m.enable_grad = lambda: _NoGrad(True)
    m.inference_mode = lambda mode=True: _InferenceMode(mode)
    m.is_inference_mode_enabled = lambda: T.INFERENCE_MODE[0]
    m.is_grad_enabled = lambda: T.GRAD_ENABLED[0]
    m.set_grad_enabled = lambda f: _NoGrad(bool(f))
    m.get_default_dtype = lambda: DT("float32")

    def _unmodelled(name):
        def f(*a, **k):
            raise Inconclusive("torch.%s is not modelled" % name)
        return f
    for n in ("log", "exp", "quantile", "histogram", "sqrt"):
        setattr(m, n, _unmodelled(n))

    def grad(outputs, inputs, grad_outputs=None, **kw):
        outs = [outputs] if isinstance(outputs, Arr) else list(outputs)
        ins = [inputs] if isinstance(inputs, Arr) else list(inputs)
        if grad_outputs is None:
            gos = []
            for o in outs:
                if o.a.size != 1:
                    raise RuntimeError("grad can be implicitly created only for scalar outputs")
                g = np.empty(o.a.shape, dtype=object)
                g[...] = 1
                gos.append(g)
        else:
            gos = [g.a for g in ([grad_outputs] if isinstance(grad_outputs, Arr) else grad_outputs)]
        hook = core.cur().state.get("backward_fault") if core.cur() else None
        if hook:
            hook()
        return T.backward(outs, gos, ins)
    m.autograd = types.SimpleNamespace(grad=grad, set_grad_enabled=lambda f: _NoGrad(f))
    m.nn = NN.make_nn(m)
    m.cuda = types.SimpleNamespace(is_available=lambda: False)
    m.masked = types.SimpleNamespace(MaskedTensor=type("MaskedTensor", (), {}))
    return m


# ----------------------------------------------------------------------------- misc facades

def _fastmath(f, opts):
    """fastmath=True gives LLVM the `ninf nnan` flags: an operation with a +-inf / NaN operand or result yields poison.
    Model: if any log-domain argument may be -inf (p == 0), the result is an arbitrary value (possibly NaN)."""
    import functools

    @functools.wraps(f)
    def w(*a, **kw):
        r = f(*a, **kw)
        logs = [x for x in a if isinstance(x, core.SLog)]
        if logs and isinstance(r, core.SLog) and core.cur() is not None:
            ctx = core.cur()
            k = ctx.state["poison"] = ctx.state.get("poison", 0) + 1
            anyinf = core.s_or(*[x.p == 0 for x in logs])
            if anyinf is not False:
                fresh = core.Real("poison!%d" % k)
                return core.SLog(core.ite(anyinf, fresh, r.p), core.s_or(r.nan, core.s_and(anyinf, core.Bool("poison_nan!%d" % k))))
        return r
    w.__numba_opts__ = opts
    w.py_func = f
    return w


PRANGE_ANY_ORDER = [False]


def make_numba():
    m = types.ModuleType("numba")

    def jit(*a, **k):
        def deco(f):
            if k.get("fastmath"):
                return _fastmath(f, dict(k))
            f.__numba_opts__ = dict(k)
            f.py_func = f
            return f
        if len(a) == 1 and callable(a[0]) and not k:
            return deco(a[0])
        return deco
    m.jit = m.njit = jit
    def prange(*a):
        """numba.prange: by default the iterations run in order; with PRANGE_ANY_ORDER[0] set (and at most 4 iterations) the ORDER
        in which they run is chosen by the solver - every permutation is a path (iterations of a parallel loop may complete in any
        order; two iterations never interleave in this model)"""
        idx = list(range(*[int(v) for v in a]))
        ctx = core.cur()
        if not PRANGE_ANY_ORDER[0] or ctx is None or not (2 <= len(idx) <= 4):
            return iter(idx)
        order, rest = [], list(idx)
        while len(rest) > 1:
            v = core.Int(ctx.fresh_name("prange_pick"))
            ctx.assume(core.s_and(v >= 0, v < len(rest)))
            order.append(rest.pop(int(v)))
        return iter(order + rest)
    m.prange = prange
    state = {"threads": 1}
    m.get_num_threads = lambda: state["threads"]
    m.set_num_threads = lambda n: state.__setitem__("threads", n)
    m.get_thread_id = lambda: 0
    m.typed = types.SimpleNamespace(List=list)
    m.types = _Any()
    for d in T.DTYPES:
        setattr(m, d, DT(d))
    return m


class _Any:
    def __getattr__(self, n):
        return _Any()

    def __call__(self, *a, **k):
        return _Any()

    def __getitem__(self, k):
        return _Any()


def make_tqdm():
    m = types.ModuleType("tqdm")
    m.tqdm = lambda x=None, *a, **k: x
    m.trange = lambda *a, **k: range(*[int(v) for v in a])
    return m


class _ILoc:
    def __init__(self, df):
        self.df = df

    def __getitem__(self, key):
        if not isinstance(key, tuple):
            key = (key, slice(None))
        rows, cols = key
        if isinstance(rows, slice):
            f = lambda v: (int(v) if isinstance(v, (Sym, Arr)) else v)
            rows = slice(f(rows.start), f(rows.stop), f(rows.step))
        names = [self.df.columns[c] for c in (cols if isinstance(cols, (list, tuple)) else range(*cols.indices(len(self.df.columns))))]
        idx = range(*rows.indices(len(self.df))) if isinstance(rows, slice) else [int(r_) for r_ in (rows.a.flat if isinstance(rows, Arr) else rows)]
        idx = [i + len(self.df) if i < 0 else i for i in idx]
        d = DataFrame({n: [self.df.data[n][i] for i in idx] for n in names})
        d.index = [self.df.index[i] for i in idx]          # positional selection keeps the row labels
        return d


class _Loc:
    """label-based row access: df.loc[label] is the row whose index label equals `label` (a list of its cells)"""

    def __init__(self, df):
        self.df = df

    def __getitem__(self, key):
        cols = None
        if isinstance(key, tuple):
            key, cols = key
        if isinstance(key, (Sym,)):
            key = int(key)
        if isinstance(key, (list, Arr, slice)):
            raise Inconclusive("DataFrame.loc with a list / mask / slice is not modelled")
        hits = [i for i, lab in enumerate(self.df.index) if lab == key]
        if not hits:
            raise KeyError(key)
        if len(hits) > 1:
            raise Inconclusive("DataFrame.loc with a duplicated label is not modelled")
        names = self.df.columns if cols is None else ([cols] if not isinstance(cols, list) else cols)
        row = [self.df.data[n][hits[0]] for n in names]
        return row[0] if (cols is not None and not isinstance(cols, list)) else _Row(row, list(names))


class _Row(list):
    def __init__(self, vals, names):
        super().__init__(vals)
        self.names = names

    @property
    def values(self):
        return list(self)

    def __getitem__(self, k):
        if isinstance(k, str):
            return list.__getitem__(self, self.names.index(k))
        return list.__getitem__(self, k)


class DataFrame:
    """pandas-lite: just what io._interleave_loci / extract_loci touch; cells may be symbolic"""

    def __init__(self, data=None, columns=None):
        if isinstance(data, dict):
            self.columns = list(data.keys())
            self.data = {k: list(v.a.flat) if isinstance(v, Arr) else list(v) for k, v in data.items()}
        else:
            rows = [list(r) for r in (data or [])]
            self.columns = list(columns) if columns is not None else list(range(len(rows[0]) if rows else 0))
            self.data = {c: [r[i] for r in rows] for i, c in enumerate(self.columns)}
        self.index = list(range(len(self)))           # row labels (default RangeIndex)

    def __len__(self):
        return len(self.data[self.columns[0]]) if self.columns else 0

    @property
    def iloc(self):
        return _ILoc(self)

    @property
    def loc(self):
        return _Loc(self)

    def _with_index(self, d, idx):
        d.index = [self.index[i] for i in idx]
        return d

    def copy(self):
        return self._with_index(DataFrame({k: list(v) for k, v in self.data.items()}), range(len(self)))

    def __getitem__(self, k):
        if isinstance(k, list):          # column selection
            return self._with_index(DataFrame({c: list(self.data[c]) for c in k}), range(len(self)))
        if isinstance(k, Arr):           # boolean row mask
            m = T.concretize_bool_array(k.a)
            return self._with_index(DataFrame({c: [v for v, keep in zip(self.data[c], m) if keep] for c in self.columns}), [i for i, keep in enumerate(m) if keep])
        return NDArray(np.array(self.data[k], dtype=object)) if self.data[k] else NDArray(np.empty((0,), dtype=object))

    def __setitem__(self, k, v):
        vals = list(v.a.flat) if isinstance(v, Arr) else list(v)
        if len(self.columns) and len(vals) != len(self):
            raise ValueError("Length of values does not match length of index")
        if k not in self.data:
            self.columns.append(k)
        self.data[k] = vals

    @property
    def values(self):
        return [[self.data[c][i] for c in self.columns] for i in range(len(self))]

    def itertuples(self, index=True, name="Pandas"):
        import collections
        cols = [c for c in self.columns if isinstance(c, str) and c.isidentifier()]
        Row = collections.namedtuple(name or "Row", (["Index"] if index else []) + cols, rename=True)
        for i in range(len(self)):
            yield Row(*(([i] if index else []) + [self.data[c][i] for c in cols]))

    def set_index(self, col):
        d = self.copy()
        d._index = d.data.pop(col)
        d.columns.remove(col)
        return d

    def sort_index(self):
        order = sorted(range(len(self._index)), key=lambda i: int(self._index[i]))   # stable, index values are concrete
        d = DataFrame({c: [self.data[c][i] for i in order] for c in self.columns})
        d._index = [self._index[i] for i in order]
        return d

    def reset_index(self, drop=False):
        return DataFrame({c: list(self.data[c]) for c in self.columns})

    def sort_values(self, by, **kw):
        keys = [by] if isinstance(by, str) else list(by)
        order = []
        for i in range(len(self)):             # stable insertion sort; symbolic keys fork on comparisons
            pos = len(order)
            while pos > 0:
                j = order[pos - 1]
                gt = False
                for k in keys:
                    a, b = self.data[k][j], self.data[k][i]
                    if bool(a > b):
                        gt = True
                        break
                    if bool(a < b):
                        break
                if gt:
                    pos -= 1
                else:
                    break
            order.insert(pos, i)
        return self._with_index(DataFrame({c: [self.data[c][i] for i in order] for c in self.columns}), order)


class Series(DataFrame):
    pass


def make_pandas():
    m = types.ModuleType("pandas")
    m.DataFrame, m.Series = DataFrame, Series

    def concat(dfs, **k):
        dfs = list(dfs)
        cols = dfs[0].columns
        return DataFrame({c: [v for d in dfs for v in d.data[c]] for c in cols})
    m.concat = concat

    def _un(name):
        def f(*a, **k):
            raise Inconclusive("pandas.%s is not modelled" % name)
        return f
    m.read_csv = _un("read_csv")
    return m


FASTA_REGISTRY = {}      # path -> list of (record name, sequence str / SymStr), in file order


class _FastaSeq:
    def __init__(self, seq):
        self.seq = seq

    def __len__(self):
        return len(self.seq)


class SymSlice:
    """seq[start:stop] of a concrete string with symbolic bounds (Python slice semantics, step 1): supports upper(),
    count(ch) (a symbolic integer) and len() (concretised)"""

    def __init__(self, seq, start, stop, upper=False):
        n = len(seq)

        def norm(v, default):
            if v is None:
                return default
            if not isinstance(v, Sym):
                v = int(v)
                return max(0, v + n) if v < 0 else min(v, n)
            return core.ite(v < 0, core.s_max(0, v + n), core.s_min(v, n))
        self.seq, self.lo, self.hi, self._upper = seq, norm(start, 0), norm(stop, n), upper

    def upper(self):
        return SymSlice(self.seq, self.lo, self.hi, True)

    def count(self, ch):
        s_ = self.seq.upper() if self._upper else self.seq
        return core.s_sum([core.ite(core.s_and(self.lo <= p, p < self.hi), 1, 0) for p in range(len(s_)) if s_[p] == ch] or [0])

    def __len__(self):
        return int(core.s_max(0, self.hi - self.lo))


class _FastaRecord:
    def __init__(self, name, seq):
        self.name, self._seq = name, seq

    def __getitem__(self, k):
        if isinstance(k, slice) and k.step is None and (isinstance(k.start, Sym) or isinstance(k.stop, Sym)) and type(self._seq) is str:
            return _FastaSeq(SymSlice(self._seq, k.start, k.stop))
        return _FastaSeq(self._seq[k] if not (isinstance(k, slice) and k == slice(None)) else self._seq)

    def __len__(self):
        return len(self._seq)


def make_pyfaidx():
    m = types.ModuleType("pyfaidx")

    class Fasta:
        """in-memory model of an indexed FASTA: records in FILE order (like pyfaidx); contents may be symbolic strings"""
        def __init__(self, path, *a, **k):
            if path not in FASTA_REGISTRY:
                raise Inconclusive("pyfaidx.Fasta(%r): file contents are outside the claim" % (path,))
            self._recs = [(n, _FastaRecord(n, s_)) for n, s_ in FASTA_REGISTRY[path]]

        def keys(self):
            return [n for n, _ in self._recs]

        def items(self):
            return list(self._recs)

        def __getitem__(self, name):
            return dict(self._recs)[name]

        def close(self):
            pass

        def __enter__(self):
            return self

        def __exit__(self, *a):
            return False
    m.Fasta = Fasta
    return m


BIGWIG_REGISTRY = {}     # path -> {chrom: list of per-base values (concrete numbers)}


def make_pybigwig():
    """in-memory model of a bigWig file with concrete per-base values; interval bounds may be symbolic"""
    m = types.ModuleType("pyBigWig")

    class _BW:
        def __init__(self, tracks):
            self.tracks = tracks

        def __enter__(self):
            return self

        def __exit__(self, *a):
            return False

        def close(self):
            pass

        def chroms(self):
            return {c: len(v) for c, v in self.tracks.items()}

        def values(self, chrom, start=0, end=-1, numpy=False):
            if chrom not in self.tracks:
                raise RuntimeError("Invalid interval bounds!")
            v = self.tracks[chrom]
            if not (start == 0 and end in (-1, len(v))):
                raise Inconclusive("pyBigWig.values on a sub-interval is not modelled")
            return NDArray(np.array([float(x) for x in v], dtype=object), dtype="float32") if numpy else list(v)

        def stats(self, chrom, start=0, end=-1, type="mean", exact=False, nBins=1):
            if chrom not in self.tracks:
                raise RuntimeError("Invalid interval bounds!")
            if type != "sum":
                raise Inconclusive("pyBigWig.stats(type=%r) is not modelled" % (type,))
            v = self.tracks[chrom]
            if not bool(core.s_and(start >= 0, start < end, end <= len(v))):
                raise RuntimeError("Invalid interval bounds!")
            return [core.s_sum([core.ite(core.s_and(start <= p, p < end), Fraction(v[p]), 0) for p in range(len(v))] or [0])]

    def _open(path, mode="r"):
        if path not in BIGWIG_REGISTRY:
            raise Inconclusive("pyBigWig.open(%r): file contents are outside the claim" % (path,))
        return _BW(BIGWIG_REGISTRY[path])
    m.open = _open
    return m


def sym_sorted(vals):
    """ascending order of symbolic numbers by a compare-exchange network (min / max terms, no forking)"""
    v = list(vals)
    for i in range(len(v)):
        for j in range(len(v) - 1 - i):
            a, b = v[j], v[j + 1]
            v[j], v[j + 1] = core.s_min(a, b), core.s_max(a, b)
    return v


def sym_quantile(vals, q):
    """numpy.quantile (linear interpolation) of a non-empty list of NaN-free numbers"""
    v = sym_sorted(vals)
    pos = Fraction(q) * (len(v) - 1)
    lo = int(pos)
    frac = pos - lo
    return v[lo] if frac == 0 else v[lo] + (v[lo + 1] - v[lo]) * frac


def make_joblib():
    """joblib model: Parallel(n_jobs)(delayed(f)(...) for ...) evaluates the calls in order (n_jobs does not influence the result
    unless the called function depends on shared state - which the sequential model would show as a difference between calls)"""
    m = types.ModuleType("joblib")
    m.delayed = lambda f: (lambda *a, **k: (f, a, k))

    class Parallel:
        def __init__(self, n_jobs=None, return_as="list", **k):
            self.n_jobs, self.return_as = n_jobs, return_as

        def __call__(self, it):
            res = [f(*a, **k) for f, a, k in it]
            if self.return_as == "generator_unordered" and self.n_jobs not in (None, 1) and len(res) > 1:
                # completion order is the scheduler's choice: every order of the results is a path
                ctx, order, rest = core.cur(), [], list(range(len(res)))
                while len(rest) > 1 and ctx is not None:
                    v = core.Int(ctx.fresh_name("joblib_pick"))
                    ctx.assume(core.s_and(v >= 0, v < len(rest)))
                    order.append(rest.pop(int(v)))
                order += rest
                res = [res[i] for i in order]
            return res if self.return_as == "list" else iter(res)
    m.Parallel = Parallel
    return m


def standard_shims():
    torch = make_torch()
    shims = {"joblib": make_joblib(), "torch": torch, "numpy": make_numpy(), "numba": make_numba(), "tqdm": make_tqdm(), "pandas": make_pandas(), "pyfaidx": make_pyfaidx(), "pyBigWig": make_pybigwig()}
    return shims
