"""Environment model of torch.nn: Module with forward-pre / forward / full-backward hooks,
the layers the properties talk about, activations as uninterpreted functions."""
import collections
import itertools
import types

import numpy as np
import z3

from . import core, tensor as T
from .core import Sym, Inconclusive, ite
from .tensor import Tensor, Arr, _obj

ACT_NAMES = ("ReLU ReLU6 RReLU SELU CELU GELU SiLU Mish ELU LeakyReLU Sigmoid Tanh Softplus "
             "Softshrink LogSigmoid PReLU Hardtanh Hardswish").split()


DEFAULT_FLOAT = ["float32"]      # dtype tag of parameters / buffers created by the nn model (a check may switch to float64)

class Handle:
    _ids = itertools.count()

    def __init__(self, d):
        self.d = d
        self.id = next(Handle._ids)

    def remove(self):
        self.d.pop(self.id, None)


class Parameter(Tensor):
    def __init__(self, a, requires_grad=True, dtype=None):
        if isinstance(a, Arr):
            dtype = dtype or a.dtype
            a = a.a
        super().__init__(a, dtype=dtype or DEFAULT_FLOAT[0])
        self.requires_grad = False      # parameter gradients are never requested by the code under test


class Module:
    def __init__(self):
        d = self.__dict__
        d["_modules"] = collections.OrderedDict()
        d["_parameters"] = collections.OrderedDict()
        d["_buffers"] = collections.OrderedDict()
        d["_forward_hooks"] = collections.OrderedDict()
        d["_forward_pre_hooks"] = collections.OrderedDict()
        d["_backward_hooks"] = collections.OrderedDict()
        d["_backward_pre_hooks"] = collections.OrderedDict()      # torch has it; nothing in tangermeme registers one
        d["training"] = True
        d["calls"] = 0

    def __setattr__(self, k, v):
        if isinstance(v, Module):
            self.__dict__.setdefault("_modules", collections.OrderedDict())[k] = v
        elif isinstance(v, Parameter):
            self.__dict__.setdefault("_parameters", collections.OrderedDict())[k] = v
        object.__setattr__(self, k, v)

    def __delattr__(self, k):
        self._modules.pop(k, None)
        self._parameters.pop(k, None)
        object.__delattr__(self, k)

    def register_buffer(self, name, t):
        self._buffers[name] = t
        object.__setattr__(self, name, t)

    def modules(self, _memo=None):
        memo = _memo if _memo is not None else set()
        if id(self) in memo:
            return
        memo.add(id(self))              # like torch: a module reachable through two parents is yielded once
        yield self
        for m in self._modules.values():
            yield from m.modules(memo)

    def children(self):
        return iter(self._modules.values())

    def named_modules(self, prefix=""):
        yield prefix, self
        for n, m in self._modules.items():
            yield from m.named_modules(prefix + ("." if prefix else "") + n)

    def apply(self, fn):
        for m in self._modules.values():
            m.apply(fn)
        fn(self)
        return self

    def parameters(self):
        for m in self.modules():
            for p in m._parameters.values():
                yield p

    def buffers(self):
        for m in self.modules():
            for p in m._buffers.values():
                yield p

    def to(self, *a, **k):
        return self

    def cpu(self):
        return self

    def cuda(self):
        return self

    def float(self):
        return self

    def double(self):
        return self

    def eval(self):
        return self.train(False)

    def train(self, mode=True):
        for m in self.modules():
            m.__dict__["training"] = mode
        return self

    def requires_grad_(self, f=True):
        return self

    def register_forward_hook(self, h):
        hd = Handle(self._forward_hooks)
        self._forward_hooks[hd.id] = h
        return hd

    def register_forward_pre_hook(self, h):
        hd = Handle(self._forward_pre_hooks)
        self._forward_pre_hooks[hd.id] = h
        return hd

    def register_full_backward_hook(self, h):
        hd = Handle(self._backward_hooks)
        self._backward_hooks[hd.id] = h
        return hd

    def n_hooks(self):
        return sum(len(m._forward_hooks) + len(m._forward_pre_hooks) + len(m._backward_hooks) for m in self.modules())

    def __call__(self, *inputs, **kw):
        self.__dict__["calls"] = self.__dict__.get("calls", 0) + 1
        for h in list(self._forward_pre_hooks.values()):
            r = h(self, inputs)
            if r is not None:
                inputs = r if isinstance(r, tuple) else (r,)
        bh = list(self._backward_hooks.values())
        if bh and T.GRAD_ENABLED[0] and any(isinstance(x, Arr) and x.requires_grad for x in inputs):
            box = {}
            x = inputs[0]
            mod = self

            def bw_in(g):
                gi = (type(x)(g, dtype=x.dtype),)
                go = (type(x)(box["go"], dtype=x.dtype),)
                for h in bh:
                    ctx = core.cur()
                    fault = ctx.state.get("bhook_fault") if ctx else None
                    if fault:
                        fault(mod)
                    r = h(mod, gi, go)
                    if r is not None:
                        gi = r if isinstance(r, tuple) else (r,)
                return [gi[0].a]
            xin = x._mk(x.a, [x], bw_in)
            out = self.forward(xin, *inputs[1:], **kw)
            if not isinstance(out, Arr):
                raise Inconclusive("backward hook on a module with non-tensor output")

            def bw_out(g):
                box["go"] = g
                return [g]
            out = out._mk(out.a, [out], bw_out)
        else:
            out = self.forward(*inputs, **kw)
        for h in list(self._forward_hooks.values()):
            r = h(self, inputs, out)
            if r is not None:
                out = r
        return out

    def forward(self, *a, **k):
        raise NotImplementedError


class Sequential(Module):
    def __init__(self, *mods):
        super().__init__()
        for i, m in enumerate(mods):
            setattr(self, str(i), m)

    def forward(self, x):
        for m in self._modules.values():
            x = m(x)
        return x

    def __iter__(self):
        return iter(self._modules.values())

    def __len__(self):
        return len(self._modules)

    def __getitem__(self, i):
        return list(self._modules.values())[i]


def linear_map(x, triples, out_shape, bias=None):
    """out[o] = sum w * x[i] (+ bias[o]); triples: list of (out_cell, in_cell, w)"""
    out = np.empty(out_shape, dtype=object)
    out[...] = 0
    for o, i, w in triples:
        out[o] = out[o] + w * x.a[i]
    if bias is not None:
        for c in np.ndindex(*out_shape):
            out[c] = out[c] + bias(c)
    in_shape = x.a.shape

    def bw(g):
        z = np.empty(in_shape, dtype=object)
        z[...] = 0
        for o, i, w in triples:
            z[i] = z[i] + w * g[o]
        return [z]
    return x._mk(out, [x], bw, dtype=x.dtype if x.dtype not in T.INT_DTYPES else "float32")


class Linear(Module):
    def __init__(self, in_features, out_features, bias=True, weight=None, bias_values=None):
        super().__init__()
        self.in_features, self.out_features = in_features, out_features
        W = np.empty((out_features, in_features), dtype=object)
        W[...] = 0
        if weight is not None:
            W[...] = _obj(weight)
        self.weight = Parameter(W)
        if bias:
            b = np.empty((out_features,), dtype=object)
            b[...] = 0
            if bias_values is not None:
                b[...] = _obj(bias_values)
            self.bias = Parameter(b)
        else:
            self.bias = None

    def forward(self, x):
        W = self.weight.a
        lead = x.a.shape[:-1]
        if x.a.shape[-1] != self.in_features:
            raise RuntimeError("mat1 and mat2 shapes cannot be multiplied")
        triples = []
        for c in np.ndindex(*lead):
            for o in range(self.out_features):
                for i in range(self.in_features):
                    if not (not isinstance(W[o, i], Sym) and W[o, i] == 0):
                        triples.append((c + (o,), c + (i,), W[o, i]))
        b = self.bias.a if self.bias is not None else None
        return linear_map(x, triples, lead + (self.out_features,), (lambda c: b[c[-1]]) if b is not None else None)


class Conv1d(Module):
    def __init__(self, in_channels, out_channels, kernel_size, stride=1, padding=0, dilation=1, bias=True, weight=None, bias_values=None):
        super().__init__()
        self.in_channels, self.out_channels, self.kernel_size = in_channels, out_channels, kernel_size
        self.stride, self.padding, self.dilation = stride, padding, dilation
        W = np.empty((out_channels, in_channels, kernel_size), dtype=object)
        W[...] = 0
        if weight is not None:
            W[...] = _obj(weight)
        self.weight = Parameter(W)
        if bias:
            b = np.empty((out_channels,), dtype=object)
            b[...] = 0
            if bias_values is not None:
                b[...] = _obj(bias_values)
            self.bias = Parameter(b)
        else:
            self.bias = None

    def forward(self, x):
        return conv1d(x, self.weight, self.bias, self.stride, self.padding, self.dilation)


def conv1d(x, weight, bias=None, stride=1, padding=0, dilation=1):
    W = weight.a
    N, C, L = x.a.shape
    O, C2, K = W.shape
    if C != C2:
        raise RuntimeError("conv1d: channel mismatch")
    if padding == "same":
        tot = dilation * (K - 1)
        padl = tot // 2
        padr = tot - padl
    else:
        padl = padr = padding
    Lout = (L + padl + padr - dilation * (K - 1) - 1) // stride + 1
    if Lout <= 0:
        raise RuntimeError("Kernel size can't be greater than actual input size")
    triples = []
    for n in range(N):
        for o in range(O):
            for t in range(Lout):
                for c in range(C):
                    for k in range(K):
                        p = t * stride - padl + k * dilation
                        if 0 <= p < L and not (not isinstance(W[o, c, k], Sym) and W[o, c, k] == 0):
                            triples.append(((n, o, t), (n, c, p), W[o, c, k]))
    b = bias.a if bias is not None else None
    return linear_map(x, triples, (N, O, Lout), (lambda c: b[c[1]]) if b is not None else None)


class AvgPool1d(Module):
    def __init__(self, kernel_size, stride=None, padding=0):
        super().__init__()
        self.kernel_size, self.stride, self.padding = kernel_size, stride or kernel_size, padding

    def forward(self, x):
        N, C, L = x.a.shape
        K, S = self.kernel_size, self.stride
        Lout = (L - K) // S + 1
        from fractions import Fraction
        triples = [((n, c, t), (n, c, t * S + k), Fraction(1, K)) for n in range(N) for c in range(C) for t in range(Lout) for k in range(K)]
        return linear_map(x, triples, (N, C, Lout))


class Flatten(Module):
    def __init__(self, start_dim=1, end_dim=-1):
        super().__init__()
        self.start_dim, self.end_dim = start_dim, end_dim

    def forward(self, x):
        return x.flatten(self.start_dim, self.end_dim)


class BatchNorm1d(Module):
    """mode-sensitive layer with buffers: in training mode every forward updates running_mean / num_batches_tracked
    (the normalisation itself is the identity here: only the state change and the mode are of interest)"""
    def __init__(self, num_features, momentum=0.1, **k):
        super().__init__()
        self.num_features, self.momentum = num_features, momentum
        self.register_buffer("running_mean", Tensor(np.zeros((num_features,), dtype=object), dtype=DEFAULT_FLOAT[0]))
        self.register_buffer("num_batches_tracked", Tensor(np.zeros((), dtype=object), dtype="int64"))

    def forward(self, x):
        if self.training:
            from fractions import Fraction
            mean = x.detach().mean(dim=(0, 2)) if x.ndim == 3 else x.detach().mean(dim=0)
            self.running_mean.a[...] = (self.running_mean * Fraction(9, 10) + mean * Fraction(1, 10)).a
            self.num_batches_tracked.a[...] = self.num_batches_tracked.a[()] + 1
        return x


class Identity(Module):
    def forward(self, x):
        return x


_DROPOUT_CALLS = [0]


class Dropout(Module):
    """eval-mode identity; in training mode the output is an arbitrary tensor (so that a missing
    .eval() is observable)"""
    def __init__(self, p=0.5):
        super().__init__()
        self.p = p

    def forward(self, x):
        if self.training:
            # an arbitrary function of the value AND of the call (a fresh mask per forward call)
            f = z3.Function("dropout_train", z3.RealSort(), z3.IntSort(), z3.RealSort())
            _DROPOUT_CALLS[0] += 1
            k = _DROPOUT_CALLS[0]
            return x._mk(T._uf(lambda v: core.lift(f(_real(v), z3.IntVal(k))), 1)(x.a), [x], lambda g: [g])
        return x


def _real(v):
    z = core.zn(v)
    return z3.ToReal(z) if z3.is_int(z) else z


def _make_act(name):
    f = z3.Function("act_" + name, z3.RealSort(), z3.RealSort())
    df = z3.Function("dact_" + name, z3.RealSort(), z3.RealSort())

    class Act(Module):
        def __init__(self, *a, **k):
            super().__init__()

        def forward(self, x):
            out = T._uf(lambda v: core.lift(f(_real(v))), 1)(x.a)
            xa = x.a

            def bw(g):
                return [T._mul(g, T._uf(lambda v: core.lift(df(_real(v))), 1)(xa))]
            return x._mk(_obj(out), [x], bw, dtype=x.dtype if x.dtype not in T.INT_DTYPES else "float32")
    Act.__name__ = Act.__qualname__ = name
    Act.f, Act.df = f, df
    return Act


def max_pool1d(x, kernel_size, stride=None, padding=0, dilation=1, ceil_mode=False, return_indices=False):
    """arg-max positions are decided by forking (first maximum wins, like torch); implicit padding is -inf and is never
    selected; indices refer to the unpadded input (torch convention)"""
    if dilation != 1:
        raise Inconclusive("max_pool1d with dilation is not modelled")
    K = kernel_size if isinstance(kernel_size, int) else kernel_size[0]
    S = stride if stride else K
    S = S if isinstance(S, int) else S[0]
    P = padding if isinstance(padding, int) else padding[0]
    if P * 2 > K:
        raise RuntimeError("pad should be at most half of effective kernel size")
    N, C, L = x.a.shape
    Lout = (L + 2 * P - K) // S + 1
    if ceil_mode:
        # torch: ceil instead of floor, and the last window must start inside the input or its left padding
        Lout = -(-(L + 2 * P - K) // S) + 1
        if (Lout - 1) * S >= L + P:
            Lout -= 1
    out = np.empty((N, C, Lout), dtype=object)
    idx = np.empty((N, C, Lout), dtype=object)
    for n in range(N):
        for c in range(C):
            for t in range(Lout):
                cand = [p for p in range(t * S - P, t * S - P + K) if 0 <= p < L]
                best = cand[0]
                for p in cand[1:]:
                    if bool(x.a[n, c, p] > x.a[n, c, best]):
                        best = p
                out[n, c, t] = x.a[n, c, best]
                idx[n, c, t] = best
    in_shape = x.a.shape

    def bw(g):
        z = np.empty(in_shape, dtype=object)
        z[...] = 0
        for cell in np.ndindex(*idx.shape):
            tgt = (cell[0], cell[1], idx[cell])
            z[tgt] = z[tgt] + g[cell]
        return [z]
    r = x._mk(out, [x], bw)
    if return_indices:
        return r, Tensor(idx, dtype="int64")
    return r


def max_unpool1d(x, indices, kernel_size, stride=None, padding=0, output_size=None):
    N, C, Lout = x.a.shape
    K = kernel_size if isinstance(kernel_size, int) else kernel_size[0]
    S = stride if stride else K
    S = S if isinstance(S, int) else S[0]
    P = padding if isinstance(padding, int) else padding[0]
    L = output_size[-1] if output_size is not None else (Lout - 1) * S - 2 * P + K
    if output_size is not None:
        default = (Lout - 1) * S - 2 * P + K
        if not (default - S < L < default + S):
            raise RuntimeError("invalid output_size %s for max_unpool1d (expected about %d)" % (list(output_size), default))
    z = np.empty((N, C, L), dtype=object)
    z[...] = 0
    for cell in np.ndindex(N, C, Lout):
        i_ = int(indices.a[cell])
        if not (0 <= i_ < L):
            raise RuntimeError("max_unpool1d: index %d out of range for output length %d" % (i_, L))
        z[cell[0], cell[1], i_] = x.a[cell]
    return Tensor(z, dtype=x.dtype)


class MaxPool1d(Module):
    def __init__(self, kernel_size, stride=None, padding=0, dilation=1, return_indices=False, ceil_mode=False):
        super().__init__()
        self.kernel_size, self.stride, self.padding = kernel_size, stride or kernel_size, padding
        self.dilation, self.ceil_mode, self.return_indices = dilation, ceil_mode, return_indices

    def forward(self, x):
        return max_pool1d(x, self.kernel_size, self.stride, self.padding, self.dilation, self.ceil_mode)


class MaxPool2d(Module):
    def __init__(self, *a, **k):
        super().__init__()

    def forward(self, x):
        raise Inconclusive("MaxPool2d is not modelled")


class _Unmodelled(Module):
    def __init__(self, *a, **k):
        super().__init__()

    def forward(self, x):
        raise Inconclusive("%s is not modelled" % type(self).__name__)


class MSELoss(Module):
    def __init__(self, reduction="mean"):
        super().__init__()
        self.reduction = reduction

    def forward(self, a, b):
        d = a - b
        r = (d * d)
        if self.reduction == "none":
            return r
        return r.mean() if self.reduction == "mean" else r.sum()


def make_nn(torch):
    nn = types.ModuleType("torch.nn")
    nn.Module = Module
    nn.Parameter = Parameter
    nn.Sequential = Sequential
    nn.Linear = Linear
    nn.Conv1d = Conv1d
    nn.AvgPool1d = AvgPool1d
    nn.MaxPool1d = MaxPool1d
    nn.MaxPool2d = MaxPool2d
    nn.Flatten = Flatten
    nn.Identity = Identity
    nn.BatchNorm1d = BatchNorm1d
    nn.Dropout = Dropout
    nn.MSELoss = MSELoss
    for n in ACT_NAMES:
        setattr(nn, n, _make_act(n))
    for n in ("GLU", "Softmax"):
        setattr(nn, n, type(n, (_Unmodelled,), {}))
    fn = types.ModuleType("torch.nn.functional")
    fn.conv1d = conv1d
    fn.max_pool1d = max_pool1d
    fn.max_unpool1d = max_unpool1d
    fn.max_pool2d = fn.max_unpool2d = None
    nn.functional = fn
    return nn
