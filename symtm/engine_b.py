"""Engine B: predicated (guarded-update) symbolic interpreter for numba-subset kernels.

The function's AST is interpreted with every `if` executing both arms under guards, assignments under a symbolic
guard becoming If-terms, stores with a symbolic index becoming guarded updates of every candidate cell, and
out-of-bounds subscripts / exceeded unwinding bounds recorded as error obligations (guard, message) that the harness
must show unsatisfiable.  Values are raw z3 terms (Int / Real / Bool), Python numbers, or SLog (log2-domain numbers
represented by their linear value p >= 0, p == 0 <=> -inf).  Integer semantics are numba's (see DESIGN.md 2.3).
Unsupported AST nodes raise NotImplementedError (=> exit code 3), never a silent pass."""
import ast, z3, numpy, math

TRUE = z3.BoolVal(True)

def is_sym(x): return isinstance(x, z3.ExprRef)
def zv(x):
    if is_sym(x): return x
    if isinstance(x, bool): return z3.BoolVal(x)
    if isinstance(x, (int, numpy.integer)): return z3.IntVal(int(x))
    if isinstance(x, float):
        return z3.RealVal(repr(x)) if x == x and abs(x) != float('inf') else x
    return x
def simp(b):
    b = z3.simplify(b)
    if z3.is_true(b): return True
    if z3.is_false(b): return False
    return b
def AND(*a):
    r = []
    for x in a:
        if x is True: continue
        if x is False: return False
        r.append(x)
    if not r: return True
    return simp(z3.And(*r)) if len(r) > 1 else r[0]
def NOT(a):
    if a is True: return False
    if a is False: return True
    return simp(z3.Not(a))
def OR(*a): return NOT(AND(*[NOT(x) for x in a]))
def ITE(g, a, b):
    if g is True: return a
    if g is False: return b
    if a is b: return b
    if isinstance(a, SLog) or isinstance(b, SLog):
        return SLog(z3.simplify(z3.If(g, a.p, b.p)))
    if not is_sym(a) and not is_sym(b) and type(a) == type(b) and a == b: return a
    za, zb = zv(a), zv(b)
    if z3.is_int(za) and z3.is_real(zb): za = z3.ToReal(za)
    if z3.is_real(za) and z3.is_int(zb): zb = z3.ToReal(zb)
    return z3.simplify(z3.If(g, za, zb))

class SLog:
    """log2-domain number represented by its linear-domain value p >= 0 (p == 0 <=> -inf)."""
    def __init__(self, p): self.p = zv(p) if not is_sym(p) else p
    def __repr__(self): return f"SLog({self.p})"
NEG_INF = SLog(z3.RealVal(0))

class Arr:
    """numpy object array with guarded stores and symbolic index loads; records OOB obligations."""
    def __init__(self, a, name, errs):
        self.a = a; self.name = name; self.errs = errs
    @property
    def shape(self): return self.a.shape
    def __len__(self): return self.a.shape[0]
    def __iter__(self): return iter(self.a[k] for k in range(self.a.shape[0]))
    def _norm(self, idx):
        if not isinstance(idx, tuple): idx = (idx,)
        return idx
    def load(self, idx, guard):
        idx = self._norm(idx)
        if isinstance(idx[-1], Arr) and len(idx) == 1 and self.a.ndim == 1:      # fancy index by (possibly symbolic) index array
            out = numpy.empty(idx[0].a.shape[0], dtype=object)
            for t in range(out.shape[0]): out[t] = self.load((idx[0].a[t],), guard)
            return Arr(out, self.name + "[fancy]", self.errs)
        if any(isinstance(i, slice) for i in idx):
            assert all(isinstance(i, slice) or not is_sym(i) for i in idx)
            return Arr(self.a[tuple(i if isinstance(i, slice) else int(i) for i in idx)], self.name, self.errs)   # numpy view
        if len(idx) < self.a.ndim and all(not is_sym(i) for i in idx):
            return Arr(self.a[tuple(int(i) for i in idx)], self.name, self.errs)  # view
        if all(not is_sym(i) for i in idx):
            ii = tuple(int(i) for i in idx)
            for d, i in enumerate(ii):
                if not (0 <= i < self.a.shape[d]):
                    self.errs.append((guard, f"OOB load {self.name}{ii}")); return 0
            return self.a[ii]
        # symbolic: if-chain over the symbolic axes
        return self._chain(idx, guard)
    def _chain(self, idx, guard):
        import itertools
        axes = [range(self.a.shape[d]) if is_sym(i) else [int(i)] for d, i in enumerate(idx)]
        inb = AND(*[AND(simp(i >= 0), simp(i < self.a.shape[d])) for d, i in enumerate(idx) if is_sym(i)])
        self.errs.append((AND(guard, NOT(inb)), f"OOB load {self.name}[sym]"))
        r = None
        for cell in itertools.product(*axes):
            c = AND(*[simp(i == v) for i, v in zip(idx, cell) if is_sym(i)])
            val = self.a[cell]
            r = val if r is None else ITE(c, val, r)
        return r
    def store(self, idx, val, guard):
        import itertools
        idx = self._norm(idx)
        if len(idx) < self.a.ndim:
            idx = idx + (slice(None),) * (self.a.ndim - len(idx))
        axes = []
        conds = []
        for d, i in enumerate(idx):
            if isinstance(i, slice):
                axes.append(range(*i.indices(self.a.shape[d])))
            elif is_sym(i):
                axes.append(range(self.a.shape[d]))
                self.errs.append((AND(guard, NOT(AND(simp(i >= 0), simp(i < self.a.shape[d])))), f"OOB store {self.name}[sym]"))
            else:
                if not (0 <= int(i) < self.a.shape[d]):
                    self.errs.append((guard, f"OOB store {self.name}[{int(i)}]")); return
                axes.append([int(i)])
        cells = list(itertools.product(*axes))
        if isinstance(val, Arr):
            assert len(cells) == val.a.size and not any(is_sym(i) for i in idx)
            for cell, v in zip(cells, val.a.flat): self.a[cell] = ITE(guard, v, self.a[cell])
            return
        for cell in cells:
            c = AND(guard, *[simp(i == v) for i, v in zip(idx, cell) if is_sym(i)])
            self.a[cell] = ITE(c, val, self.a[cell])

class CList:
    def __init__(self, items=()): self.items = [(True, v) for v in items]
    def append_g(self, g, v): self.items.append((g, v))
    def __getitem__(self, k): return self.items[int(k)][1]
    def __len__(self): return len(self.items)
    def __iter__(self): return iter(self.items)

class Interp:
    def __init__(self, src_path, fname, extra_globals=None):
        tree = ast.parse(open(src_path).read())
        self.fn = next(n for n in ast.walk(tree) if isinstance(n, ast.FunctionDef) and n.name == fname)
        self.errs = []; self.solver = None; self.max_unroll = 50; self.unrolls = []; self.assumes = []
        self.globals = {"uint64": lambda x: x, "range": self.nb_range, "len": len, "enumerate": enumerate,
                        "min": self.smin, "max": self.smax, "numpy": self, "math": math, "int": self.nb_int,
                        "numba": self, "float": float}
        if extra_globals: self.globals.update(extra_globals)
    # numpy facade
    def empty(self, shape, dtype=None):
        if not isinstance(shape, tuple): shape = (shape,)
        a = numpy.empty(tuple(int(s) for s in shape), dtype=object)
        for i in numpy.ndindex(*a.shape): a[i] = z3.FreshConst(z3.IntSort() if 'int' in str(dtype) else z3.RealSort(), 'uninit')
        return Arr(a, "local", self.errs)
    # numba scalar constructors / helpers
    def uint64(self, x): return x if not isinstance(x, int) or x >= 0 else x + 2**64
    def int64(self, x): return x
    def float64(self, x): return x
    prange = property(lambda self: self.nb_range)
    def nb_range(self, *a):
        a = [int(v) - 2**64 if isinstance(v, int) and v >= 2**63 else v for v in a]   # intp reinterpretation
        return range(*a)
    def nb_int(self, x):
        if is_sym(x):
            x = zv(x)
            if z3.is_int(x): return x
            return z3.simplify(z3.If(x >= 0, z3.ToInt(x), -z3.ToInt(-x)))
        return int(x)
    inf = numpy.inf
    def arange(self, n):
        return Arr(numpy.array(list(range(int(n))), dtype=object), "arange", self.errs)
    @property
    def random(self): return self
    def seed(self, s): self.rng_calls = 0
    def permutation(self, n):
        n = max(int(n), 0); self.rng_calls = getattr(self, 'rng_calls', 0) + 1
        vs = [z3.Int(f"perm{self.rng_calls}_{t}") for t in range(n)]
        for v in vs: self.solver.add(v >= 0, v < n)
        if n > 1: self.solver.add(z3.Distinct(*vs))
        return Arr(numpy.array(vs, dtype=object), "perm", self.errs)
    def smin(self, a, b):
        if is_sym(a) or is_sym(b): return ITE(simp(zv(a) < zv(b)), a, b)
        return min(a, b)
    def smax(self, a, b):
        if is_sym(a) or is_sym(b): return ITE(simp(zv(a) > zv(b)), a, b)
        return max(a, b)
    def argmin(self, arr, g):
        vals = [arr.a[k] for k in range(arr.a.shape[0])]
        if all(not is_sym(v) for v in vals): return int(numpy.argmin([float(v) for v in vals]))
        am = z3.FreshConst(z3.IntSort(), 'argmin')
        cs = [am >= 0, am < len(vals)]
        for k, v in enumerate(vals):
            cs.append(z3.Implies(am == k, z3.And([zv(v) <= zv(w) for w in vals] + [zv(v) < zv(w) for w in vals[:k]])))
        self.assumes.append(z3.And(cs))
        if self.solver is not None: self.solver.add(z3.And(cs))
        return am
    def bound(self, e, g, minimize):
        if not is_sym(e): return int(e)
        o = z3.Optimize()
        for a in self.solver.assertions(): o.add(a)
        if is_sym(g): o.add(g)
        h = o.minimize(e) if minimize else o.maximize(e)
        if o.check() != z3.sat: return None
        v = (o.lower(h) if minimize else o.upper(h))
        return v.as_long()
    def run_block(self, stmts, env):
        self.block(stmts, env, True, {}); return env
    def call(self, *args):
        env = {a.arg: v for a, v in zip(self.fn.args.args, args)}
        self.block(self.fn.body, env, True, {})
        return env
    # statements under guard g; flags: dict with 'cont' guard etc.
    def block(self, stmts, env, g, fl):
        for s in stmts:
            ge = AND(g, NOT(fl.get('cont', False)), NOT(fl.get('brk', False)))
            if ge is False: return
            self.stmt(s, env, ge, fl)
    def stmt(self, s, env, g, fl):
        if isinstance(s, ast.Expr): self.ev(s.value, env, g); return
        if isinstance(s, ast.Assign):
            v = self.ev(s.value, env, g)
            for t in s.targets: self.assign(t, v, env, g)
            return
        if isinstance(s, ast.AugAssign):
            cur = self.ev(ast.copy_location(ast.fix_missing_locations(self._load(s.target)), s), env, g)
            v = self.binop(s.op, cur, self.ev(s.value, env, g))
            self.assign(s.target, v, env, g); return
        if isinstance(s, ast.If):
            c = self.truth(self.ev(s.test, env, g))
            self.block(s.body, env, AND(g, c), fl)
            self.block(s.orelse, env, AND(g, NOT(c)), fl); return
        if isinstance(s, ast.Continue):
            fl['cont'] = OR(fl.get('cont', False), g); return
        if isinstance(s, ast.Break):
            fl['brk'] = OR(fl.get('brk', False), g); return
        if isinstance(s, ast.For):
            symr = None
            if isinstance(s.iter, ast.Call) and getattr(s.iter.func, 'id', None) == 'range':
                rargs = [self.ev(a, env, g) for a in s.iter.args]
                if any(is_sym(a) for a in rargs):
                    lo, hi = (0, rargs[0]) if len(rargs) == 1 else (rargs[0], rargs[1])
                    symr = (lo, hi)
            if symr is not None:
                lo, hi = symr
                lo_c = self.bound(lo, g, minimize=True); hi_c = self.bound(hi, g, minimize=False)
                if lo_c is None or hi_c is None: return
                brk = False
                for item in range(lo_c, hi_c):
                    gi = AND(g, NOT(brk), simp(zv(lo) <= item), simp(item < zv(hi)))
                    if gi is False: continue
                    lfl = {'brk': brk}
                    self.assign(s.target, item, env, True)
                    self.block(s.body, env, gi, lfl)
                    brk = lfl.get('brk', False)
                if s.orelse: self.block(s.orelse, env, AND(g, NOT(brk)), fl)
                return
            it = self.ev(s.iter, env, g)
            brk = False
            for item in it:
                lfl = {'brk': brk}
                gi = AND(g, NOT(brk))
                if gi is False: break
                self.assign(s.target, item, env, gi)
                self.block(s.body, env, gi, lfl)
                brk = lfl.get('brk', False)
            if s.orelse:
                self.block(s.orelse, env, AND(g, NOT(brk)), fl)
            return
        if isinstance(s, ast.While):
            brk = False; n = 0
            while True:
                c = self.truth(self.ev(s.test, env, g))
                gi = AND(g, c, NOT(brk))
                if gi is False: break
                if self.solver is not None and is_sym(gi) and self.solver.check(gi) == z3.unsat: break
                n += 1
                if n > self.max_unroll:
                    self.errs.append((gi, "unwinding bound exceeded")); break
                lfl = {'brk': brk}
                self.block(s.body, env, gi, lfl)
                brk = lfl.get('brk', False)
            self.unrolls.append(n)
            return
        if isinstance(s, ast.Return):
            env['__return__'] = self.ev(s.value, env, g); return
        raise NotImplementedError(ast.dump(s)[:80])
    def _load(self, t):
        import copy
        t2 = copy.deepcopy(t); t2.ctx = ast.Load(); return t2
    def assign(self, t, v, env, g):
        if isinstance(t, ast.Name):
            old = env.get(t.id)
            env[t.id] = v if (g is True or old is None) else ITE(g, v, old); return
        if isinstance(t, ast.Tuple):
            for tt, vv in zip(t.elts, v): self.assign(tt, vv, env, g)
            return
        if isinstance(t, ast.Subscript):
            arr = self.ev(t.value, env, g); idx = self.ev(t.slice, env, g)
            arr.store(idx, v, g); return
        raise NotImplementedError(ast.dump(t)[:80])
    def truth(self, v):
        if is_sym(v): return simp(v)
        return bool(v)
    def binop(self, op, a, b):
        if isinstance(a, SLog) or isinstance(b, SLog):
            assert isinstance(op, ast.Add) and isinstance(a, SLog) and isinstance(b, SLog)
            return SLog(z3.simplify(a.p * b.p))
        if not is_sym(a) and not is_sym(b):
            return {ast.Add: lambda: a+b, ast.Sub: lambda: a-b, ast.Mult: lambda: a*b, ast.FloorDiv: lambda: a//b, ast.Div: lambda: a/b, ast.Pow: lambda: a**b}[type(op)]()
        a, b = zv(a), zv(b)
        if isinstance(op, ast.Pow):
            return z3.Function("pow", z3.RealSort(), z3.RealSort(), z3.RealSort())(z3.ToReal(a) if z3.is_int(a) else a, z3.ToReal(b) if z3.is_int(b) else b)
        if isinstance(op, ast.Div):
            a = z3.ToReal(a) if z3.is_int(a) else a; b = z3.ToReal(b) if z3.is_int(b) else b
        r = {ast.Add: lambda: a+b, ast.Sub: lambda: a-b, ast.Mult: lambda: a*b, ast.Div: lambda: a/b}[type(op)]()
        return z3.simplify(r)
    def ev(self, e, env, g):
        if isinstance(e, ast.Constant): return e.value
        if isinstance(e, ast.Slice):
            f = lambda x: None if x is None else int(self.ev(x, env, g))
            return slice(f(e.lower), f(e.upper), f(e.step))
        if isinstance(e, ast.Name):
            if e.id in env: return env[e.id]
            return self.globals[e.id]
        if isinstance(e, ast.Tuple): return tuple(self.ev(x, env, g) for x in e.elts)
        if isinstance(e, ast.Attribute):
            v = self.ev(e.value, env, g)
            if isinstance(v, Arr) and e.attr == 'shape': return v.shape
            return getattr(v, e.attr)
        if isinstance(e, ast.BinOp): return self.binop(e.op, self.ev(e.left, env, g), self.ev(e.right, env, g))
        if isinstance(e, ast.UnaryOp):
            v = self.ev(e.operand, env, g)
            if isinstance(e.op, ast.USub):
                if v is numpy.inf or (isinstance(v, float) and v == float('inf')): return NEG_INF
                return -v
            if isinstance(e.op, ast.Not): return NOT(self.truth(v))
        if isinstance(e, ast.BoolOp):
            vals = [self.truth(self.ev(x, env, g)) for x in e.values]   # no short-circuit side effects in kernels
            return AND(*vals) if isinstance(e.op, ast.And) else OR(*vals)
        if isinstance(e, ast.Compare):
            l = self.ev(e.left, env, g); res = []
            for op, r in zip(e.ops, e.comparators):
                r = self.ev(r, env, g)
                if isinstance(l, SLog) or isinstance(r, SLog):
                    c = simp(l.p != r.p) if isinstance(op, ast.NotEq) else simp(l.p == r.p)
                elif not is_sym(l) and not is_sym(r):
                    c = {ast.Lt: l < r, ast.LtE: l <= r, ast.Gt: l > r, ast.GtE: l >= r, ast.Eq: l == r, ast.NotEq: l != r}[type(op)]
                else:
                    a, b = zv(l), zv(r)
                    c = simp({ast.Lt: lambda: a < b, ast.LtE: lambda: a <= b, ast.Gt: lambda: a > b, ast.GtE: lambda: a >= b, ast.Eq: lambda: a == b, ast.NotEq: lambda: a != b}[type(op)]())
                res.append(c); l = r
            return AND(*res)
        if isinstance(e, ast.Subscript):
            arr = self.ev(e.value, env, g); idx = self.ev(e.slice, env, g)
            if isinstance(arr, Arr): return arr.load(idx, g)
            return arr[idx]
        if isinstance(e, ast.ListComp):
            gen = e.generators[0]; out = []
            for item in self.ev(gen.iter, env, g):
                self.assign(gen.target, item, env, True); out.append(self.ev(e.elt, env, g))
            return CList(out)
        if isinstance(e, ast.List): return CList([self.ev(x, env, g) for x in e.elts])
        if isinstance(e, ast.Call) and isinstance(e.func, ast.Attribute) and e.func.attr == 'append':
            lst = self.ev(e.func.value, env, g); v = self.ev(e.args[0], env, g); (lst.append_g(g, v) if isinstance(lst, CList) else lst.append((g, v))); return None
        if isinstance(e, ast.Call) and isinstance(e.func, ast.Attribute) and e.func.attr == 'argmin':
            arr = self.ev(e.func.value, env, g); return self.argmin(arr, g)
        if isinstance(e, ast.Call):
            f = self.ev(e.func, env, g); args = [self.ev(a, env, g) for a in e.args]
            kw = {k.arg: self.ev(k.value, env, g) for k in e.keywords}
            return f(*args, **kw)
        raise NotImplementedError(ast.dump(e)[:80])
