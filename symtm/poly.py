"""Exact polynomial normal form (Fractions) for z3 Real/Int terms: decides polynomial identities that z3 NRA finds slow.
to_poly(e, memo, subst) -> {monomial: coefficient}; an empty dict means the term is identically zero."""
import z3
from fractions import Fraction
def to_poly(e, memo, subst=None):
    """z3 Real polynomial expr -> dict {monomial(tuple of (varname,pow) sorted): Fraction}"""
    k = e.get_id()
    if k in memo: return memo[k][1]          # the entry keeps the term alive: z3 re-uses the ids of collected terms
    d = e.decl().kind()
    if z3.is_rational_value(e) or z3.is_int_value(e):
        r = {(): Fraction(e.as_fraction()) if z3.is_rational_value(e) else Fraction(e.as_long())}
    elif z3.is_const(e):
        n = e.decl().name()
        if subst and n in subst: r = subst[n]
        else: r = {((n,1),): Fraction(1)}
    elif d == z3.Z3_OP_ADD:
        r = {}
        for c in e.children():
            for m,v in to_poly(c, memo, subst).items(): r[m] = r.get(m,0)+v
    elif d == z3.Z3_OP_SUB:
        ch = e.children(); r = dict(to_poly(ch[0], memo, subst))
        for c in ch[1:]:
            for m,v in to_poly(c, memo, subst).items(): r[m] = r.get(m,0)-v
    elif d == z3.Z3_OP_UMINUS:
        r = {m:-v for m,v in to_poly(e.children()[0], memo, subst).items()}
    elif d == z3.Z3_OP_MUL:
        r = {(): Fraction(1)}
        for c in e.children(): r = pmul(r, to_poly(c, memo, subst))
    elif d == z3.Z3_OP_TO_REAL:
        r = to_poly(e.children()[0], memo, subst)
    elif d == z3.Z3_OP_POWER and z3.is_int_value(e.children()[1]) or (d == z3.Z3_OP_POWER and z3.is_rational_value(e.children()[1]) and e.children()[1].as_fraction().denominator == 1):
        n_ = int(e.children()[1].as_fraction()) if z3.is_rational_value(e.children()[1]) else e.children()[1].as_long()
        if n_ < 0:
            raise ValueError("non-polynomial: negative power")
        base = to_poly(e.children()[0], memo, subst)
        r = {(): Fraction(1)}
        for _ in range(n_): r = pmul(r, base)
    else:
        raise ValueError("non-polynomial: %s" % e.decl())
    r = {m:v for m,v in r.items() if v != 0}
    memo[k] = (e, r)
    return r
def pmul(a, b):
    r = {}
    for m1,v1 in a.items():
        for m2,v2 in b.items():
            d = dict(m1)
            for n,p in m2: d[n] = d.get(n,0)+p
            m = tuple(sorted(d.items()))
            r[m] = r.get(m,0)+v1*v2
    return r
