"""Environment model: torch.Tensor / numpy.ndarray as numpy *object* arrays whose elements are
Python numbers or symtm.core symbolic values.  Structural operations are delegated to numpy
itself (views, broadcasting, advanced-index layout), element operations go through the value
classes.  A small reverse-mode tape gives torch.autograd.grad for the C04-C07 checks.
"""
import itertools
import builtins
from fractions import Fraction

import numpy as np
import z3

from . import core
from .core import Sym, SInt, SReal, SBool, ite, s_and, s_or, s_not, is_sym, Inconclusive

GRAD_ENABLED = [True]
INFERENCE_MODE = [False]      # torch.inference_mode(): tensors created inside are "inference tensors"


def _uf(f, nin):
    return np.frompyfunc(f, nin, 1)


def _mulf(a, b):
    if not isinstance(a, Sym) and not isinstance(b, Sym):
        return a * b
    return a * b


_add = _uf(lambda a, b: a + b, 2)
_sub = _uf(lambda a, b: a - b, 2)
_mul = _uf(_mulf, 2)
def _divf(a, b):
    if not isinstance(b, Sym) and b == 0:
        return float("nan")              # torch gives nan / inf (no exception); the value must then be discarded by the caller
    if isinstance(a, float) and a != a:
        return a
    if not isinstance(a, (Sym, float)) and not isinstance(b, (Sym, float)):
        return Fraction(a) / Fraction(b)
    return a / b


_div = _uf(_divf, 2)
_fdiv = _uf(lambda a, b: a // b, 2)
_mod = _uf(lambda a, b: a % b, 2)
_neg = _uf(lambda a: -a, 1)
_abs = _uf(lambda a: abs(a), 1)
_lt = _uf(lambda a, b: a < b, 2)
_le = _uf(lambda a, b: a <= b, 2)
_gt = _uf(lambda a, b: a > b, 2)
_ge = _uf(lambda a, b: a >= b, 2)
_eq = _uf(lambda a, b: a == b, 2)
_ne = _uf(lambda a, b: a != b, 2)
_and = _uf(lambda a, b: s_and(a, b), 2)
_or = _uf(lambda a, b: s_or(a, b), 2)
_not = _uf(lambda a: s_not(a), 1)
_where = _uf(lambda c, a, b: ite(c, a, b), 3)
_max2 = _uf(lambda a, b: core.s_max(a, b), 2)
_min2 = _uf(lambda a, b: core.s_min(a, b), 2)


def _obj(a):
    """to numpy object array"""
    if isinstance(a, Arr):
        return a.a
    if isinstance(a, np.ndarray):
        if a.dtype == object:
            return a
        r = np.empty(a.shape, dtype=object)
        if a.size:
            r[...] = a.tolist() if a.ndim == 0 else _nested(a)
        return r
    if isinstance(a, (list, tuple)):
        a = [(_obj(x).tolist() if isinstance(x, (Arr, np.ndarray)) else x) for x in a]
        probe = np.array(a, dtype=object)
        return probe
    r = np.empty((), dtype=object)
    r[()] = a
    return r


def _nested(a):
    r = np.empty(a.shape, dtype=object)
    flat = a.ravel().tolist()
    for i, v in enumerate(flat):
        r.flat[i] = v
    return r


def _pyval(v):
    if isinstance(v, np.generic):
        return v.item()
    return v


def has_sym(a):
    if isinstance(a, Arr):
        a = a.a
    if isinstance(a, np.ndarray):
        if a.dtype != object:
            return False
        return builtins.any(isinstance(x, Sym) for x in a.flat)
    return isinstance(a, Sym)


INT_DTYPES = {"int8", "int16", "int32", "int64", "uint8", "uint64", "bool"}


def _infer_dtype(a, kind):
    if a.size == 0:
        return "float32" if kind == "torch" else "float64"
    allb = True
    alli = True
    for x in a.flat:
        if isinstance(x, (bool, SBool, np.bool_)):
            continue
        allb = False
        if isinstance(x, (int, SInt, np.integer)):
            continue
        alli = False
        break
    if allb:
        return "bool"
    if alli:
        return "int64"
    return "float32" if kind == "torch" else "float64"


INT_RANGE = {"int8": (-128, 256), "int16": (-32768, 65536), "int32": (-2 ** 31, 2 ** 32), "int64": (-2 ** 63, 2 ** 64), "uint8": (0, 256)}


WRAP_SYMBOLIC = [False]


def wrap_int(v, dtype):
    """two's-complement wrap of a CONCRETE integer stored into a fixed-width integer array (symbolic values are left
    unwrapped: value ranges of symbolic data are bounded far below every width by the harnesses)"""
    r = INT_RANGE.get(dtype)
    if r is not None and WRAP_SYMBOLIC[0] and isinstance(v, core.SInt):
        # opt-in (a harness whose claim is about magnitudes): symbolic stores wrap too
        lo, mod = r
        return core.lift((core.zn(v) - lo) % mod + lo)
    if r is None or isinstance(v, (Sym, bool)) or not isinstance(v, (int, np.integer)):
        return v
    lo, mod = r
    v = int(v)
    return (v - lo) % mod + lo


class Node:
    __slots__ = ("parents", "bw")

    def __init__(self, parents, bw):
        self.parents = parents
        self.bw = bw


_ids = itertools.count()

NARROW_FLOATS = ("float32", "float16", "bfloat16")
_rnd_narrow = z3.Function("round_to_narrow_float", z3.RealSort(), z3.RealSort())


def _narrow_float(v):
    """float64 -> float32/16 conversion: a concrete value is rounded by numpy; a symbolic real goes through an uninterpreted
    rounding function (the solver is free to pick a value float32 cannot represent; counterexamples are replayed on real torch).
    Integer-valued cells (one-hot entries, small counts) are exact."""
    if isinstance(v, (SInt, SBool, bool, int, np.integer)):
        return v
    if isinstance(v, core.SLog):
        return v
    if isinstance(v, SReal):
        return core.lift(_rnd_narrow(v.z))
    if isinstance(v, (float, Fraction)):
        f = float(np.float32(float(v)))
        return v if f == v else f
    return v


NARROW_TRACK = [None]      # a list while a harness wants to see lossy stores into float32/16 arrays (None = off)


def _lossy_in_narrow(v):
    """would storing v into a float32/16 array lose information?  (integers, +-inf and float32-representable concretes do not)"""
    if isinstance(v, (SBool, bool, int, np.integer)):
        return False
    if isinstance(v, SInt):
        return False
    if isinstance(v, core.SLog):
        return not (not isinstance(v.p, Sym) and v.p == 0)          # -inf is exact, any other log-domain number is not
    if isinstance(v, SReal):
        return True
    if isinstance(v, float):
        return v == v and v not in (float("inf"), float("-inf")) and float(np.float32(v)) != v
    if isinstance(v, Fraction):
        return float(np.float32(float(v))) != v
    return False


_PENDING_NG = []


def _raise_ng(what):
    def bw(g):
        raise Inconclusive("autograd model: a gradient flows through %s, which has no backward rule" % what)
    return bw


class DTypeName(str):
    """dtype tag: a string that also answers the common numpy.dtype attributes"""
    _codes = {"float64": "<f8", "float32": "<f4", "float16": "<f2", "int64": "<i8", "int32": "<i4", "int16": "<i2", "int8": "|i1",
              "uint8": "|u1", "uint64": "<u8", "bool": "|b1"}

    @property
    def str(self):
        return self._codes.get(str.__str__(self), "|O")

    @property
    def name(self):
        return str.__str__(self)

    @property
    def itemsize(self):
        c = self._codes.get(str.__str__(self))
        return int(c[2:]) if c else 8

    @property
    def kind(self):
        c = self._codes.get(str.__str__(self))
        return c[1] if c else "O"


class Size(tuple):
    """torch.Size: a tuple with numel(); slices of it are Sizes again"""

    def numel(self):
        n = 1
        for v in self:
            n *= int(v)
        return n

    def __getitem__(self, k):
        r = tuple.__getitem__(self, k)
        return Size(r) if isinstance(k, slice) else r


class Arr:
    """common base of the Tensor and NDArray facades"""
    kind = "numpy"
    __array_priority__ = 2000
    __hash__ = None

    def __init__(self, a, dtype=None, node=None, requires_grad=False):
        if isinstance(a, Arr):
            dtype = dtype or a.dtype
            a = a.a
        a = _obj(a)
        self.a = a
        self.dtype = DTypeName(dtype or _infer_dtype(a, self.kind))
        if node is None and _PENDING_NG:
            src, what = _PENDING_NG.pop()
            del _PENDING_NG[:]
            if self.dtype != "bool":
                node = Node([src], _raise_ng(what))
        self.node = node
        self.requires_grad = bool(requires_grad) or node is not None
        self.id = next(_ids)
        self.device = "cpu"
        self._inference = INFERENCE_MODE[0]

    # ---- construction helpers
    def _new(self, a, dtype=None):
        return type(self)(a, dtype=dtype or self.dtype)

    def _mk(self, a, parents, bw, dtype=None):
        track = GRAD_ENABLED[0] and builtins.any(isinstance(p, Arr) and p.requires_grad for p in parents)
        if track and not INFERENCE_MODE[0] and builtins.any(isinstance(p, Arr) and getattr(p, "_inference", False) and not p.requires_grad for p in parents):
            # torch: an inference tensor (created under torch.inference_mode) cannot take part in an autograd graph later
            raise RuntimeError("Inference tensors cannot be saved for backward. To work around you can make a clone to get a normal tensor and use it in autograd.")
        return type(self)(a, dtype=dtype or self.dtype, node=Node(parents, bw) if track else None)

    def _nograd(self, what):
        """this op has no backward rule in the autograd model: remember it; the result is attached to the graph by a node
        whose backward raises, so a gradient that would have to flow through it is an Inconclusive, never a silent cut"""
        if GRAD_ENABLED[0] and self.requires_grad:
            _PENDING_NG.append((self, what))

    # ---- basic protocol
    @property
    def shape(self):
        return Size(self.a.shape)

    @property
    def ndim(self):
        return self.a.ndim

    @property
    def size(self):
        return self.a.size if self.kind == "numpy" else self._size

    def _size(self, d=None):
        return tuple(self.a.shape) if d is None else self.a.shape[d]

    def dim(self):
        return self.a.ndim

    def numel(self):
        return self.a.size

    def __len__(self):
        return self.a.shape[0]

    def __iter__(self):
        if self.kind == "numpy" and self.a.ndim == 1:
            # numpy yields scalars (not 0-d arrays) when a 1-D array is iterated; a scalar used as an index is basic
            # indexing (a view), a 0-d array is not
            for i in range(self.a.shape[0]):
                yield self.a[i]
            return
        for i in range(self.a.shape[0]):
            yield self[i]

    def __repr__(self):
        return "%s(%s, dtype=%s)" % (type(self).__name__, str(self.a.tolist())[:200], self.dtype)

    def __bool__(self):
        if self.a.size != 1:
            raise RuntimeError("Boolean value of Tensor with more than one value is ambiguous")
        return bool(self.a.flat[0])

    def __index__(self):
        if self.a.size != 1:
            raise TypeError("only integer tensors of a single element can be converted to an index")
        v = self.a.flat[0]
        return v.__index__() if isinstance(v, Sym) else int(v)

    def __int__(self):
        if self.a.size != 1:
            raise TypeError("only one element tensors can be converted to Python scalars")
        v = core.s_int(self.a.flat[0])         # truncation toward zero for reals, like int(tensor)
        return int(v)

    def __float__(self):
        v = self.a.flat[0]
        return float(v)

    def item(self):
        if self.a.size != 1:
            raise ValueError("only one element tensors can be converted to Python scalars")
        return self.a.flat[0]

    def tolist(self):
        return self.a.tolist()

    def tobytes(self):
        # contents as a hashable byte string (cache keys); symbolic cells contribute their term
        return repr([str(core.zn(v)) if isinstance(v, Sym) else repr(v) for v in self.a.flat]).encode()

    # ---- indexing
    def _prep_key(self, key):
        if not isinstance(key, tuple):
            key = (key,)
        out = []
        for k in key:
            if isinstance(k, Arr) and k.a.ndim == 0 and not has_sym(k.a) and not isinstance(k.a[()], (bool, np.bool_)):
                # torch treats a 0-d integer tensor index like a Python int (basic indexing, a view); in the numpy model a 0-d array
                # only ever stands for a numpy *scalar* (element access yields 0-d arrays here), which indexes like an int too
                out.append(int(k.a[()]))
                continue
            if isinstance(k, Arr):
                ka = k.a
                if has_sym(ka):
                    if k.dtype == "bool" or builtins.all(isinstance(x, (bool, SBool)) for x in ka.flat):
                        ka = concretize_bool_array(ka)
                        out.append(ka)
                    else:
                        out.append(ka)
                else:
                    if k.dtype == "bool" or (ka.size and builtins.all(isinstance(x, (bool, np.bool_)) for x in ka.flat)):
                        out.append(ka.astype(bool))
                    else:
                        out.append(ka.astype(np.int64))
            elif isinstance(k, (list, np.ndarray)):
                ka = _obj(k)
                if has_sym(ka):
                    out.append(ka)
                elif ka.size and builtins.all(isinstance(x, (bool, np.bool_)) for x in ka.flat):
                    out.append(ka.astype(bool))
                else:
                    out.append(ka.astype(np.int64))
            elif isinstance(k, slice):
                f = lambda v: (v.__index__() if isinstance(v, (Sym, Arr)) else v)
                out.append(slice(f(k.start), f(k.stop), f(k.step)))
            elif isinstance(k, SBool):
                out.append(bool(k))
            elif isinstance(k, Sym):
                out.append(k)
            elif isinstance(k, np.generic):
                out.append(k.item())
            else:
                out.append(k)
        return tuple(out)

    def __getitem__(self, key):
        key = self._prep_key(key)
        if builtins.any(isinstance(k, Sym) or (isinstance(k, np.ndarray) and k.dtype == object) for k in key):
            self._nograd("symbolic gather")
            r = _sym_getitem(self.a, key)
            return self._new(r)
        r = self.a[key]
        if not isinstance(r, np.ndarray):
            r0 = np.empty((), dtype=object)
            r0[()] = r
            r = r0
        if GRAD_ENABLED[0] and self.requires_grad:
            shape = self.a.shape

            def bw(g, key=key, shape=shape):
                z = np.zeros(shape, dtype=object)
                z[...] = 0
                # accumulate (indices may repeat)
                idx = np.arange(int(np.prod(shape)) if shape else 1).reshape(shape)[key]
                zf = z.reshape(-1)
                for t, gv in zip(np.asarray(idx).reshape(-1), np.broadcast_to(g, np.shape(idx)).reshape(-1)):
                    zf[t] = zf[t] + gv
                return [zf.reshape(shape)]
            return self._mk(r, [self], bw)
        return self._new(r)

    def __setitem__(self, key, v):
        key = self._prep_key(key)
        if isinstance(v, Arr):
            v = v.a
        elif isinstance(v, (list, tuple, np.ndarray)):
            v = _obj(v)
        if builtins.any(isinstance(k, Sym) or (isinstance(k, np.ndarray) and k.dtype == object) for k in key):
            _sym_setitem(self.a, key, v)
            return
        if isinstance(v, np.ndarray) and v.ndim == 0:
            v = v[()]
        if self.dtype in INT_RANGE and self.dtype != "int64":
            v = _uf(lambda q: wrap_int(q, self.dtype), 1)(v) if isinstance(v, np.ndarray) else wrap_int(v, self.dtype)
        if NARROW_TRACK[0] is not None and str(self.dtype) in NARROW_FLOATS:
            for q in (v.flat if isinstance(v, np.ndarray) else [v]):
                if _lossy_in_narrow(q):
                    NARROW_TRACK[0].append((str(self.dtype), repr(q)[:60]))
        try:
            self.a[key] = v
        except ValueError as e:
            if self.kind == "torch":       # torch reports shape mismatches as RuntimeError
                raise RuntimeError("shape mismatch in index assignment: %s" % e)
            raise

    # ---- arithmetic
    def _oa(self, o):
        if isinstance(o, Arr):
            return o.a
        if isinstance(o, (list, tuple, np.ndarray)):
            return _obj(o)
        return _pyval(o)

    def _rdtype(self, o, div=False):
        od = o.dtype if isinstance(o, Arr) else None
        ds = [self.dtype] + ([od] if od else [])
        if od is None and isinstance(o, (float, Fraction, SReal)):
            ds.append("float32" if self.kind == "torch" else "float64")
        fl = [d for d in ds if d not in INT_DTYPES]
        if fl:
            return "float64" if "float64" in fl else fl[0]
        if div:
            return "float32" if self.kind == "torch" else "float64"
        if self.dtype == "bool" and (od in (None, "bool")):
            return "int64" if od is None else "bool"
        return self.dtype if self.dtype != "bool" else (od or "int64")

    def _bin(self, o, f, bwf=None, div=False, dtype=None):
        oa = self._oa(o)
        with np.errstate(invalid="ignore"):
            r = f(self.a, oa)
        if not isinstance(r, np.ndarray):
            r = _obj(r)
        ps = [self] + ([o] if isinstance(o, Arr) else [])
        dt = dtype or self._rdtype(o, div)
        if bwf is None:
            for p in ps:
                p._nograd(getattr(f, "__name__", "op"))
            return self._new(r, dt)
        sa, sb = self.a, oa
        return self._mk(r, ps, lambda g: bwf(g, sa, sb)[:len(ps)], dtype=dt)

    def __add__(self, o):
        return self._bin(o, _add, lambda g, a, b: [_unb(g, a), _unb(g, b)])

    __radd__ = __add__

    def __sub__(self, o):
        return self._bin(o, _sub, lambda g, a, b: [_unb(g, a), _unb(_neg(g), b)])

    def __rsub__(self, o):
        return self._bin(o, lambda a, b: _sub(b, a), lambda g, a, b: [_unb(_neg(g), a), _unb(g, b)])

    def __mul__(self, o):
        return self._bin(o, _mul, lambda g, a, b: [_unb(_mul(g, b), a), _unb(_mul(g, a), b)])

    __rmul__ = __mul__

    def __truediv__(self, o):
        return self._bin(o, _div, lambda g, a, b: [_unb(_div(g, b), a), _unb(_neg(_div(_mul(g, a), _mul(b, b))), b)], div=True)

    def __rtruediv__(self, o):
        return self._bin(o, lambda a, b: _div(b, a), None, div=True)

    def __floordiv__(self, o):
        return self._bin(o, _fdiv)

    def __mod__(self, o):
        return self._bin(o, _mod)

    def __neg__(self):
        return self._mk(_neg(self.a), [self], lambda g: [_neg(g)])

    def __abs__(self):
        self._nograd("abs")
        return self._new(_abs(self.a))

    def abs(self):
        return abs(self)

    def round(self, decimals=0):
        """element-wise round half to even to `decimals` places (numpy / torch semantics on exact values)"""
        self._nograd("round")
        f = lambda v: (v if isinstance(v, (int, SInt)) and not isinstance(v, bool) else (lambda r_: r_ if decimals else (core.s_float(r_) if str(self.dtype).startswith("float") else r_))(core.s_round(v, decimals)))
        return self._new(_uf(f, 1)(self.a) if self.a.size else self.a.copy())

    def __pow__(self, o):
        if isinstance(o, int) and o >= 0:
            r = None
            for _ in range(o):
                r = self if r is None else r * self
            return r if r is not None else self._new(np.ones(self.shape, dtype=object))
        raise Inconclusive("pow with non-integer exponent not modelled")

    def pow(self, o):
        return self ** o

    def __rpow__(self, base):
        if builtins.any(isinstance(e, core.SLog) for e in self.a.flat):
            return self._new(_uf(lambda e: base ** e, 1)(self.a))        # 2 ** log-domain value = its linear value
        if has_sym(self.a) or isinstance(base, Sym):
            raise Inconclusive("symbolic exponent not modelled")
        return self._new(_uf(lambda e: base ** (int(e) if float(e) == int(e) else float(e)), 1)(self.a))

    def _is_np_scalar(self):
        # element access on the numpy model yields 0-d arrays; they stand for numpy *scalars*, which are immutable:
        # `acc = base; acc += x` must rebind acc and leave base alone (found through negative seed C14-neg1)
        return self.kind == "numpy" and self.a.ndim == 0

    def __iadd__(self, o):
        if self._is_np_scalar():
            return self + o
        self._inplace(o, _add)
        return self

    def __isub__(self, o):
        if self._is_np_scalar():
            return self - o
        self._inplace(o, _sub)
        return self

    def __imul__(self, o):
        if self._is_np_scalar():
            return self * o
        self._inplace(o, _mul)
        return self

    def __itruediv__(self, o):
        if self._is_np_scalar():
            return self / o
        self._inplace(o, _div)
        return self

    def _inplace(self, o, f):
        if GRAD_ENABLED[0] and (self.requires_grad or (isinstance(o, Arr) and o.requires_grad)):
            raise Inconclusive("autograd model: in-place op on a tracked tensor")
        self.a[...] = f(self.a, self._oa(o))

    def _cmp(self, o, f):
        r = f(self.a, self._oa(o))
        if not isinstance(r, np.ndarray):
            r = _obj(r)
        return type(self)(r, dtype="bool")

    def __lt__(self, o):
        return self._cmp(o, _lt)

    def __le__(self, o):
        return self._cmp(o, _le)

    def __gt__(self, o):
        return self._cmp(o, _gt)

    def __ge__(self, o):
        return self._cmp(o, _ge)

    def _is_str_array(self):
        return self.a.size > 0 and builtins.all(isinstance(v, str) for v in self.a.flat)

    def __eq__(self, o):
        if isinstance(o, str) and self._is_str_array():          # numpy: element-wise comparison of a string array with a string
            return type(self)(_uf(lambda v: v == o, 1)(self.a), dtype="bool")
        if o is None or isinstance(o, str):
            return False
        return self._cmp(o, _eq)

    def __ne__(self, o):
        if isinstance(o, str) and self._is_str_array():
            return type(self)(_uf(lambda v: v != o, 1)(self.a), dtype="bool")
        if o is None or isinstance(o, str):
            return True
        return self._cmp(o, _ne)

    def __and__(self, o):
        return self._cmp(o, _and)

    __rand__ = __and__

    def __or__(self, o):
        return self._cmp(o, _or)

    __ror__ = __or__

    def __invert__(self):
        return type(self)(_not(self.a), dtype="bool")

    # ---- reductions
    def _ax(self, dim=None, axis=None):
        ax = dim if dim is not None else axis
        if isinstance(ax, list):
            ax = tuple(ax)
        return ax

    def sum(self, dim=None, axis=None, keepdim=False, keepdims=False, dtype=None):
        ax = self._ax(dim, axis)
        kd = keepdim or keepdims
        if self.a.size == 0:
            r = np.zeros(self.a.shape, dtype=object).sum(axis=ax, keepdims=kd)
            r = _obj(r)
            r[...] = 0
        else:
            r = _obj(self.a.sum(axis=ax, keepdims=kd))
        shape = self.a.shape

        def bw(g):
            gg = g
            if ax is not None and not kd:
                gg = np.expand_dims(g, ax)
            return [np.broadcast_to(gg, shape).copy()]
        dt = self.dtype
        if dt == "bool" or (self.kind == "torch" and dt in INT_DTYPES):
            dt = "int64"
        return self._mk(r, [self], bw, dtype=dtype or dt)

    def mean(self, dim=None, axis=None, keepdim=False, keepdims=False):
        ax = self._ax(dim, axis)
        if ax is None:
            n = self.a.size
        elif isinstance(ax, tuple):
            n = int(np.prod([self.a.shape[d] for d in ax]))
        else:
            n = self.a.shape[ax]
        s = self.sum(dim=ax, keepdim=keepdim or keepdims)
        r = s / n
        r.dtype = self.dtype if self.dtype not in INT_DTYPES else ("float32" if self.kind == "torch" else "float64")
        return r

    def all(self, dim=None, axis=None):
        ax = self._ax(dim, axis)
        if ax is None:
            return core.s_and(*list(self.a.flat)) if self.kind == "numpy" else type(self)(_obj(core.s_and(*list(self.a.flat))), dtype="bool")
        r = np.apply_along_axis(lambda v: _wrap0(core.s_and(*list(v))), ax, self.a) if self.a.size else np.ones(np.delete(self.a.shape, ax), dtype=object)
        return type(self)(_unwrap0(r), dtype="bool")

    def any(self, dim=None, axis=None):
        ax = self._ax(dim, axis)
        if ax is None:
            return core.s_or(*list(self.a.flat)) if self.kind == "numpy" else type(self)(_obj(core.s_or(*list(self.a.flat))), dtype="bool")
        r = np.apply_along_axis(lambda v: _wrap0(core.s_or(*list(v))), ax, self.a)
        return type(self)(_unwrap0(r), dtype="bool")

    def _argext(self, ax, maxi):
        """(values, indices) along axis with first-extremum semantics"""
        a = np.moveaxis(self.a, ax, -1)
        vals = np.empty(a.shape[:-1], dtype=object)
        idxs = np.empty(a.shape[:-1], dtype=object)
        if a.shape[-1] == 0:
            raise IndexError("reduction over an empty axis")
        for cell in np.ndindex(*a.shape[:-1]):
            best = a[cell + (0,)]
            bi = 0
            for k in range(1, a.shape[-1]):
                v = a[cell + (k,)]
                c = (v > best) if maxi else (v < best)
                bi = ite(c, k, bi)
                best = ite(c, v, best)
            vals[cell] = best
            idxs[cell] = bi
        return vals, idxs

    def _ext(self, maxi, dim=None, axis=None, keepdim=False, keepdims=False):
        ax = self._ax(dim, axis)
        self._nograd("max/min")
        kd = keepdim or keepdims
        if ax is None:
            vals, idxs = type(self)(self.a.reshape(-1))._argext(0, maxi)
            v = vals[()]
            return type(self)(_obj(v), dtype=self.dtype) if self.kind == "torch" else v
        vals, idxs = self._argext(ax, maxi)
        if kd:
            vals = np.expand_dims(vals, ax)
            idxs = np.expand_dims(idxs, ax)
        if self.kind == "torch":
            return MaxResult(type(self)(vals, dtype=self.dtype), type(self)(idxs, dtype="int64"))
        return type(self)(vals, dtype=self.dtype)

    def max(self, dim=None, axis=None, keepdim=False, keepdims=False):
        if isinstance(dim, Arr):
            return type(self)(_max2(self.a, dim.a), dtype=self.dtype)
        return self._ext(True, dim, axis, keepdim, keepdims)

    def min(self, dim=None, axis=None, keepdim=False, keepdims=False):
        if isinstance(dim, Arr):
            return type(self)(_min2(self.a, dim.a), dtype=self.dtype)
        return self._ext(False, dim, axis, keepdim, keepdims)

    def amax(self, dim=None, keepdim=False, axis=None):
        """values only (no indices), over one dimension, several dimensions or everything"""
        return self._am(True, dim if dim is not None else axis, keepdim)

    def amin(self, dim=None, keepdim=False, axis=None):
        return self._am(False, dim if dim is not None else axis, keepdim)

    def _am(self, is_max, dim, keepdim):
        dims = sorted({d % self.a.ndim for d in ((dim,) if isinstance(dim, int) else tuple(dim))}, reverse=True) if dim is not None else list(range(self.a.ndim - 1, -1, -1))
        r = self
        for d in dims:
            v = r._ext(is_max, d, None, keepdim, False)
            r = v.values if isinstance(v, MaxResult) else v
        return r

    def argmax(self, dim=None, axis=None, keepdim=False):
        ax = self._ax(dim, axis)
        if ax is None:
            _, idxs = type(self)(self.a.reshape(-1))._argext(0, True)
            v = idxs[()]
            return type(self)(_obj(v), dtype="int64") if self.kind == "torch" else v
        _, idxs = self._argext(ax, True)
        if keepdim:
            idxs = np.expand_dims(idxs, ax)
        return type(self)(idxs, dtype="int64")

    def argmin(self, dim=None, axis=None):
        ax = self._ax(dim, axis)
        if ax is None:
            _, idxs = type(self)(self.a.reshape(-1))._argext(0, False)
            v = idxs[()]
            return type(self)(_obj(v), dtype="int64") if self.kind == "torch" else v
        _, idxs = self._argext(ax, False)
        return type(self)(idxs, dtype="int64")

    def cumsum(self, dim=None, axis=None, dtype=None):
        ax = self._ax(dim, axis)
        self._nograd("cumsum")
        if ax is None:
            return self._new(np.cumsum(self.a.reshape(-1)))
        return self._new(np.cumsum(self.a, axis=ax), dtype=dtype)

    # ---- shape ops (all differentiable through index maps)
    def _shape_op(self, f, what):
        r = f(self.a)
        if GRAD_ENABLED[0] and self.requires_grad:
            shape = self.a.shape
            idx = f(np.arange(self.a.size).reshape(shape))

            def bw(g):
                z = np.zeros(int(np.prod(shape)) if shape else 1, dtype=object)
                z[...] = 0
                for t, gv in zip(np.asarray(idx).reshape(-1), np.asarray(g, dtype=object).reshape(-1)):
                    z[t] = z[t] + gv
                return [z.reshape(shape)]
            return self._mk(r, [self], bw)
        return self._new(r)

    def reshape(self, *s):
        if len(s) == 1 and isinstance(s[0], (tuple, list)):
            s = tuple(s[0])
        s = tuple(int(x) for x in s)
        return self._shape_op(lambda a: a.reshape(s), "reshape")

    view = reshape

    def flatten(self, start_dim=0, end_dim=-1):
        if self.kind == "numpy":
            return self._new(self.a.flatten())
        sh = self.shape
        nd = len(sh)
        e = end_dim % nd if nd else 0
        new = sh[:start_dim] + (int(np.prod(sh[start_dim:e + 1])) if nd else 1,) + sh[e + 1:]
        return self.reshape(new)

    def ravel(self):
        return self.reshape(-1)

    def squeeze(self, dim=None):
        return self._shape_op(lambda a: np.squeeze(a, axis=dim) if (dim is None or a.shape[dim] == 1) else a, "squeeze")

    def unsqueeze(self, d):
        return self._shape_op(lambda a: np.expand_dims(a, d), "unsqueeze")

    def permute(self, *d):
        if len(d) == 1 and isinstance(d[0], (tuple, list)):
            d = tuple(d[0])
        return self._shape_op(lambda a: np.transpose(a, d), "permute")

    def transpose(self, *d):
        if self.kind == "numpy":
            if len(d) == 1 and isinstance(d[0], (tuple, list)):
                d = tuple(d[0])
            return self._shape_op(lambda a: np.transpose(a, d or None), "transpose")
        d0, d1 = d
        return self._shape_op(lambda a: np.swapaxes(a, d0, d1), "transpose")

    def swapaxes(self, d0, d1):
        return self._shape_op(lambda a: np.swapaxes(a, d0, d1), "swapaxes")

    def moveaxis(self, s, d):
        return self._shape_op(lambda a: np.moveaxis(a, s, d), "moveaxis")

    movedim = moveaxis

    @property
    def T(self):
        return self._shape_op(lambda a: a.T, "T")

    def flip(self, dims=None, *more):
        if isinstance(dims, int):
            dims = (dims,) + tuple(more)
        return self._shape_op(lambda a: np.flip(a, axis=tuple(dims)).copy(), "flip")

    def expand(self, *s):
        if len(s) == 1 and isinstance(s[0], (tuple, list)):
            s = tuple(s[0])
        tgt = tuple(self.a.shape[i - (len(s) - self.a.ndim)] if x == -1 else x for i, x in enumerate(s))
        return self._shape_op(lambda a: np.broadcast_to(a, tgt), "expand")

    def expand_as(self, o):
        return self.expand(*o.shape)

    def repeat(self, *reps, **kw):
        if self.kind == "numpy":
            r = reps[0]
            axis = kw.get("axis", reps[1] if len(reps) > 1 else None)
            return self._new(np.repeat(self.a, r, axis=axis))
        if len(reps) == 1 and isinstance(reps[0], (tuple, list)):
            reps = tuple(reps[0])
        reps = tuple(int(r) for r in reps)
        return self._shape_op(lambda a: np.tile(a, reps), "repeat")

    def repeat_interleave(self, n, dim=None):
        return self._shape_op(lambda a: np.repeat(a, int(n), axis=dim), "repeat_interleave")

    def unfold(self, dim, size, step):
        def f(a):
            n = a.shape[dim]
            if size > n:
                raise RuntimeError("maximum size for tensor at dimension %d is %d but size is %d" % (dim, n, size))
            starts = range(0, n - size + 1, step)
            parts = [np.take(a, range(s, s + size), axis=dim) for s in starts]
            # result: dim replaced by number of windows, new last axis of length size
            parts = [np.moveaxis(p, dim, -1) for p in parts]
            return np.stack(parts, axis=dim % a.ndim)
        return self._shape_op(f, "unfold")

    def chunk(self, n, dim=0):
        L = self.a.shape[dim]
        sz = -(-L // n)
        out = []
        for s in range(0, L, sz):
            key = [slice(None)] * self.a.ndim
            key[dim] = slice(s, s + sz)
            out.append(self[tuple(key)])
        return tuple(out)

    def clone(self, memory_format=None):
        return self._mk(self.a.copy(), [self], lambda g: [g])

    def copy(self):
        return self._new(self.a.copy())

    def detach(self):
        return type(self)(self.a, dtype=self.dtype)

    def contiguous(self, memory_format=None):
        return self

    def requires_grad_(self, flag=True):
        self.requires_grad = flag
        return self

    def cpu(self):
        return self

    def cuda(self):
        return self

    def to(self, *a, **k):
        for x in a:
            if isinstance(x, str) and x in DTYPES:
                return self.type(x)
        if "dtype" in k and k["dtype"] is not None:
            return self.type(k["dtype"])
        return self

    def type(self, dt=None):
        if dt is None:
            return self.dtype
        if dt == self.dtype:
            return self
        dt = _dtype_name(dt)
        a = self.a.copy()
        if dt in INT_DTYPES and dt != "bool" and self.dtype not in INT_DTYPES and a.size:
            # float -> integer conversion truncates toward zero (symbolic reals included)
            a = _uf(lambda v: core.s_int(v) if isinstance(v, (float, Fraction, core.SReal)) and not isinstance(v, core.SLog) else v, 1)(a)
        elif str(self.dtype) == "float64" and dt in NARROW_FLOATS and a.size:
            a = _uf(_narrow_float, 1)(a)
        r = self._mk(a, [self], lambda g: [g], dtype=dt)
        return r

    def is_floating_point(self):
        return str(self.dtype) in ("float16", "float32", "float64", "bfloat16")

    def float(self):
        return self.type("float32")

    def double(self):
        return self.type("float64")

    def int(self):
        return self.type("int32")

    def long(self):
        return self.type("int64")

    def bool(self):
        return type(self)(_ne(self.a, 0), dtype="bool")

    def astype(self, dt):
        dt = _dtype_name(dt)
        if str(self.dtype) == "float64" and dt in NARROW_FLOATS and self.a.size:
            return type(self)(_uf(_narrow_float, 1)(self.a), dtype=dt)
        if dt in INT_DTYPES and dt != "bool":
            # float -> int truncation only for concrete floats
            f = _uf(lambda v: (core.s_int(v) if isinstance(v, (float, Fraction)) or (isinstance(v, core.SReal) and not isinstance(v, core.SLog)) else (v._n() if isinstance(v, SBool) else (int(v) if isinstance(v, (bool, np.bool_)) else v))), 1)
            return type(self)(f(self.a) if self.a.size else self.a.copy(), dtype=dt)
        return type(self)(self.a.copy(), dtype=dt)

    def numpy(self, force=False):
        return NDArray(self.a, dtype=self.dtype)

    def dot(self, o):
        return self._new(_obj(self.a.dot(o.a)))

    def __matmul__(self, o):
        return matmul(self, o)

    def matmul(self, o):
        return matmul(self, o)

    def __rmatmul__(self, o):
        return matmul(o if isinstance(o, Arr) else type(self)(_obj(o)), self)

    def unique(self, *a, **k):
        return unique(self, *a, **k)

    def index_select(self, dim, index):
        """x.index_select(dim, idx) == x[(slice(None),) * dim + (idx,)] (symbolic indices through the guarded gather)"""
        dim = dim % self.a.ndim
        if not isinstance(index, Arr):
            index = type(self)(_obj(index), dtype="int64")
        return self[(slice(None),) * dim + (index,)]

    def unbind(self, dim=0):
        dim = dim % self.a.ndim
        return tuple(self[(slice(None),) * dim + (i,)] for i in range(self.a.shape[dim]))

    def split(self, size, dim=0):
        dim = dim % self.a.ndim
        n = self.a.shape[dim]
        if isinstance(size, int):
            sizes = [size] * (n // size) + ([n % size] if n % size else [])
        else:
            sizes = [int(v) for v in size]
            if builtins.sum(sizes) != n:
                raise RuntimeError("split_with_sizes expects split_sizes to sum exactly to %d" % n)
        out, at = [], 0
        for sz in sizes:
            out.append(self[(slice(None),) * dim + (slice(at, at + sz),)])
            at += sz
        return tuple(out)

    def index_copy_(self, dim, index, source):
        """self[..., index[k], ...] = source[..., k, ...] along dim (in place; symbolic indices through the guarded store)"""
        dim = dim % self.a.ndim
        idx = index if isinstance(index, Arr) else type(self)(_obj(index), dtype="int64")
        self[(slice(None),) * dim + (idx,)] = source
        return self

    def index_copy(self, dim, index, source):
        return self.clone().index_copy_(dim, index, source)

    def index_fill(self, dim, index, value):
        r = self.clone()
        dim = dim % self.a.ndim
        idx = index.a if isinstance(index, Arr) else _obj(index)
        for t in idx.flat:
            r.a[(slice(None),) * dim + (int(t),)] = value
        return r

    def index_fill_(self, dim, index, value):
        self.a[...] = self.index_fill(dim, index, value).a
        return self

    def narrow(self, dim, start, length):
        """x.narrow(dim, start, length) == x[..., start:start+length, ...] with torch's range check"""
        dim = dim % self.a.ndim
        start, length = int(start), int(length)
        n = self.a.shape[dim]
        if start < 0:
            start += n
        if length < 0 or start < 0 or start + length > n:
            raise RuntimeError("start (%d) + length (%d) exceeds dimension size (%d)." % (start, length, n))
        return self[(slice(None),) * dim + (slice(start, start + length),)]

    def masked_select(self, mask):
        """1-D tensor of the elements where the (broadcast) mask is true; symbolic mask entries are decided by forking"""
        m = mask.a if isinstance(mask, Arr) else _obj(mask)
        a, m = np.broadcast_arrays(self.a, m)
        keep = concretize_bool_array(m)
        self._nograd("masked_select")
        return self._new(np.array([a[c] for c in np.ndindex(*a.shape) if keep[c]], dtype=object).reshape(-1))

    def nonzero(self):
        m = concretize_bool_array(_ne(self.a, 0))
        r = np.nonzero(m)
        if self.kind == "numpy":
            return tuple(NDArray(x, dtype="int64") for x in r)
        return Tensor(np.stack(r, axis=1), dtype="int64")

    def argsort(self, dim=-1, axis=None, descending=False, stable=False, kind=None):
        ax = axis if axis is not None else dim
        return type(self)(_argsort(self.a, ax, descending), dtype="int64")

    def sort(self, dim=-1, descending=False, axis=None):
        ax = axis if axis is not None else dim
        idx = _argsort(self.a, ax, descending)
        vals = np.take_along_axis(self.a, idx.astype(np.int64), axis=ax)
        if self.kind == "numpy":
            self.a[...] = vals
            return None
        return MaxResult(type(self)(vals, dtype=self.dtype), type(self)(idx, dtype="int64"))

    def scatter_add_(self, dim, index, src):
        ia = index.a
        sa = src.a
        for cell in np.ndindex(*ia.shape):
            tgt = list(cell)
            t = ia[cell]
            if isinstance(t, Sym):
                n = self.a.shape[dim]
                ok = s_and(t >= 0, t < n)
                if not bool(ok):
                    raise RuntimeError("index out of bounds in scatter_add_")
                for k in range(n):
                    tgt[dim] = k
                    c = tuple(tgt)
                    self.a[c] = ite(t == k, self.a[c] + sa[cell], self.a[c])
            else:
                if not (0 <= int(t) < self.a.shape[dim]):
                    raise RuntimeError("index %d is out of bounds for dimension %d with size %d" % (int(t), dim, self.a.shape[dim]))
                tgt[dim] = int(t)
                c = tuple(tgt)
                self.a[c] = self.a[c] + sa[cell]
        return self

    def index_put_(self, indices, values, accumulate=False):
        key = self._prep_key(tuple(indices))
        v = values.a if isinstance(values, Arr) else _obj(values)
        if not accumulate:
            self[tuple(indices)] = values
            return self
        _sym_setitem(self.a, key, v, accumulate=True)
        return self

    def index_put(self, indices, values, accumulate=False):
        return self.clone().index_put_(indices, values, accumulate)

    def index_add_(self, dim, index, source):
        key = [slice(None)] * self.a.ndim
        key[dim] = index
        return self.index_put_(tuple(key), source, accumulate=True)

    def fill_(self, v):
        self.a[...] = v
        return self

    def zero_(self):
        self.a[...] = 0
        return self

    def isnan(self):
        return type(self)(_uf(lambda v: isinstance(v, float) and v != v, 1)(self.a), dtype="bool")


def _wrap0(v):
    r = np.empty((), dtype=object)
    r[()] = v
    return r


def _unwrap0(r):
    out = np.empty(r.shape, dtype=object)
    for c in np.ndindex(*r.shape):
        v = r[c]
        out[c] = v[()] if isinstance(v, np.ndarray) else v
    return out


def _unb(g, like):
    """reduce a broadcast gradient back to the operand's shape"""
    if not isinstance(like, np.ndarray):
        return g
    g = np.asarray(g, dtype=object)
    while g.ndim > like.ndim:
        g = _obj(g.sum(axis=0))
    for d, n in enumerate(like.shape):
        if n == 1 and g.shape[d] != 1:
            g = _obj(g.sum(axis=d, keepdims=True))
    return g


class MaxResult(tuple):
    def __new__(cls, values, indices):
        t = super().__new__(cls, (values, indices))
        return t

    @property
    def values(self):
        return self[0]

    @property
    def indices(self):
        return self[1]


class Tensor(Arr):
    kind = "torch"

    def size(self, d=None):
        return tuple(self.a.shape) if d is None else self.a.shape[d]

    @property
    def data(self):
        return self.detach()

    @property
    def is_cuda(self):
        return False


class _StrAccessor:
    """pandas-style `.str` accessor of a column of concrete strings (element-wise str methods)"""

    def __init__(self, arr):
        self.arr = arr

    def _map(self, f, dtype):
        a = self.arr.a
        out = np.empty(a.shape, dtype=object)
        for c in np.ndindex(*a.shape):
            if not isinstance(a[c], str):
                raise Inconclusive(".str accessor on a non-string element is not modelled")
            out[c] = f(a[c])
        return type(self.arr)(out, dtype=dtype)

    def startswith(self, pat):
        return self._map(lambda v: v.startswith(pat), "bool")

    def endswith(self, pat):
        return self._map(lambda v: v.endswith(pat), "bool")

    def contains(self, pat, regex=False):
        if regex:
            raise Inconclusive(".str.contains(regex=True) is not modelled")
        return self._map(lambda v: pat in v, "bool")

    def upper(self):
        return self._map(lambda v: v.upper(), self.arr.dtype)

    def lower(self):
        return self._map(lambda v: v.lower(), self.arr.dtype)

    def strip(self, chars=None):
        return self._map(lambda v: v.strip(chars), self.arr.dtype)

    def len(self):
        return self._map(lambda v: len(v), "int64")


class NDArray(Arr):
    kind = "numpy"

    @property
    def str(self):
        return _StrAccessor(self)

    @property
    def size(self):
        return self.a.size


DTYPES = ["int8", "int16", "int32", "int64", "uint8", "uint64", "float16", "float32", "float64", "bool", "bfloat16"]


def _dtype_name(dt):
    if dt is None:
        return None
    if isinstance(dt, str):
        return {"float": "float64", "int": "int64"}.get(dt, dt)
    if dt is int:
        return "int64"
    if dt is float:
        return "float64"
    if dt is bool:
        return "bool"
    n = getattr(dt, "__name__", None)
    if n in DTYPES:
        return n
    if n == "_IntType":          # the loader's stand-in for the builtin int / float inside loaded modules
        return "int64"
    if n == "_FloatType":
        return "float64"
    return str(dt)


# ----------------------------------------------------------------------------- symbolic indexing

def concretize_bool_array(a):
    """fork on every symbolic element of a boolean array"""
    out = np.empty(a.shape, dtype=bool)
    for c in np.ndindex(*a.shape):
        out[c] = bool(a[c])
    return out


def _layout(shape, key):
    """numpy computes the advanced-index layout for us: returns (ids, symaxes) where ids is an
    integer array (result layout) of flat ids into a helper of shape `hshape`."""
    # which key components consume which axis
    nd = len(shape)
    comps = list(key)
    n_consume = 0
    for k in comps:
        if k is None or k is Ellipsis:
            continue
        if isinstance(k, np.ndarray) and k.dtype == bool:
            n_consume += k.ndim
        else:
            n_consume += 1
    full = []
    seen_ell = False
    for k in comps:
        if k is Ellipsis:
            if seen_ell:
                raise IndexError("an index can only have a single ellipsis")
            seen_ell = True
            full.extend([slice(None)] * (nd - n_consume))
        else:
            full.append(k)
    if not seen_ell:
        full.extend([slice(None)] * (nd - n_consume))
    hshape = list(shape)
    key2 = []
    sym = {}   # axis -> object array / scalar of index terms
    ax = 0
    for k in full:
        if k is None:
            key2.append(None)
            continue
        if isinstance(k, np.ndarray) and k.dtype == bool:
            key2.append(k)
            ax += k.ndim
            continue
        if isinstance(k, Sym):
            sym[ax] = np.array([k], dtype=object)
            hshape[ax] = 1
            key2.append(0)
        elif isinstance(k, np.ndarray) and k.dtype == object:
            sym[ax] = k.reshape(-1)
            hshape[ax] = k.size
            key2.append(np.arange(k.size).reshape(k.shape))
        else:
            key2.append(k)
        ax += 1
    helper = np.arange(int(np.prod(hshape)) if hshape else 1).reshape(hshape)
    ids = helper[tuple(key2)]
    return np.asarray(ids), tuple(hshape), sym


def _sym_range_check(shape, sym):
    conds = []
    for ax, terms in sym.items():
        n = shape[ax]
        for t in terms:
            if isinstance(t, Sym):
                conds.append(s_and(t >= -n, t < n))
            elif not (-n <= int(t) < n):
                raise IndexError("index %d is out of bounds for axis %d with size %d" % (int(t), ax, n))
    ok = s_and(*conds)
    if not bool(ok):
        raise IndexError("index out of bounds (symbolic)")


def _cell_candidates(shape, hcell, sym):
    """yield (condition, real cell) for a helper cell"""
    axes = []
    for ax, h in enumerate(hcell):
        if ax in sym:
            t = sym[ax][h]
            n = shape[ax]
            if isinstance(t, Sym):
                axes.append([(s_or(t == k, t == k - n), k) for k in range(n)])
            else:
                axes.append([(True, int(t) % n)])
        else:
            axes.append([(True, h)])
    for combo in itertools.product(*axes):
        cond = s_and(*[c for c, _ in combo])
        if cond is False:
            continue
        yield cond, tuple(k for _, k in combo)


def _nonfinite(v):
    return isinstance(v, float) and (v != v or v in (float("inf"), float("-inf")))


def _sym_getitem(a, key):
    if a.dtype == object and builtins.any(_nonfinite(v) for v in a.flat):
        cells = list(a.flat)
        if builtins.all((isinstance(v, float) and v == float("-inf")) or isinstance(v, core.SLog) for v in cells):
            # log-domain table: -inf is the log of 0, mergeable with log-domain cells
            b = np.empty(a.shape, dtype=object)
            for c in np.ndindex(*a.shape):
                b[c] = core.SLog(0) if isinstance(a[c], float) else a[c]
            return _sym_getitem(b, key)
        # cells holding +-inf / nan cannot be merged into If-terms with numeric cells: decide the index instead (fork)
        key2 = []
        for k in key:
            if isinstance(k, Sym):
                key2.append(int(k))
            elif isinstance(k, np.ndarray) and k.dtype == object:
                key2.append(np.array([int(x) for x in k.flat], dtype=np.int64).reshape(k.shape))
            else:
                key2.append(k)
        r = a[tuple(key2)]
        if not isinstance(r, np.ndarray):
            r0 = np.empty((), dtype=object)
            r0[()] = r
            r = r0
        return r
    ids, hshape, sym = _layout(a.shape, key)
    _sym_range_check(a.shape, sym)
    out = np.empty(ids.shape, dtype=object)
    for c in np.ndindex(*ids.shape):
        hcell = np.unravel_index(int(ids[c]), hshape) if hshape else ()
        r = None
        for cond, cell in _cell_candidates(a.shape, hcell, sym):
            v = a[cell]
            r = v if r is None else ite(cond, v, r)
        out[c] = r
    return out


def _sym_setitem(a, key, v, accumulate=False):
    ids, hshape, sym = _layout(a.shape, key)
    _sym_range_check(a.shape, sym)
    vv = np.broadcast_to(v if isinstance(v, np.ndarray) else _obj(v), ids.shape)
    for c in np.ndindex(*ids.shape):
        hcell = np.unravel_index(int(ids[c]), hshape) if hshape else ()
        for cond, cell in _cell_candidates(a.shape, hcell, sym):
            a[cell] = ite(cond, (a[cell] + vv[c]) if accumulate else vv[c], a[cell])


def _argsort(a, ax, descending=False):
    """stable argsort; symbolic keys are decided by forking pairwise comparisons (insertion sort)"""
    a = np.asarray(a, dtype=object)
    if a.ndim == 0:
        return np.zeros((), dtype=object)
    m = np.moveaxis(a, ax, -1)
    out = np.empty(m.shape, dtype=object)
    for cell in np.ndindex(*m.shape[:-1]):
        vals = [m[cell + (k,)] for k in range(m.shape[-1])]
        order = []
        for k, v in enumerate(vals):
            pos = len(order)
            while pos > 0:
                w = vals[order[pos - 1]]
                c = (w < v) if descending else (w > v)
                if bool(c):
                    pos -= 1
                else:
                    break
            order.insert(pos, k)
        for k, o in enumerate(order):
            out[cell + (k,)] = o
    return np.moveaxis(out, -1, ax)


def unique(x, return_counts=False, return_inverse=False, axis=None, dim=None, sorted=True):
    """sorted unique values; symbolic elements are resolved by forking on 'value v occurs'"""
    xa = x.a if isinstance(x, Arr) else _obj(x)
    if axis is not None or dim is not None:
        ax_ = axis if axis is not None else dim
        if has_sym(xa) and xa.ndim == 2 and ax_ in (0, -2) and not return_counts and not return_inverse:
            # rows sorted lexicographically, duplicates dropped: the order / equality of symbolic rows is decided by forking
            def lt(r1, r2):
                for a_, b_ in zip(r1, r2):
                    if bool(a_ < b_):
                        return True
                    if bool(a_ > b_):
                        return False
                return False
            rows = []
            for r_ in (list(xa[i]) for i in range(xa.shape[0])):
                pos = 0
                dup = False
                for k_, q in enumerate(rows):
                    if lt(q, r_):
                        pos = k_ + 1
                    elif not lt(r_, q):
                        dup = True
                        break
                if not dup:
                    rows.insert(pos, r_)
            return type(x)(np.array(rows, dtype=object).reshape(len(rows), xa.shape[1]), dtype=x.dtype)
        if has_sym(xa):
            raise Inconclusive("unique along an axis with symbolic data")
        r = np.unique(np.array(xa.tolist()), axis=axis if axis is not None else dim, return_counts=return_counts, return_inverse=return_inverse)
        if isinstance(r, tuple):
            return tuple(type(x)(v) for v in r)
        return type(x)(r)
    flat = list(xa.flat)
    conc = [v for v in flat if not isinstance(v, Sym)]
    syms = [v for v in flat if isinstance(v, Sym)]
    if not syms:
        vals = builtins.sorted(set(conc))
        res = type(x)(np.array(vals, dtype=object), dtype=x.dtype) if isinstance(x, Arr) else vals
        if return_counts:
            cnt = [builtins.sum(1 for v in conc if v == u) for u in vals]
            return res, type(x)(np.array(cnt, dtype=object), dtype="int64")
        return res
    ctx = core.cur()
    # candidate values: ask the solver for the possible values of the symbolic elements
    present = set(conc)
    cands = set()
    for s in syms:
        if isinstance(s, SBool):
            cands.update([False, True])
            continue
        _enumerate_values(ctx, s, cands)
    vals = set(present)
    for v in builtins.sorted(cands - present, key=lambda q: Fraction(q)):
        occurs = s_or(*[s == v for s in syms])
        if bool(occurs):
            vals.add(v)
    vals = builtins.sorted(vals, key=lambda q: Fraction(q))
    res = type(x)(np.array(vals, dtype=object), dtype=x.dtype)
    if return_counts:
        cnt = [core.s_sum(ite(e == u, 1, 0) for e in flat) for u in vals]
        return res, type(x)(np.array(cnt, dtype=object), dtype="int64")
    return res


def _enumerate_values(ctx, s, cands, cap=64):
    """all values a symbolic scalar can take on the current path (bounded)"""
    z = s.z
    # cheap structural case: If(c, k1, k2) trees with numeral leaves
    leaves = []

    def walk(t):
        if z3.is_app_of(t, z3.Z3_OP_ITE):
            walk(t.arg(1))
            walk(t.arg(2))
        elif z3.is_int_value(t):
            leaves.append(t.as_long())
        elif z3.is_rational_value(t):
            leaves.append(Fraction(t.numerator_as_long(), t.denominator_as_long()))
        else:
            leaves.append(None)
    walk(z)
    if None not in leaves:
        cands.update(leaves)
        return
    found = []
    ctx.solver.push()
    try:
        while True:
            r = ctx.check()
            if str(r) == "unknown":
                raise Inconclusive("unknown while enumerating values")
            if r != z3.sat:
                break
            v = ctx.model().eval(z, model_completion=True)
            found.append(core.lift(v))
            ctx.solver.add(z != v)
            if len(found) > cap:
                raise Inconclusive("value enumeration cap")
    finally:
        ctx.solver.pop()
    cands.update(found)


# ----------------------------------------------------------------------------- functional API

def _cls(xs, default=Tensor):
    for x in xs:
        if isinstance(x, Arr):
            return type(x)
    return default


def cat(xs, dim=0, axis=None, cls=None):
    xs = list(xs)
    ax = axis if axis is not None else dim
    C = cls or _cls(xs)
    xs = [x if isinstance(x, Arr) else C(x) for x in xs]
    if C is Tensor:
        # torch allows legacy empty 1-d tensors
        xs2 = [x for x in xs if not (x.a.ndim == 1 and x.a.size == 0 and builtins.any(y.a.ndim > 1 for y in xs))]
        xs = xs2 or xs
        nds = {x.a.ndim for x in xs}
        if len(nds) != 1:
            raise RuntimeError("Tensors must have same number of dimensions")
        for x in xs[1:]:
            for d in range(x.a.ndim):
                if d != ax % x.a.ndim and x.a.shape[d] != xs[0].a.shape[d]:
                    raise RuntimeError("Sizes of tensors must match except in dimension %d" % ax)
    sizes = [x.a.shape[ax] for x in xs]
    r = np.concatenate([x.a for x in xs], axis=ax)
    dt = xs[0].dtype
    for x in xs:
        if x.dtype not in INT_DTYPES:
            dt = x.dtype
            break

    def bw(g):
        return list(np.split(g, np.cumsum(sizes)[:-1], axis=ax))
    return xs[0]._mk(r, xs, bw, dtype=dt)


def stack(xs, dim=0, axis=None, cls=None):
    xs = list(xs)
    if not xs:
        raise ValueError("need at least one array to stack")
    ax = axis if axis is not None else dim
    C = cls or _cls(xs)
    xs = [x if isinstance(x, Arr) else C(x) for x in xs]
    for x in xs[1:]:
        if x.shape != xs[0].shape:
            raise RuntimeError("stack expects each tensor to be equal size")
    r = np.stack([x.a for x in xs], axis=ax)

    def bw(g):
        return [np.take(g, i, axis=ax) for i in range(len(xs))]
    return xs[0]._mk(r, xs, bw)


_PROMO = ["bool", "uint8", "int8", "int16", "int32", "int64", "float16", "bfloat16", "float32", "float64"]


def promote_types(a, b):
    """torch.promote_types on the dtype tags (the cases that occur here: equal types, int with int, anything with a float)"""
    a, b = _dtype_name(a), _dtype_name(b)
    if a == b:
        return a
    if {a, b} == {"uint8", "int8"}:
        return "int16"
    if {a, b} == {"float16", "bfloat16"}:
        return "float32"
    if a not in _PROMO or b not in _PROMO:
        raise Inconclusive("promote_types(%s, %s) is not modelled" % (a, b))
    return _PROMO[builtins.max(_PROMO.index(a), _PROMO.index(b))]


def meshgrid(*xs, indexing=None):
    if len(xs) == 1 and isinstance(xs[0], (list, tuple)):
        xs = tuple(xs[0])
    if indexing not in (None, "ij"):
        raise Inconclusive("meshgrid(indexing=%r) is not modelled" % (indexing,))
    shape = tuple(x.a.shape[0] for x in xs)
    out = []
    for k, x in enumerate(xs):
        g = np.empty(shape, dtype=object)
        for c in np.ndindex(*shape):
            g[c] = x.a[c[k]]
        out.append(type(x)(g, dtype=x.dtype))
    return tuple(out)


def bincount(x, weights=None, minlength=0):
    """numpy.bincount on non-negative integers (symbolic entries: If-sums over the possible bins up to the concrete maximum)"""
    xa = list((x.a if isinstance(x, Arr) else _obj(x)).flat)
    if weights is not None:
        raise Inconclusive("bincount with weights is not modelled")
    if builtins.any(isinstance(v, Sym) for v in xa):
        raise Inconclusive("bincount of symbolic data is not modelled")
    if builtins.any(int(v) < 0 for v in xa):
        raise ValueError("'list' argument must have no negative elements")
    n = builtins.max([int(v) + 1 for v in xa] + [int(minlength)])
    out = np.empty((n,), dtype=object)
    out[...] = 0
    for v in xa:
        out[int(v)] += 1
    return NDArray(out, dtype="int64")


def gather(x, dim, index):
    """torch.gather: out[i][j][k] = x[index[i][j][k]][j][k] (dim 0) etc.; a symbolic index is an If-chain over the axis"""
    xa, ia = x.a, (index.a if isinstance(index, Arr) else _obj(index))
    dim = dim % xa.ndim
    out = np.empty(ia.shape, dtype=object)
    n = xa.shape[dim]
    for cell in np.ndindex(*ia.shape):
        t = ia[cell]
        src = list(cell)
        if isinstance(t, Sym):
            if not bool(s_and(t >= 0, t < n)):
                raise RuntimeError("index out of bounds in gather")
            v = None
            for k in range(n - 1, -1, -1):
                src[dim] = k
                v = xa[tuple(src)] if v is None else ite(t == k, xa[tuple(src)], v)
            out[cell] = v
        else:
            if not (0 <= int(t) < n):
                raise RuntimeError("index %d is out of bounds for dimension %d with size %d" % (int(t), dim, n))
            src[dim] = int(t)
            out[cell] = xa[tuple(src)]
    x._nograd("gather")
    return type(x)(out, dtype=x.dtype)


def where(c, a=None, b=None, cls=Tensor):
    if a is None:
        ca = c.a if isinstance(c, Arr) else _obj(c)
        m = concretize_bool_array(ca)
        return tuple(cls(x, dtype="int64") for x in np.nonzero(m))
    aa = a.a if isinstance(a, Arr) else a
    ba = b.a if isinstance(b, Arr) else b
    ca = c.a if isinstance(c, Arr) else c
    C = _cls([a, b, c], cls)
    dt = a.dtype if isinstance(a, Arr) else (b.dtype if isinstance(b, Arr) else None)
    r = _where(ca, aa, ba)
    ps = [p for p in (a, b) if isinstance(p, Arr)]
    if GRAD_ENABLED[0] and builtins.any(p.requires_grad for p in ps):
        def bw(g):
            out = []
            if isinstance(a, Arr):
                out.append(_unb(_where(ca, g, 0), aa))
            if isinstance(b, Arr):
                out.append(_unb(_where(ca, 0, g), ba))
            return out
        return ps[0]._mk(_obj(r), ps, bw, dtype=dt)
    return C(_obj(r), dtype=dt)


def matmul(a, b):
    r = a.a.dot(b.a)
    aa, ba = a.a, b.a

    def bw(g):
        g = np.asarray(g, dtype=object)
        return [_obj(g.dot(ba.T)), _obj(aa.T.dot(g))]
    return a._mk(_obj(r), [a, b], bw)


def zeros(*shape, dtype=None, cls=Tensor, device=None, **kw):
    if len(shape) == 1 and isinstance(shape[0], (tuple, list)):
        shape = tuple(shape[0])
    shape = tuple(int(s) for s in shape)
    a = np.empty(shape, dtype=object)
    a[...] = 0
    return cls(a, dtype=_dtype_name(dtype) or ("float32" if cls is Tensor else "float64"))


def ones(*shape, dtype=None, cls=Tensor, device=None, **kw):
    r = zeros(*shape, dtype=dtype, cls=cls)
    r.a[...] = 1
    return r


def full_like(x, v, dtype=None):
    a = np.empty(x.shape, dtype=object)
    a[...] = v
    return type(x)(a, dtype=_dtype_name(dtype) or x.dtype)


def arange(*a, dtype=None, cls=Tensor, device=None):
    a = [int(v) for v in a]
    return cls(np.array(list(range(*a)), dtype=object), dtype=_dtype_name(dtype) or "int64")


def backward(roots, grads_out, wrt):
    """reverse pass; roots: list of Arr, grads_out: list of ndarrays, wrt: list of Arr"""
    order, seen = [], set()

    def visit(t):
        if t.id in seen or t.node is None:
            return
        seen.add(t.id)
        for p in t.node.parents:
            if isinstance(p, Arr):
                visit(p)
        order.append(t)
    for r in roots:
        visit(r)
    grads = {}
    keep = {}
    for r, g in zip(roots, grads_out):
        grads[r.id] = g if r.id not in grads else _add(grads[r.id], g)
    for t in reversed(order):
        g = grads.get(t.id)
        if g is None:
            continue
        pgs = t.node.bw(g)
        for p, pg in zip(t.node.parents, pgs):
            if not isinstance(p, Arr) or not p.requires_grad or pg is None:
                continue
            pg = np.asarray(pg, dtype=object)
            if pg.shape != p.a.shape:
                pg = np.broadcast_to(pg, p.a.shape) if pg.size == 1 else pg.reshape(p.a.shape)
            grads[p.id] = pg if p.id not in grads else _add(grads[p.id], pg)
    out = []
    for w in wrt:
        g = grads.get(w.id)
        if g is None:
            raise RuntimeError("One of the differentiated Tensors appears to not have been used in the graph")
        out.append(type(w)(g, dtype=w.dtype))
    return tuple(out)
