"""Loads /repo/tangermeme/*.py *source* into fresh modules whose imports resolve to the
environment models (torch / numpy / numba / tqdm / pandas ...) and whose builtins understand
symbolic values.  Nothing is transcribed: the text that is executed is the text in /repo."""
import ast
import copy
import builtins
import hashlib
import os
import types
from fractions import Fraction

import z3

from . import core
from .core import Sym, SInt, SReal, SBool

REPO = os.environ.get("TANGERMEME_REPO", "/repo")


class SymStr(str):
    """a string of known length whose characters are symbolic byte codes"""

    def __new__(cls, codes, placeholder="?"):
        s = super().__new__(cls, placeholder * len(codes))
        s.codes = list(codes)
        return s

    def __iter__(self):
        for c in self.codes:
            yield chr(int(c)) if isinstance(c, Sym) else chr(c)

    def __getitem__(self, k):
        if isinstance(k, slice):
            return SymStr(self.codes[k])
        c = self.codes[k]
        return chr(int(c)) if isinstance(c, Sym) else chr(c)

    def upper(self):
        return self

    def __reversed__(self):
        return iter([self[i] for i in range(len(self.codes) - 1, -1, -1)])

    def encode(self, encoding="utf-8", errors="strict"):
        return SymBytes(self.codes)          # ASCII codes: one byte per character

    def __str__(self):
        return self

    def _unmodelled(name):
        def f(self, *a, **k):
            raise core.Inconclusive("str.%s on a string with symbolic characters is not modelled" % name)
        return f
    # inherited str methods would silently operate on the placeholder text: refuse instead
    for _n in ("lower", "replace", "split", "rsplit", "strip", "lstrip", "rstrip", "count", "find", "rfind", "index", "rindex", "startswith", "endswith",
               "translate", "format", "join", "partition", "casefold", "swapcase", "title", "capitalize", "center", "ljust", "rjust", "zfill", "splitlines",
               "isalpha", "isupper", "islower", "isdigit", "__add__", "__radd__", "__mul__", "__rmul__", "__mod__", "__contains__", "__lt__", "__le__", "__gt__", "__ge__"):
        locals()[_n] = _unmodelled(_n)
    del _n, _unmodelled


class SymBytes:
    def __init__(self, codes):
        self.codes = list(codes)

    def __len__(self):
        return len(self.codes)

    def __iter__(self):
        return iter(self.codes)

    def __getitem__(self, k):
        return SymBytes(self.codes[k]) if isinstance(k, slice) else self.codes[k]


def _bytearray(*a):
    if a and isinstance(a[0], SymStr):
        return SymBytes(a[0].codes)
    return builtins.bytearray(*a)


def _isinstance(x, t):
    if isinstance(x, Sym):
        ts = t if isinstance(t, tuple) else (t,)
        for tt in ts:
            if tt is int and isinstance(x, (SInt, SBool)):
                return True
            if tt is float and isinstance(x, SReal):
                return True
            if tt is bool and isinstance(x, SBool):
                return True
            if tt is object:
                return True
        return builtins.isinstance(x, t)
    return builtins.isinstance(x, t)


class SymMath:
    """stands in for the `math` module inside loaded modules: real math on concrete arguments, exact algebra on
    symbolic / log-domain ones; anything that would need a transcendental of a symbolic value is Inconclusive"""
    import math as _m
    inf, nan, pi, e = _m.inf, _m.nan, _m.pi, _m.e

    def __getattr__(self, n):
        import math
        f = getattr(math, n)

        def g(*a):
            if any(isinstance(x, (Sym, core.SLog)) for x in a):
                raise core.Inconclusive("math.%s of a symbolic value is not modelled" % n)
            return f(*a)
        return g

    def log2(self, x):
        import math
        if isinstance(x, core.SLog):
            raise core.Inconclusive("log2 of a log-domain value")
        if isinstance(x, Sym):
            return core.SLog(x)                      # enters the log domain: log2(r) is represented by r
        return math.log2(x)

    def pow(self, b, e):
        import math
        if isinstance(e, core.SLog):
            if b != 2:
                raise core.Inconclusive("pow with a base other than 2 on a log-domain value")
            return e.p                               # leaves the log domain
        if isinstance(b, Sym) or isinstance(e, Sym):
            raise core.Inconclusive("math.pow of symbolic values")
        return math.pow(b, e)

    def sqrt(self, x):
        """sqrt of a symbolic real: an uninterpreted function constrained to be what every conclusion may rely on -
        non-negative, zero exactly at zero, strictly increasing on the arguments seen on this path (so every result
        proved with it holds for the real square root; nothing is claimed about its values)"""
        import math
        x = core.unwrap0(x)
        if isinstance(x, core.SLog):
            raise core.Inconclusive("sqrt of a log-domain value")
        if not isinstance(x, Sym):
            return math.sqrt(x)
        ctx = core.cur()
        zx = core.zn(x)
        if z3.is_int(zx):
            zx = z3.ToReal(zx)
        f = z3.Function("sqrt_uf", z3.RealSort(), z3.RealSort())
        r = f(zx)
        # 0 at 0, and the elementary envelope min(x, 1) <= sqrt(x) <= (x + 1) / 2
        ctx.assume(z3.Implies(zx >= 0, z3.And(r >= 0, (r == 0) == (zx == 0), r <= (zx + 1) / 2, r >= z3.If(zx <= 1, zx, z3.RealVal(1)))))
        seen = ctx.state.setdefault("sqrt_terms", [])
        for zy, ry in seen:
            ctx.assume(z3.And(z3.Implies(zx < zy, r < ry), z3.Implies(zx > zy, r > ry)))
        seen.append((zx, r))
        return core.lift(r)

    def floor(self, x):
        import math
        x = core.unwrap0(x)
        if isinstance(x, Sym):
            z = core.zn(x)
            return x if z3.is_int(z) else core.lift(z3.ToInt(z))
        return math.floor(x)

    def ceil(self, x):
        import math
        x = core.unwrap0(x)
        if isinstance(x, Sym):
            z = core.zn(x)
            return x if z3.is_int(z) else core.lift(-z3.ToInt(-z))
        return math.ceil(x)


class _Stub(types.ModuleType):
    def __getattr__(self, n):
        if n.startswith("__"):
            raise AttributeError(n)
        return _Stub(self.__name__ + "." + n)

    def __call__(self, *a, **k):
        raise core.Inconclusive("call into unmodelled library %s" % self.__name__)


class Loader:
    def __init__(self, shims, repo=None, overrides=None):
        self.repo = repo or REPO
        self.shims = dict(shims)
        self.loaded = {}
        self.sources = {}
        self.overrides = overrides or {}
        self._snap = {}

    def path(self, modname):
        return os.path.join(self.repo, "tangermeme", *modname.split(".")) + ".py"

    def source(self, modname):
        if modname not in self.sources:
            with open(self.path(modname)) as f:
                self.sources[modname] = f.read()
        return self.sources[modname]

    def sha(self, modname):
        return hashlib.sha1(self.source(modname).encode()).hexdigest()

    def builtins_dict(self, modname):
        b = dict(vars(builtins))
        b["__import__"] = lambda name, globals=None, locals=None, fromlist=(), level=0: self._imp(modname, name, globals, locals, fromlist, level)
        b["min"] = core.s_min
        b["max"] = core.s_max
        b["int"] = _IntType
        b["float"] = _FloatType
        b["round"] = core.s_round
        b["isinstance"] = _isinstance
        b["bytearray"] = _bytearray
        return b

    def _imp(self, modname, name, globals, locals, fromlist, level):
        if level > 0:
            parts = modname.split(".")
            base = parts[:len(parts) - level]
            if name:
                return self.load(".".join(base + [name]))
            raise ImportError("from . import x unsupported in loader")
        top = name.split(".")[0]
        if name in self.shims and fromlist:
            return self.shims[name]
        if top in self.shims:
            if fromlist:
                m = self.shims[top]
                for p in name.split(".")[1:]:
                    m = getattr(m, p)
                return m
            return self.shims[top]
        if top == "math":
            return SymMath()
        if top in ("itertools", "time", "warnings", "inspect", "typing", "collections", "functools", "os", "sys", "re", "gzip", "io", "contextlib", "operator", "dataclasses", "enum", "abc", "numbers", "copy", "heapq", "bisect", "string"):
            return builtins.__import__(name, globals, locals, fromlist, level)
        return _Stub(name)

    def load(self, modname):
        if modname in self.loaded:
            return self.loaded[modname]
        path = self.path(modname)
        src = self.source(modname)
        mod = types.ModuleType("sym_tangermeme." + modname)
        mod.__file__ = path
        self.loaded[modname] = mod
        mod.__dict__["__builtins__"] = self.builtins_dict(modname)
        exec(compile(src, path, "exec"), mod.__dict__)
        for k, v in self.overrides.get(modname, {}).items():
            setattr(mod, k, v)
        self._snap[modname] = {k: copy.deepcopy(v) for k, v in mod.__dict__.items()
                               if isinstance(v, (dict, list, set)) and not k.startswith("__")}
        return mod

    def restore(self):
        """reset mutable module-level containers (caches, registries) of every loaded module to their state right
        after import, so that re-executed paths are pure functions of their decisions"""
        for modname, snap in self._snap.items():
            mod = self.loaded[modname]
            for k, v in snap.items():
                cur = mod.__dict__.get(k)
                if cur is None or type(cur) is not type(v) or cur != v:
                    mod.__dict__[k] = copy.deepcopy(v)

    # ---- AST helpers
    def func_ast(self, modname, fname):
        tree = ast.parse(self.source(modname))
        for n in ast.walk(tree):
            if isinstance(n, ast.FunctionDef) and n.name == fname:
                return n
        raise core.Inconclusive("function %s.%s not found (anchor missing)" % (modname, fname))

    def slice_function(self, modname, fname, first, last, params, returns, name="_slice", extra_globals=None, within=None):
        """Cut a statement range out of a function's body (top-level statements of that function) by structural anchors
        and compile it as a function of its free variables.  first/last: predicates on (ast stmt, source text).
        The sliced statements are the repository's own text; a missing anchor is an Inconclusive (exit 3), never a pass."""
        fn = self.func_ast(modname, fname)
        src = self.source(modname)
        body = fn.body
        if within is not None:      # statements of a nested compound statement (e.g. the body of a particular loop)
            holder = next((n for n in ast.walk(fn) if hasattr(n, "body") and n is not fn and within(n, ast.get_source_segment(src, n) or "")), None)
            if holder is None:
                raise core.Inconclusive("slice anchor (within) not found in %s.%s" % (modname, fname))
            body = holder.body
        i0 = next((i for i, st in enumerate(body) if first(st, ast.get_source_segment(src, st) or "")), None)
        if i0 is None:
            raise core.Inconclusive("slice anchor (first) not found in %s.%s" % (modname, fname))
        i1 = next((i for i in range(i0, len(body)) if last(body[i], ast.get_source_segment(src, body[i]) or "")), None)
        if i1 is None:
            raise core.Inconclusive("slice anchor (last) not found in %s.%s" % (modname, fname))
        stmts = body[i0:i1 + 1]
        # backward slice: a free variable of the range that an *earlier simple assignment* of the same function defines
        # (e.g. `width = max(in_window, out_window)`) is defined by prepending that assignment
        m_globals = set(self.load(modname).__dict__) | set(vars(builtins)) | set(extra_globals or ())
        for _ in range(4):
            stored = {n.id for st in stmts for n in ast.walk(st) if isinstance(n, ast.Name) and isinstance(n.ctx, ast.Store)}
            stored |= {a.arg for st in stmts for n in ast.walk(st) if isinstance(n, (ast.Lambda, ast.FunctionDef)) for a in n.args.args}
            loads = {n.id for st in stmts for n in ast.walk(st) if isinstance(n, ast.Name) and isinstance(n.ctx, ast.Load)}
            free = loads - stored - set(params) - m_globals
            add = []
            for name_ in sorted(free):
                for st in reversed(body[:i0]):
                    if isinstance(st, ast.Assign) and any(isinstance(t, ast.Name) and t.id == name_ for t in st.targets) and st not in stmts and st not in add:
                        add.append(st)
                        break
            if not add:
                break
            stmts = sorted(add, key=lambda st: st.lineno) + list(stmts)
        tail = []
        if returns is not None:      # returns=None: the range ends with the function's own return statement
            tail = [ast.Return(value=ast.Tuple(elts=[ast.Name(id=r, ctx=ast.Load()) for r in returns], ctx=ast.Load()))]
        f = ast.FunctionDef(name=name, args=ast.arguments(posonlyargs=[], args=[ast.arg(arg=p) for p in params], kwonlyargs=[], kw_defaults=[], defaults=[]),
                            body=list(stmts) + tail, decorator_list=[], type_params=[])
        mod = ast.Module(body=[f], type_ignores=[])
        ast.fix_missing_locations(mod)
        m = self.load(modname)
        ns = dict(m.__dict__)
        if extra_globals:
            ns.update(extra_globals)
        exec(compile(mod, self.path(modname), "exec"), ns)
        seg = "\n".join(src.split("\n")[stmts[0].lineno - 1:stmts[-1].end_lineno])
        info = {"module": "tangermeme/" + modname.replace(".", "/") + ".py", "function": fname + " (statement range)",
                "lines": [stmts[0].lineno, stmts[-1].end_lineno], "sha1": hashlib.sha1(seg.encode()).hexdigest()}
        return ns[name], info

    def func_info(self, modname, fname):
        n = self.func_ast(modname, fname)
        seg = "\n".join(self.source(modname).split("\n")[n.lineno - 1:n.end_lineno])
        return {"module": "tangermeme/" + modname.replace(".", "/") + ".py", "function": fname,
                "lines": [n.lineno, n.end_lineno], "sha1": hashlib.sha1(seg.encode()).hexdigest()}


class _IntMeta(type):
    def __instancecheck__(cls, x):
        if isinstance(x, core.SNpInt):
            return False
        return isinstance(x, (int, SInt, SBool))


class _IntType(int, metaclass=_IntMeta):
    """stands in for the builtin `int` inside loaded modules"""
    def __new__(cls, x=0, *a):
        return core.s_int(x, *a)


class _FloatMeta(type):
    def __instancecheck__(cls, x):
        return isinstance(x, (float, SReal))


class _FloatType(float, metaclass=_FloatMeta):
    def __new__(cls, x=0.0):
        return core.s_float(x)
