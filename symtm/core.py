"""Symbolic value classes over z3 and the native forking executor (engine A).

Values: concrete Python numbers stay concrete (int / Fraction / float / bool);
anything that depends on a symbolic input is an SInt / SReal / SBool wrapping a
z3 term.  `SBool.__bool__` and `SInt.__index__` ask the solver (engine A).
"""
import time
from fractions import Fraction

import z3


class PathAbort(BaseException):
    """Raised to abandon the current path (infeasible / capped).  BaseException so that
    `except Exception` in harnesses never swallows it; the context also records a flag so
    that a bare `except:` in the code under test cannot turn it into a pass."""


class Inconclusive(Exception):
    """solver answered unknown / a model limitation was hit: exit code 3, never a pass."""


# ----------------------------------------------------------------------------- contexts

class Stats:
    def __init__(self):
        self.paths = 0
        self.returned = 0
        self.raised = 0
        self.aborted = 0
        self.decisions = 0
        self.queries = 0
        self.solver_s = 0.0
        self.obligations = 0
        self.discharged = 0

    def merge(self, o):
        for k, v in o.__dict__.items():
            setattr(self, k, getattr(self, k) + v)

    def as_dict(self):
        d = dict(self.__dict__)
        d["solver_s"] = round(d["solver_s"], 3)
        return d


QUERY_TIMEOUT_MS = 60000


class Ctx:
    cur = None

    def __init__(self, prefix=(), stats=None):
        self.prefix = list(prefix)
        self.decisions = []          # list of (taken, alt_feasible or None)
        self.solver = z3.Solver()
        self.solver.set("timeout", QUERY_TIMEOUT_MS)
        self.stats = stats if stats is not None else Stats()
        self.aborted = False
        self.abort_reason = None
        self.fresh = 0
        self.log = []                # free-form event log for harnesses (RNG calls, faults ...)
        self.state = {}              # per-path shim state (call counters etc.)

    # -- solver plumbing
    def assume(self, c):
        c = zb(c)
        self.solver.add(c)

    def check(self, *extra):
        t = time.time()
        r = self.solver.check(*[zb(e) for e in extra])
        self.stats.queries += 1
        self.stats.solver_s += time.time() - t
        return r

    def model(self):
        return self.solver.model()

    def abort(self, why):
        self.aborted = True
        self.abort_reason = why
        raise PathAbort(why)

    def branch(self, cond, payload=None):
        """Decide a symbolic condition: follow a feasible side, remember the other."""
        if isinstance(cond, bool):
            return cond
        cond = z3.simplify(cond)
        if z3.is_true(cond):
            return True
        if z3.is_false(cond):
            return False
        if self.aborted:
            raise PathAbort(self.abort_reason)
        i = len(self.decisions)
        self.stats.decisions += 1
        cb = self.state.get("on_branch")
        if cb is not None and payload is None:
            cb(cond)                      # harness hook (e.g. "a data-dependent branch must not exist here")
        h = _site()
        if i < len(self.prefix):
            taken = self.prefix[i][0]
            if self.prefix[i][2] != h:
                self.aborted = True
                self.abort_reason = "unknown: non-deterministic re-execution (replayed decision met a different condition)"
                raise PathAbort(self.abort_reason)
            self.decisions.append((taken, None, payload, h))
        else:
            rt = self.check(cond)
            rf = self.check(z3.Not(cond))
            if str(rt) == "unknown" or str(rf) == "unknown":
                self.abort("solver unknown at a branch")
            t, f = rt == z3.sat, rf == z3.sat
            if t and f:
                taken = True
                self.decisions.append((True, True, payload, h))
            elif t:
                taken = True
                self.decisions.append((True, False, payload, h))
            elif f:
                taken = False
                self.decisions.append((False, False, payload, h))
            else:
                self.abort("infeasible path")
        self.solver.add(cond if taken else z3.Not(cond))
        return taken

    def replayed_payload(self):
        """payload recorded at the next decision index on the path being replayed (or None)"""
        i = len(self.decisions)
        if i < len(self.prefix):
            return self.prefix[i][1]
        return None

    def fresh_name(self, base):
        self.fresh += 1
        return "%s!%d" % (base, self.fresh)

    # -- obligations
    def prove(self, claim, what=""):
        """Return None if path_condition => claim (unsat of the negation), else a model."""
        claim = zb(claim)
        self.stats.obligations += 1
        r = self.check(z3.Not(claim))
        if r == z3.unsat:
            self.stats.discharged += 1
            return None
        if r == z3.sat:
            return self.model()
        raise Inconclusive("solver unknown on obligation %s" % what)

    def feasible(self, cond):
        r = self.check(cond)
        if str(r) == "unknown":
            raise Inconclusive("solver unknown on feasibility")
        return r == z3.sat


def cur():
    return Ctx.cur


def _site(depth=8):
    """call-site signature of a decision (z3 terms are not syntactically stable across re-executions because the
    simplifier orders commutative arguments by AST id, so divergence is detected by where the decision is asked)"""
    import sys
    f = sys._getframe(2)
    sig = []
    while f is not None and len(sig) < depth:
        sig.append((f.f_code.co_filename, f.f_lineno))
        f = f.f_back
    return hash(tuple(sig))


DEFAULT_RESET = [None]      # set by the loader: restore module-level state of the loaded code between paths


def explore(fn, max_paths=20000, stats=None, reset=None):
    """Run fn(ctx) once per feasible path (depth-first re-execution).

    fn must be a pure function of the decision sequence.  Returns Stats.
    A path that aborted (flag) is counted as aborted even if fn returned normally.
    """
    stats = stats if stats is not None else Stats()
    reset = reset if reset is not None else DEFAULT_RESET[0]
    prefix = []
    known = []
    while True:
        ctx = Ctx(prefix, stats)
        Ctx.cur = ctx
        if reset is not None:
            reset()              # module-level state of the code under test must not leak between paths
        try:
            out = fn(ctx)
            if ctx.aborted:
                stats.aborted += 1
            elif out == "raised":
                stats.raised += 1
            else:
                stats.returned += 1
        except PathAbort:
            stats.aborted += 1
            if ctx.abort_reason and "unknown" in ctx.abort_reason:
                raise Inconclusive(ctx.abort_reason)
        finally:
            Ctx.cur = None
        stats.paths += 1
        dec = []
        for i, (taken, alt, payload, h) in enumerate(ctx.decisions):
            if alt is None:
                alt = known[i][1]
            dec.append((taken, alt, payload, h))
        while dec and not dec[-1][1]:
            dec.pop()
        if not dec:
            return stats
        if stats.paths >= max_paths:
            raise Inconclusive("path cap %d reached" % max_paths)
        taken, _, payload, h = dec.pop()
        dec.append((not taken, False, payload, h))
        known = dec
        prefix = [(d[0], d[2], d[3]) for d in dec]


# ----------------------------------------------------------------------------- values

def is_sym(x):
    return isinstance(x, Sym)


class Sym:
    __slots__ = ("z",)
    __array_priority__ = 1000

    def __init__(self, z):
        self.z = z

    def __repr__(self):
        s = str(self.z)
        return "%s(%s)" % (type(self).__name__, s if len(s) < 80 else s[:77] + "...")


def _num_to_z(x, want_real=False):
    if isinstance(x, bool):
        x = int(x)
    if isinstance(x, int):
        return z3.RealVal(x) if want_real else z3.IntVal(x)
    if isinstance(x, Fraction):
        return z3.RealVal(str(x))
    if isinstance(x, float):
        if x != x or x in (float("inf"), float("-inf")):
            raise Inconclusive("non-finite float met a symbolic value")
        return z3.RealVal(str(Fraction(x)))
    import numpy
    if isinstance(x, numpy.integer):
        return _num_to_z(int(x), want_real)
    if isinstance(x, numpy.floating):
        return _num_to_z(float(x), want_real)
    if isinstance(x, numpy.bool_):
        return _num_to_z(int(x), want_real)
    raise TypeError("cannot lift %r to z3" % (x,))


def zn(x):
    """z3 numeric term of a value"""
    if isinstance(x, Sym):
        if isinstance(x, SBool):
            return z3.If(x.z, 1, 0)
        return x.z
    if isinstance(x, z3.ExprRef):
        return x
    return _num_to_z(x)


def zb(x):
    if isinstance(x, SBool):
        return x.z
    if isinstance(x, z3.ExprRef):
        return x
    if isinstance(x, Sym):
        return x.z != 0
    return z3.BoolVal(bool(x))


def _lift(v):
    """wrap a z3 term, folding numerals back to Python values"""
    if z3.is_int_value(v):
        return v.as_long()
    if z3.is_rational_value(v):
        return Fraction(v.numerator_as_long(), v.denominator_as_long())
    if z3.is_true(v):
        return True
    if z3.is_false(v):
        return False
    s = v.sort()
    if s == z3.IntSort():
        return SInt(v)
    if s == z3.RealSort():
        return SReal(v)
    if s == z3.BoolSort():
        return SBool(v)
    raise TypeError(s)


lift = _lift


def _coerce2(a, b):
    za, zb_ = zn(a), zn(b)
    if z3.is_int(za) and z3.is_real(zb_):
        za = z3.ToReal(za)
    elif z3.is_real(za) and z3.is_int(zb_):
        zb_ = z3.ToReal(zb_)
    return za, zb_


def _is_num(o):
    import numpy
    return isinstance(o, (int, float, Fraction, Sym, numpy.number, numpy.bool_)) and not isinstance(o, str)


def _is_zero(o):
    return not isinstance(o, Sym) and o == 0


def _is_one(o):
    return not isinstance(o, Sym) and o == 1 and not isinstance(o, bool)


class SNum(Sym):
    __slots__ = ()
    __hash__ = None

    def __add__(self, o):
        if not _is_num(o):
            return NotImplemented
        if _is_zero(o):
            return self
        a, b = _coerce2(self, o)
        return _lift(a + b)

    __radd__ = __add__

    def __sub__(self, o):
        if not _is_num(o):
            return NotImplemented
        if _is_zero(o):
            return self
        a, b = _coerce2(self, o)
        return _lift(a - b)

    def __rsub__(self, o):
        if not _is_num(o):
            return NotImplemented
        a, b = _coerce2(o, self)
        return _lift(a - b)

    def __mul__(self, o):
        if not _is_num(o):
            return NotImplemented
        if isinstance(o, float) and o != o:
            return o                      # NaN propagates (it must be discarded by a later select, else Inconclusive)
        if _is_zero(o):
            return 0
        if _is_one(o):
            return self
        # keep linear things linear: If(c, 1, 0) * w  ->  If(c, w, 0)
        a, b = _coerce2(self, o)
        for u, v in ((a, b), (b, a)):
            if z3.is_app_of(u, z3.Z3_OP_ITE):
                c, x, y = u.children()
                if (z3.is_int_value(x) or z3.is_rational_value(x)) and (z3.is_int_value(y) or z3.is_rational_value(y)):
                    return _lift(z3.If(c, z3.simplify(x * v), z3.simplify(y * v)))
        return _lift(a * b)

    __rmul__ = __mul__

    def __neg__(self):
        return _lift(-self.z)

    def __pos__(self):
        return self

    def __abs__(self):
        return _lift(z3.If(self.z >= 0, self.z, -self.z))

    def __truediv__(self, o):
        if not _is_num(o):
            return NotImplemented
        a, b = zn(self), zn(o)
        if z3.is_int(a):
            a = z3.ToReal(a)
        if z3.is_int(b):
            b = z3.ToReal(b)
        if not isinstance(o, Sym) and o == 0:
            raise ZeroDivisionError("division by zero")
        return _lift(a / b)

    def __rtruediv__(self, o):
        if not _is_num(o):
            return NotImplemented
        a, b = zn(o), zn(self)
        if z3.is_int(a):
            a = z3.ToReal(a)
        if z3.is_int(b):
            b = z3.ToReal(b)
        return _lift(a / b)

    def __floordiv__(self, o):
        if not _is_num(o):
            return NotImplemented
        a, b = zn(self), zn(o)
        if not (z3.is_int(a) and z3.is_int(b)):
            a, b = _coerce2(self, o)
            return _lift(z3.ToReal(z3.ToInt(a / b)))
        return _lift(_floordiv(a, b, o))

    def __rfloordiv__(self, o):
        a, b = zn(o), zn(self)
        return _lift(_floordiv(a, b, self))

    def __mod__(self, o):
        if not _is_num(o):
            return NotImplemented
        a, b = zn(self), zn(o)
        return _lift(a - b * _floordiv(a, b, o))

    def __rmod__(self, o):
        a, b = zn(o), zn(self)
        return _lift(a - b * _floordiv(a, b, self))

    def _cmp(self, o, f):
        if o is None or isinstance(o, str):
            return NotImplemented
        if not _is_num(o):
            return NotImplemented
        if isinstance(o, float) and (o != o or o in (float("inf"), float("-inf"))):
            # a symbolic value is finite: compare against +-inf / nan concretely
            if o != o:
                return f(1.0, float("nan"))
            return f(0.0, o)
        a, b = _coerce2(self, o)
        return _lift(z3.simplify(f(a, b)))

    def __lt__(self, o):
        return self._cmp(o, lambda a, b: a < b)

    def __le__(self, o):
        return self._cmp(o, lambda a, b: a <= b)

    def __gt__(self, o):
        return self._cmp(o, lambda a, b: a > b)

    def __ge__(self, o):
        return self._cmp(o, lambda a, b: a >= b)

    def __eq__(self, o):
        if o is None or isinstance(o, str) or not _is_num(o):
            return False
        return self._cmp(o, lambda a, b: a == b)

    def __ne__(self, o):
        if o is None or isinstance(o, str) or not _is_num(o):
            return True
        return self._cmp(o, lambda a, b: a != b)

    def __bool__(self):
        return Ctx.cur.branch(self.z != 0)


def _floordiv(a, b, b_val):
    """Python floor division on z3 Ints (z3 `/` is Euclidean)."""
    if not isinstance(b_val, Sym):
        if b_val == 0:
            raise ZeroDivisionError("integer division or modulo by zero")
        if b_val > 0:
            return a / b
        return (-a) / (-b)
    return z3.If(b > 0, a / b, (-a) / (-b))


class SInt(SNum):
    __slots__ = ()

    def concretize(self):
        ctx = Ctx.cur
        while True:
            if ctx.aborted:
                raise PathAbort(ctx.abort_reason)
            v = ctx.replayed_payload()          # deterministic re-execution: reuse the recorded choice
            if v is None:
                r = ctx.check()
                if r != z3.sat:
                    ctx.abort("infeasible/unknown while concretising")
                v = ctx.model().eval(self.z, model_completion=True).as_long()
            if ctx.branch(self.z == v, payload=v):
                return v

    def __index__(self):
        return self.concretize()

    __int__ = __index__

    def __hash__(self):
        # a symbolic integer used as a dict / set key: its value is pinned on this path (one path per value)
        return hash(self.concretize())

    def __float__(self):
        return float(self.concretize())

    def __pow__(self, o):
        if isinstance(o, int) and o >= 0:
            r = 1
            for _ in range(o):
                r = r * self
            return r
        return NotImplemented


class SNpInt(SInt):
    """a numpy integer scalar (numpy.int64(...)): behaves like an integer but is NOT an instance of the builtin int;
    integer arithmetic with builtin / numpy integers yields a numpy integer again (numpy's scalar promotion)"""
    __slots__ = ()


def _np_closed(name):
    base = getattr(SInt, name)

    def op(self, *a):
        r = base(self, *a)
        if type(r) is SInt and all(isinstance(x, (int, SInt)) and not isinstance(x, bool) for x in a):
            return SNpInt(r.z)
        return r
    op.__name__ = name
    return op


for _n in ("__add__", "__radd__", "__sub__", "__rsub__", "__mul__", "__rmul__", "__floordiv__", "__rfloordiv__", "__mod__", "__rmod__", "__neg__"):
    if hasattr(SInt, _n):
        setattr(SNpInt, _n, _np_closed(_n))


class SReal(SNum):
    __slots__ = ()

    def __pow__(self, o):
        if isinstance(o, int) and o >= 0:
            r = 1
            for _ in range(o):
                r = r * self
            return r
        return NotImplemented


class SBool(Sym):
    __slots__ = ()
    __hash__ = None

    def __bool__(self):
        return Ctx.cur.branch(self.z)

    def __and__(self, o):
        if isinstance(o, (bool, SBool)):
            return _lift(z3.simplify(z3.And(self.z, zb(o))))
        return NotImplemented

    __rand__ = __and__

    def __or__(self, o):
        if isinstance(o, (bool, SBool)):
            return _lift(z3.simplify(z3.Or(self.z, zb(o))))
        return NotImplemented

    __ror__ = __or__

    def __xor__(self, o):
        return _lift(z3.simplify(z3.Xor(self.z, zb(o))))

    __rxor__ = __xor__

    def __invert__(self):
        return _lift(z3.simplify(z3.Not(self.z)))

    def __eq__(self, o):
        if isinstance(o, (bool, SBool)):
            return _lift(z3.simplify(self.z == zb(o)))
        if _is_num(o):
            return _lift(z3.simplify(zn(self) == zn(o)))
        return False

    def __ne__(self, o):
        r = self.__eq__(o)
        return (not r) if isinstance(r, bool) else ~r

    # arithmetic on booleans (True == 1)
    def _n(self):
        return _lift(z3.If(self.z, 1, 0))

    def __add__(self, o):
        return self._n() + o

    __radd__ = __add__

    def __sub__(self, o):
        return self._n() - o

    def __rsub__(self, o):
        return o - self._n()

    def __mul__(self, o):
        return self._n() * o

    __rmul__ = __mul__

    def __lt__(self, o):
        return self._n() < o

    def __le__(self, o):
        return self._n() <= o

    def __gt__(self, o):
        return self._n() > o

    def __ge__(self, o):
        return self._n() >= o

    def __index__(self):
        return 1 if bool(self) else 0

    __int__ = __index__


class SLog:
    """log2-domain number represented by its linear value p >= 0 (p == 0 <=> -inf); `nan` marks a possible NaN.
    a + b = SLog(pa*pb), a - b = SLog(pa/pb), comparisons compare p; math.pow(2, a) leaves the log domain (returns p),
    math.log2(r) enters it.  +inf is not representable (inputs are finite or -inf)."""
    __array_priority__ = 3000
    __hash__ = None

    def __init__(self, p, nan=False):
        self.p = p
        self.nan = nan

    def __repr__(self):
        return "SLog(p=%r%s)" % (self.p, ", nan?" if self.nan is not False else "")

    @staticmethod
    def _co(o):
        if isinstance(o, SLog):
            return o
        if hasattr(o, "a") and getattr(o.a, "size", 0) == 1:        # 0-d array wrapper
            return SLog._co(o.a.flat[0])
        if isinstance(o, float) and o == float("-inf"):
            return SLog(0)
        if isinstance(o, (int, float, Fraction)) and not isinstance(o, bool) and o == o and abs(o) != float("inf"):
            # a concrete finite log-value: only exact powers are representable
            f = Fraction(o)
            if f.denominator == 1:
                return SLog(Fraction(2) ** int(f))
        return None

    def __add__(self, o):
        o2 = self._co(o)
        if o2 is None:
            raise Inconclusive("SLog + %r not representable" % (o,))
        return SLog(self.p * o2.p, s_or(self.nan, o2.nan))

    __radd__ = __add__

    def __sub__(self, o):
        o2 = self._co(o)
        if o2 is None:
            raise Inconclusive("SLog - %r not representable" % (o,))
        # (-inf) - (-inf) is NaN; x - (-inf) = +inf is not representable: both flagged as nan
        bad = o2.p == 0
        return SLog(ite(bad, 1, self.p / ite(bad, 1, o2.p)), s_or(self.nan, o2.nan, bad))

    def __rpow__(self, base):
        if base != 2:
            raise Inconclusive("pow with a base other than 2 on a log-domain value")
        return self.p

    def _cmp(self, o, f, inf_res, ninf_f):
        if isinstance(o, float) and o == float("inf"):
            return inf_res
        o2 = self._co(o)
        if o2 is None:
            raise Inconclusive("SLog compared with %r" % (o,))
        return f(self.p, o2.p)

    def __eq__(self, o):
        return self._cmp(o, lambda a, b: a == b, False, None)

    def __ne__(self, o):
        return self._cmp(o, lambda a, b: a != b, True, None)

    def __lt__(self, o):
        return self._cmp(o, lambda a, b: a < b, True, None)

    def __le__(self, o):
        return self._cmp(o, lambda a, b: a <= b, True, None)

    def __gt__(self, o):
        return self._cmp(o, lambda a, b: a > b, False, None)

    def __ge__(self, o):
        return self._cmp(o, lambda a, b: a >= b, False, None)


def slog_ite(c, a, b):
    return SLog(ite(c, a.p, b.p), ite(c, a.nan, b.nan) if (a.nan is not False or b.nan is not False) else False)


# ----------------------------------------------------------------------------- helpers

def ite(c, a, b):
    c, a, b = unwrap0(c), unwrap0(a), unwrap0(b)
    if isinstance(a, SLog) or isinstance(b, SLog):
        a2, b2 = SLog._co(a), SLog._co(b)
        if a2 is None or b2 is None:
            raise Inconclusive("ite between a log-domain value and %r / %r" % (a, b))
        if not isinstance(c, (Sym, z3.ExprRef)):
            return a if c else b
        return slog_ite(c, a2, b2)
    return _ite(c, a, b)


def unwrap0(x):
    """0-d array wrappers (tensor / ndarray facades holding one element) stand for their element"""
    a = getattr(x, "a", None)
    if a is not None and getattr(a, "size", 0) == 1 and hasattr(a, "flat") and not isinstance(x, Sym):
        return a.flat[0]
    return x


def _ite(c, a, b):
    c, a, b = unwrap0(c), unwrap0(a), unwrap0(b)
    if isinstance(c, Sym):
        c = zb(c)
    if isinstance(c, z3.ExprRef):
        c = z3.simplify(c)
        if z3.is_true(c):
            return a
        if z3.is_false(c):
            return b
        if a is b:
            return a
        if isinstance(a, (bool, SBool)) and isinstance(b, (bool, SBool)):
            return _lift(z3.If(c, zb(a), zb(b)))
        x, y = _coerce2(a, b)
        if x.eq(y):
            return a
        return _lift(z3.If(c, x, y))
    return a if c else b


def s_and(*xs):
    zs = []
    for x in xs:
        if isinstance(x, Sym) or isinstance(x, z3.ExprRef):
            zs.append(zb(x))
        elif not x:
            return False
    if not zs:
        return True
    return _lift(z3.simplify(z3.And(*zs)))


def s_or(*xs):
    zs = []
    for x in xs:
        if isinstance(x, Sym) or isinstance(x, z3.ExprRef):
            zs.append(zb(x))
        elif x:
            return True
    if not zs:
        return False
    return _lift(z3.simplify(z3.Or(*zs)))


def s_not(x):
    if isinstance(x, Sym) or isinstance(x, z3.ExprRef):
        return _lift(z3.simplify(z3.Not(zb(x))))
    return not x


def s_min(*a, **k):
    import builtins
    if len(a) == 1:
        a = tuple(a[0])
        if len(a) == 1 and not k:
            return unwrap0(a[0])
    if any(isinstance(unwrap0(x), (Sym, SLog)) for x in a):
        a = tuple(unwrap0(x) for x in a)
    if not any(isinstance(x, (Sym, SLog)) for x in a):
        return builtins.min(*a, **k)
    r = a[0]
    for x in a[1:]:
        r = ite(x < r, x, r)
    return r


def s_max(*a, **k):
    import builtins
    if len(a) == 1:
        a = tuple(a[0])
        if len(a) == 1 and not k:
            return unwrap0(a[0])
    if any(isinstance(unwrap0(x), (Sym, SLog)) for x in a):
        a = tuple(unwrap0(x) for x in a)
    if not any(isinstance(x, (Sym, SLog)) for x in a):
        return builtins.max(*a, **k)
    r = a[0]
    for x in a[1:]:
        r = ite(x > r, x, r)
    return r


def s_abs(x):
    return abs(x)


def s_sum(it, start=0):
    r = start
    for x in it:
        r = r + x
    return r


def s_int(x=0, *a):
    import builtins
    x = unwrap0(x)
    if isinstance(x, SInt):
        return x
    if isinstance(x, SBool):
        return x._n()
    if isinstance(x, SReal):
        # truncation toward zero
        z = x.z
        return _lift(z3.If(z >= 0, z3.ToInt(z), -z3.ToInt(-z)))
    return builtins.int(x, *a)


def s_float(x=0.0):
    import builtins
    x = unwrap0(x)
    if isinstance(x, SReal):
        return x
    if isinstance(x, SInt):
        return _lift(z3.ToReal(x.z))
    return builtins.float(x)


def s_round(x, n=None):
    """round half to even (Python / numpy semantics), exact on rationals; a symbolic real is rounded symbolically:
    floor(x * 10^n + 1/2), minus one at an exact tie whose floor is odd"""
    import builtins
    x = unwrap0(x)
    if isinstance(x, (SInt, SBool)) or (isinstance(x, int) and not isinstance(x, bool)):
        return x
    if isinstance(x, SReal) and not isinstance(x, SLog):
        k = 10 ** (n or 0)
        y = x.z * k + z3.RealVal(1) / 2
        fl = z3.ToInt(y)
        tie = z3.And(z3.ToReal(fl) == y, fl % 2 != 0)
        r = z3.If(tie, fl - 1, fl)
        return _lift(r) if n is None else _lift(z3.ToReal(r) / k)
    if isinstance(x, Sym):
        raise Inconclusive("round() of this symbolic value is not modelled")
    if isinstance(x, Fraction):
        k = 10 ** (n or 0)
        y = x * k
        fl = y.numerator // y.denominator
        rem = y - fl
        r = fl + (1 if (rem > Fraction(1, 2) or (rem == Fraction(1, 2) and fl % 2 != 0)) else 0)
        return r if n is None else Fraction(r, k)
    return builtins.round(x) if n is None else builtins.round(x, n)


def model_value(model, x):
    """concrete Python value of x (Sym / z3 term / concrete) under a model"""
    if isinstance(x, Sym):
        x = x.z
    if isinstance(x, z3.ExprRef):
        v = model.eval(x, model_completion=True)
        if z3.is_int_value(v):
            return v.as_long()
        if z3.is_rational_value(v):
            return Fraction(v.numerator_as_long(), v.denominator_as_long())
        if z3.is_true(v):
            return True
        if z3.is_false(v):
            return False
        if z3.is_algebraic_value(v):
            a = v.approx(20)
            return Fraction(a.numerator_as_long(), a.denominator_as_long())
        raise Inconclusive("cannot evaluate %s" % v)
    return x


def Int(name):
    return SInt(z3.Int(name))


def Real(name):
    return SReal(z3.Real(name))


def Bool(name):
    return SBool(z3.Bool(name))
