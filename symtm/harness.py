"""Check driver support: configuration fan-out, violation replay bookkeeping, known findings,
evidence files, exit codes."""
import hashlib
import json
import multiprocessing
import os
import sys
import time
import traceback

VERIF = os.path.dirname(os.path.dirname(os.path.abspath(__file__)))
REPO = os.environ.get("TANGERMEME_REPO", "/repo")

EXIT_OK, EXIT_VIOLATION, EXIT_INCONCLUSIVE = 0, 1, 3


def jsonable(x):
    from fractions import Fraction
    if isinstance(x, dict):
        return {str(k): jsonable(v) for k, v in x.items()}
    if isinstance(x, (list, tuple)):
        return [jsonable(v) for v in x]
    if isinstance(x, Fraction):
        return float(x) if x.denominator != 1 else int(x)
    if isinstance(x, (int, float, str, bool)) or x is None:
        return x
    try:
        import numpy
        if isinstance(x, numpy.generic):
            return x.item()
        if isinstance(x, numpy.ndarray):
            return jsonable(x.tolist())
    except Exception:
        pass
    return str(x)


CFG_BUDGET_S = int(os.environ.get("VERIF_CFG_BUDGET_S", "3600"))


class _Budget(BaseException):       # not an Exception: handlers of the code under test / of the check bodies must not absorb it
    pass


def _worker(args):
    fn_mod, fn_name, cfg = args
    import importlib
    import signal
    mod = importlib.import_module(fn_mod)
    t = time.time()

    def _over(signum, frame):
        raise _Budget("configuration exceeded its wall-clock budget of %d s" % CFG_BUDGET_S)
    try:
        signal.signal(signal.SIGALRM, _over)
        signal.alarm(CFG_BUDGET_S)
    except (ValueError, AttributeError):
        pass
    try:
        out = getattr(mod, fn_name)(cfg)
        out = out or {}
        out.setdefault("status", "ok")
    except (Exception, _Budget) as e:   # Inconclusive, budget overruns and harness bugs: never a pass
        out = {"status": "inconclusive", "error": "%s: %s" % (type(e).__name__, e), "trace": traceback.format_exc()[-1500:]}
    finally:
        try:
            signal.alarm(0)
        except (ValueError, AttributeError):
            pass
    out["cfg"] = cfg
    out["wall_s"] = round(time.time() - t, 3)
    return jsonable(out)


GRACE_AFTER_VIOLATION_S = int(os.environ.get("VERIF_GRACE_S", "180"))


def run_configs(fn_mod, fn_name, cfgs, procs=None, timeout=None):
    """run worker(cfg) for every cfg in a process pool (fork); returns list of result dicts.
    Once a configuration has returned a violation, the remaining configurations get GRACE_AFTER_VIOLATION_S more seconds;
    those still running are then cancelled and reported as inconclusive (the run exits 1 on the violation anyway) - a
    changed tree that also makes some other query intractable must not hide the counterexample already found."""
    procs = procs or min(16, max(1, len(cfgs)))
    jobs = [(fn_mod, fn_name, c) for c in cfgs]
    if procs == 1 or len(cfgs) <= 1 or os.environ.get("VERIF_SERIAL"):
        return [_worker(j) for j in jobs]
    ctx = multiprocessing.get_context("fork")
    pool = ctx.Pool(procs, maxtasksperchild=20)
    try:
        pending = {i: pool.apply_async(_worker, (j,)) for i, j in enumerate(jobs)}
        results = {}
        first_violation = None
        while pending:
            for i in [i for i, r in pending.items() if r.ready()]:
                results[i] = pending.pop(i).get()
                if results[i].get("violations") and first_violation is None:
                    first_violation = time.time()
            if first_violation is not None and pending and time.time() - first_violation > GRACE_AFTER_VIOLATION_S:
                for i in pending:
                    results[i] = {"status": "inconclusive", "cfg": jsonable(cfgs[i]), "cancelled": True,
                                  "error": "cancelled %d s after another configuration reported a violation" % GRACE_AFTER_VIOLATION_S}
                pending = {}
                pool.terminate()
                break
            time.sleep(0.05)
        return [results[i] for i in range(len(jobs))]
    finally:
        pool.terminate()
        pool.join()


class Report:
    def __init__(self, prop, tier, seed):
        self.prop, self.tier, self.seed = prop, tier, seed
        self.t0 = time.time()
        self.stats = {"paths": 0, "returned": 0, "raised": 0, "aborted": 0, "decisions": 0, "queries": 0,
                      "solver_s": 0.0, "obligations": 0, "discharged": 0}
        self.configs = 0
        self.violations = []      # dicts: {key, what, replay:{...}, reproduced:bool}
        self.inconclusive = []
        self.samples = []
        self.functions = []
        self.bounds = {}
        self.assumptions = []
        self.replays = 0
        self.validated = 0
        self.extra = {}
        self.witness_ok = None

    def run_validation(self, fn):
        """environment-model validation: a failure is an inconclusive (exit 3), never hides found violations"""
        try:
            self.validated += int(fn() or 0)
        except Exception as e:
            self.inconclusive.append({"error": "model validation: %s: %s" % (type(e).__name__, e)})

    def add_stats(self, s):
        for k in self.stats:
            if k in s:
                self.stats[k] += s[k]

    def absorb(self, results):
        for r in results:
            self.configs += 1
            self.add_stats(r.get("stats", {}))
            if r.get("status") == "inconclusive":
                self.inconclusive.append({"cfg": r.get("cfg"), "error": r.get("error"), "trace": r.get("trace")})
            for v in r.get("violations", []):
                self.violations.append(v)
            for s in r.get("samples", [])[:2]:
                if len(self.samples) < 12:
                    self.samples.append(s)
            self.validated += r.get("validated", 0)


def load_known():
    p = os.path.join(VERIF, "known_findings.json")
    if not os.path.exists(p):
        return []
    return json.load(open(p)).get("findings", [])


def finish(rep, level="model_checking"):
    """write evidence, print verdict lines, return exit code"""
    # translation validation of the shared environment model against real torch / numpy (every run, seeded)
    try:
        from checks import modelval
        rep.extra["model_validation_cases"] = modelval.validate(rep.seed)
        rep.validated += rep.extra["model_validation_cases"]
    except Exception as e:
        rep.inconclusive.append({"error": "environment-model validation: %s: %s" % (type(e).__name__, e)})
    known = [k for k in load_known() if k["property"] == rep.prop and k.get("status") == "known"]
    new, listed = [], []
    confirmed_keys = {v.get("key") for v in rep.violations if v.get("reproduced") is True}
    for v in rep.violations:
        if v.get("reproduced") == "skipped":
            if v.get("key") in confirmed_keys:
                continue                      # same failure already confirmed by replay in this run
            v = dict(v, reproduced=False)
        if not v.get("reproduced"):
            rep.inconclusive.append({"error": "counterexample did not reproduce on the real code (model/encoding problem)", "violation": v})
            continue
        hit = [k for k in known if k["key"] == v.get("key")]
        (listed if hit else new).append(v)
    os.makedirs(os.path.join(VERIF, "replays"), exist_ok=True)
    os.makedirs(os.path.join(VERIF, "evidence"), exist_ok=True)
    lines = []
    seen_keys = set()
    for v in listed:
        if v["key"] not in seen_keys:
            seen_keys.add(v["key"])
            lines.append("KNOWN-FINDING: property=%s %s" % (rep.prop, v["key"]))
    seen = set()
    for v in new:
        blob = json.dumps(jsonable(v), sort_keys=True)
        h = hashlib.sha1(blob.encode()).hexdigest()[:12]
        path = os.path.join(VERIF, "replays", "%s_%s.json" % (rep.prop, h))
        with open(path, "w") as f:
            f.write(json.dumps(jsonable(v), indent=1, sort_keys=True))
        if v.get("key") in seen:
            continue
        seen.add(v.get("key"))
        lines.append("VIOLATION property=%s replay=%s  (%s)" % (rep.prop, path, v.get("what", v.get("key"))))
    wall = time.time() - rep.t0
    st = dict(rep.stats)
    st["solver_s"] = round(st["solver_s"], 3)
    ev = {
        "property_id": rep.prop, "tier": rep.tier, "seed": rep.seed, "level": level,
        "coverage": {
            "states": st["paths"], "transitions": st["decisions"] + st["obligations"],
            "traces_validated_against_impl": rep.validated + rep.replays,
            "samples": rep.samples or ["(no sample recorded)"],
            "obligations": st["obligations"], "discharged": st["discharged"], "branch_decisions": st["decisions"],
            "solver_queries": st["queries"], "solver_s": st["solver_s"],
            "paths_returned": st["returned"], "paths_raised": st["raised"], "paths_aborted": st["aborted"],
            "configurations": rep.configs, "functions_encoded": rep.functions, "bounds": rep.bounds,
            "inconclusive": len(rep.inconclusive), "known_findings_seen": sorted(seen_keys),
            "reachability_witness": rep.witness_ok,
            "explanation": "states = symbolic execution paths explored (each covers every input satisfying its path condition); "
                           "transitions = solver-decided steps (branch decisions taken while executing the real code + proof obligations at path ends); branch_decisions is reported separately; obligations = path-condition => property queries, "
                           "all must be unsat of the negation; traces_validated = concrete runs of the real torch/numba build "
                           "compared with the model (shim validation + counterexample replays)",
        },
        "assumptions": rep.assumptions,
        "wall_s": round(wall, 2),
        "violations": len(new),
    }
    ev["coverage"].update(jsonable(rep.extra))
    with open(os.path.join(VERIF, "evidence", rep.prop + ".json"), "w") as f:
        f.write(json.dumps(jsonable(ev), indent=1))
    for l in lines:
        print(l)
    if new:
        code = EXIT_VIOLATION
        for inc in rep.inconclusive[:3]:
            print("NOTE (also inconclusive) %s" % json.dumps(jsonable(inc))[:700])
    elif rep.inconclusive:
        for inc in rep.inconclusive[:5]:
            print("HARNESS-ERROR/INCONCLUSIVE property=%s %s" % (rep.prop, json.dumps(jsonable(inc))[:1500]))
        code = EXIT_INCONCLUSIVE
    elif rep.witness_ok is False:
        print("HARNESS-ERROR property=%s reachability witness failed (vacuous harness)" % rep.prop)
        code = EXIT_INCONCLUSIVE
    elif st["paths"] == 0 or st["obligations"] == 0:
        print("HARNESS-ERROR property=%s nothing explored" % rep.prop)
        code = EXIT_INCONCLUSIVE
    else:
        code = EXIT_OK
    print("%s %s tier=%s configs=%d paths=%d obligations=%d/%d queries=%d solver=%.1fs wall=%.1fs violations=%d known=%d inconclusive=%d" % (
        "OK" if code == 0 else "FAIL", rep.prop, rep.tier, rep.configs, st["paths"], st["discharged"], st["obligations"],
        st["queries"], st["solver_s"], wall, len(new), len(seen_keys), len(rep.inconclusive)))
    return code
