import time, types, sys, numpy as np, z3
from fractions import Fraction
import shim, symtorch_min as st
torch, _ = st.make_torch()
shim.SHIMS["torch"] = torch
tq = types.ModuleType("tqdm"); tq.trange = lambda n, **k: range(n); tq.tqdm = lambda x, **k: x
shim.SHIMS["tqdm"] = tq
dls = shim.load("deep_lift_shap")
import random
rnd = random.Random(0)
def fr(): return Fraction(rnd.randint(-5,5), rnd.randint(1,4))
class Net(st.Module):
    def __init__(s, A, L, H, nt, act):
        super().__init__()
        s.l1 = st.Linear([[fr() for _ in range(A*L)] for _ in range(H)], [fr() for _ in range(H)])
        s.act = getattr(torch.nn, act)()
        s.l2 = st.Linear([[fr() for _ in range(H)] for _ in range(nt)], [fr() for _ in range(nt)])
    def forward(s, X):
        return s.l2(s.act(s.l1(X.reshape(X.shape[0], -1))))
def onehot(name, shape, A, s):
    *lead, A_, L = shape
    a = np.empty(shape, dtype=object)
    for idx in np.ndindex(*lead):
        for p in range(L):
            c = z3.Int(f"{name}_{'_'.join(map(str,idx))}_{p}"); s.add(c>=0, c<A)
            for k in range(A): a[idx+(k,p)] = z3.If(c==k, z3.RealVal(1), z3.RealVal(0))
    return st.T(a)
def run(B, A, L, H, nshuf, act="Tanh", target=1, batch_size=3, hypothetical=False):
    s = z3.Solver(); s.set("timeout", 60000)
    net = Net(A, L, H, 2, act)
    X = onehot("x", (B,A,L), A, s); refs = onehot("r", (B,nshuf,A,L), A, s)
    torch.any_calls.clear()
    t0=time.time()
    attr = dls.deep_lift_shap(net, X, references=refs, target=target, batch_size=batch_size, device='cpu', hypothetical=hypothetical)
    t_run=time.time()-t0
    hooks = sum(len(m._forward_hooks)+len(m._forward_pre_hooks)+len(m._backward_hooks) for m in net.modules())
    # band assumption on hidden pre-activations
    with torch.autograd.set_grad_enabled(False):
        zx = net.l1(X.reshape(B,-1)).a
        y = net(X).a[:, target]
        res=[]
        for i in range(B):
            yr = []
            for j in range(nshuf):
                r = st.T(refs.a[i,j][None])
                zr = net.l1(r.reshape(1,-1)).a[0]
                for h in range(H):
                    d = z3.simplify(st.R(zx[i,h]) - st.R(zr[h])); s.add(z3.Or(d==0, d>=z3.RealVal("1e-6"), d<=-z3.RealVal("1e-6")))
                yr.append(net(r).a[0, target])
            lhs = z3.Sum([st.R(v) for v in attr.a[i].flat])
            rhs = st.R(y[i]) - z3.Sum([st.R(v) for v in yr])/nshuf
            t1=time.time(); r_ = s.check(lhs != rhs); res.append((str(r_), round(time.time()-t1,2)))
    warn = [str(s.check(z3.Or([c for c in conds]))) for conds in torch.any_calls]
    return dict(run_s=round(t_run,2), hooks_left=hooks, completeness=res, warn_feasible=warn)
print(run(1,2,2,2,1, batch_size=1), flush=True)
print(run(2,4,3,2,2, batch_size=3), flush=True)
print(run(2,4,3,3,2, batch_size=1, act="GELU"), flush=True)
# failure injection: reference generator raises on 2nd call
calls=[0]
def badref(X, n=1, random_state=None):
    calls[0]+=1
    if calls[0]==2: raise ValueError("boom")
    return st.T(np.stack([X.a]*n, axis=1))
net = Net(4,3,2,2,"Tanh"); s=z3.Solver(); X = onehot("x",(2,4,3),4,s)
try: dls.deep_lift_shap(net, X, references=badref, n_shuffles=2, batch_size=1, device='cpu', random_state=0)
except ValueError as e: print("raised", e)
print("hooks after failure:", sum(len(m._forward_hooks)+len(m._forward_pre_hooks)+len(m._backward_hooks) for m in net.modules()))
