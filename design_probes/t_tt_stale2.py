import numpy, torch
from tangermeme.tools.tomtom import tomtom
numpy.random.seed(1)
q = numpy.array([[0.,0.,0.25,0.75]]).T
Ta = numpy.array([[0.25,0.75,0.,0.]]).T
Tb = numpy.array([[0.,0.75,0.,0.25]]).T
qlong = numpy.random.dirichlet([1,1,1,1], size=7).T
def show(r, row): return [[round(float(v),6) for v in x[row]] for x in r]
kw = dict(n_jobs=1, reverse_complement=False, n_target_bins=None, n_score_bins=50)
a = tomtom([q], [Ta,Tb], **kw); b = tomtom([qlong, q], [Ta,Tb], **kw); c = tomtom([qlong, qlong, q], [Ta, Tb], **kw)
print("alone      :", show(a,0)); print("after long :", show(b,1)); print("after 2long:", show(c,2))
for i in range(3):
    print("repeat alone:", show(tomtom([q], [Ta,Tb], **kw),0))
