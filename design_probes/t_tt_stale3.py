import numpy, torch
from tangermeme.tools.tomtom import tomtom
q = numpy.array([[0.,0.,0.25,0.75]]).T
far = [0.25,0.75,0.,0.]
Ta = numpy.array([far,far,far]).T
Tb = numpy.array([[0.,0.75,0.,0.25]]).T
prev = numpy.array([[0.25,0.75,0.,0.]]).T     # matches Ta perfectly
def show(r, row): return [[round(float(v),6) for v in x[row]] for x in r]
kw = dict(n_jobs=1, reverse_complement=False, n_target_bins=None, n_score_bins=50)
print("alone     :", show(tomtom([q], [Ta,Tb], **kw),0))
print("after prev:", show(tomtom([prev, q], [Ta,Tb], **kw),1))
print("prev row  :", show(tomtom([prev, q], [Ta,Tb], **kw),0))
