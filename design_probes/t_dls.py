import torch, warnings
from tangermeme.deep_lift_shap import deep_lift_shap
from tangermeme.utils import random_one_hot
torch.manual_seed(0)
class Net(torch.nn.Module):
    def __init__(s):
        super().__init__()
        s.c = torch.nn.Conv1d(4, 3, 2).double(); s.a = torch.nn.Tanh(); s.l1 = torch.nn.Linear(3*4, 3).double(); s.a2 = torch.nn.Softplus(); s.l2 = torch.nn.Linear(3, 2).double()
    def forward(s, X):
        return s.l2(s.a2(s.l1(s.a(s.c(X)).reshape(X.shape[0], -1))))
m = Net()
X = random_one_hot((2,4,5), random_state=0).double()
refs = torch.stack([random_one_hot((3,4,5), random_state=i+1).double() for i in range(2)])
mult = deep_lift_shap(m, X, references=refs, target=1, raw_outputs=True, device='cpu')
# oracle
def oracle(x, r):
    zx, zr = m.c(x[None])[0], m.c(r[None])[0]
    ax, ar = torch.tanh(zx), torch.tanh(zr)
    k1 = torch.where((zx-zr).abs()<1e-6, 1-ax**2, (ax-ar)/(zx-zr))
    hx, hr = m.l1(ax.reshape(1,-1))[0], m.l1(ar.reshape(1,-1))[0]
    bx, br = torch.nn.functional.softplus(hx), torch.nn.functional.softplus(hr)
    k2 = torch.where((hx-hr).abs()<1e-6, torch.sigmoid(hx), (bx-br)/(hx-hr))
    g = m.l2.weight[1] * k2            # (3,)
    g = (m.l1.weight.T @ g).reshape(3,4) * k1   # (3,4)
    # conv transpose: mult[c, p] = sum_o sum_k W[o,c,k] g[o, p-k]
    W = m.c.weight; out = torch.zeros(4,5).double()
    for o in range(3):
        for c in range(4):
            for k in range(2):
                for p in range(4):
                    out[c, p+k] += W[o,c,k]*g[o,p]
    return out
err = max((mult[i,j]-oracle(X[i], refs[i,j])).abs().max().item() for i in range(2) for j in range(3))
print("oracle vs impl max abs err", err)
attr = deep_lift_shap(m, X, references=refs, target=1, device='cpu')
y = m(X)[:,1]; yr = torch.stack([m(refs[i])[:,1].mean() for i in range(2)])
print("completeness", (attr.sum(dim=(1,2)) - (y-yr)).abs().max().item())
print("leftover attrs:", [n for n in vars(m.a) if n in ("input","output","handles","_NON_LINEAR_OPS")], len(m.a._forward_hooks), len(m.a._backward_hooks))
# leak test
Xn = X.clone(); Xn[0,:,0] = 0
try: deep_lift_shap(m, Xn, target=1, device='cpu', n_shuffles=2, random_state=0)
except Exception as e: print("raised", type(e).__name__)
print("hooks after failure:", len(m.a._forward_hooks), len(m.a._forward_pre_hooks), len(m.a._backward_hooks))
