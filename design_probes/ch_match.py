from typing import List, Tuple
from tangermeme.match import _resize_coords_generator, _chrom_coords_generator, _valid_locus

def resize_ok(start: int, end: int, width: int) -> Tuple[int, int]:
    """
    pre: 0 <= start <= end
    pre: width >= 1
    post: __return__[1] - __return__[0] == width
    post: __return__[0] + width // 2 == start + (end - start) // 2
    """
    (c, s, e), = list(_resize_coords_generator([("c", start, end)], width))
    return (s, e)

def tiles_ok(chrom_size: int, width: int) -> List[Tuple[int, int]]:
    """
    pre: 0 <= chrom_size <= 12
    pre: 1 <= width <= 5
    post: len(__return__) == chrom_size // width
    post: all(e - s == width and s % width == 0 and 0 <= s and e <= chrom_size for (s, e) in __return__)
    """
    return [(s, e) for _, s, e in _chrom_coords_generator("c", chrom_size, width)]

def tiles_bad(chrom_size: int, width: int) -> List[Tuple[int, int]]:
    """
    pre: 0 <= chrom_size <= 12
    pre: 1 <= width <= 5
    post: len(__return__) == (chrom_size + 1) // width
    """
    return [(s, e) for _, s, e in _chrom_coords_generator("c", chrom_size, width)]
