import z3, time
R=z3.Real
eps = z3.RealVal("1e-6")
def nonlin(n):
    s=z3.Solver(); s.set("timeout",60000)
    g=[R(f"g{i}") for i in range(n)]; gi=[R(f"gi{i}") for i in range(n)]
    ix=[R(f"ix{i}") for i in range(n)]; ir=[R(f"ir{i}") for i in range(n)]
    ox=[R(f"ox{i}") for i in range(n)]; orr=[R(f"or{i}") for i in range(n)]
    tot_in=[]; tot_out=[]
    for i in range(n):
        d=ix[i]-ir[i]; do=ox[i]-orr[i]
        s.add(z3.Implies(d==0, do==0)); s.add(z3.Or(d==0, d>=eps, d<=-eps))
        ng=z3.If(z3.And(d<eps, d>-eps), gi[i], g[i]*(do/d))
        tot_in.append(ng*d); tot_out.append(g[i]*do)
    s.add(z3.Sum(tot_in)!=z3.Sum(tot_out))
    return s
def linear(n_in,n_out):
    s=z3.Solver(); s.set("timeout",60000)
    W=[[R(f"w{i}_{j}") for j in range(n_in)] for i in range(n_out)]; b=[R(f"b{i}") for i in range(n_out)]
    a=[R(f"a{j}") for j in range(n_in)]; a2=[R(f"r{j}") for j in range(n_in)]
    g=[R(f"g{i}") for i in range(n_out)]
    ox=[z3.Sum([W[i][j]*a[j] for j in range(n_in)])+b[i] for i in range(n_out)]
    orr=[z3.Sum([W[i][j]*a2[j] for j in range(n_in)])+b[i] for i in range(n_out)]
    m=[z3.Sum([W[i][j]*g[i] for i in range(n_out)]) for j in range(n_in)]
    s.add(z3.Sum([m[j]*(a[j]-a2[j]) for j in range(n_in)]) != z3.Sum([g[i]*(ox[i]-orr[i]) for i in range(n_out)]))
    return s
for n in (1,2,4,8,16):
    s=nonlin(n); t=time.time(); print("nonlin",n,s.check(),round(time.time()-t,2),flush=True)
for (a,b) in ((2,1),(4,2),(8,3),(12,4)):
    s=linear(a,b); t=time.time(); print("linear",a,b,s.check(),round(time.time()-t,2),flush=True)
