import z3, time, itertools, collections
def sel(arr, i):   # ite-chain select
    r = arr[-1]
    for k in range(len(arr)-2, -1, -1): r = z3.If(i == k, arr[k], r)
    return r
def check(seq, A, break_last=False):
    L = len(seq); s = z3.Solver()
    nxt = []   # per char: list of successor positions (after symbolic permutation)
    for ch in range(A):
        pos = [i+1 for i in range(L-1) if seq[i]==ch]; n = len(pos)
        if n == 0: nxt.append([z3.IntVal(0)]*L); continue
        perm = [z3.Int(f"p{ch}_{k}") for k in range(n-1)]
        for p in perm: s.add(p>=0, p<n-1)
        if perm: s.add(z3.Distinct(*perm)) if len(perm)>1 else None
        order = perm + [z3.IntVal(n-1)]   # keep last index
        if break_last and n>1: order = [z3.IntVal(n-1)] + [p for p in perm]  # mutant: last not kept last
        row = [sel([z3.IntVal(x) for x in pos], o) for o in order] + [z3.IntVal(0)]*(L-n)
        nxt.append(row)
    idxs = [z3.IntVal(c) for c in seq]
    counters = [z3.IntVal(0)]*A
    idx = z3.IntVal(0); out = [sel(idxs, idx)]
    for j in range(1, L):
        ch = sel(idxs, idx)
        cnt = sel(counters, ch)
        # idx = nxt[ch][cnt]
        rows = [sel(nxt[c], cnt) for c in range(A)]
        idx = sel(rows, ch)
        counters = [z3.If(ch==c, counters[c]+1, counters[c]) for c in range(A)]
        out.append(sel(idxs, idx))
    want = collections.Counter(zip(seq[:-1], seq[1:]))
    conds = []
    for a in range(A):
        for b in range(A):
            conds.append(z3.Sum([z3.If(z3.And(out[j]==a, out[j+1]==b),1,0) for j in range(L-1)]) == want.get((a,b),0))
    s.add(z3.Not(z3.And(conds)))
    return s
for (A,L) in [(2,6),(3,6),(3,8),(4,8),(4,10)]:
    t=time.time(); n=0; worst=0; bad=0
    import random; rnd=random.Random(1)
    seqs = list(itertools.product(range(A), repeat=L))
    if len(seqs)>60: seqs = rnd.sample(seqs, 60)
    for seq in seqs:
        t0=time.time(); r = check(seq, A).check(); worst=max(worst,time.time()-t0); n+=1
        if r != z3.unsat: bad+=1
    print((A,L), "seqs", n, "bad", bad, "total", round(time.time()-t,2), "worst", round(worst,2), flush=True)
# mutant
seq=(0,1,0,2,0,1,1,0); s=check(seq,3,break_last=True); t=time.time(); print("mutant", s.check(), round(time.time()-t,2))
