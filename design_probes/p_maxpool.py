import z3, time
R=z3.Real
def lemma(Lp, k=2, eps="1e-7"):
    """_maxpool rule, 1 channel, length Lp*k, kernel=stride=k. Both halves. grad_output g (same both halves)."""
    eps = z3.RealVal(eps)
    s = z3.Solver(); s.set("timeout", 120000)
    n = Lp*k
    x=[R(f"x{i}") for i in range(n)]; r=[R(f"r{i}") for i in range(n)]
    g=[R(f"g{w}") for w in range(Lp)]; gi_x=[R(f"gix{i}") for i in range(n)]
    tot_lhs=[]; tot_rhs=[]
    for i in range(n):
        d=x[i]-r[i]; s.add(z3.Or(d==0, d>=eps, d<=-eps))
    obligations=[]
    for w in range(Lp):
        xs=x[w*k:(w+1)*k]; rs=r[w*k:(w+1)*k]
        def mx(v):
            m=v[0]; a=z3.IntVal(0)
            for j in range(1,len(v)):
                a=z3.If(v[j]>m, j, a); m=z3.If(v[j]>m, v[j], m)
            return m,a
        ox,ax=mx(xs); orr,ar=mx(rs)
        xmax=z3.If(ox>orr,ox,orr)
        do_x = xmax-orr; do_r = ox-xmax      # delta_out for example half, ref half
        # unpool: example half value g*do_x at position ax ; ref half g*do_r at position ar
        lhs=[]
        for j in range(k):
            up = z3.If(ax==j, g[w]*do_x, 0) + z3.If(ar==j, g[w]*do_r, 0)
            d = xs[j]-rs[j]
            ng = z3.If(z3.And(d<eps, d>-eps), gi_x[w*k+j], up/d)
            lhs.append(ng*d)
        obligations.append(z3.Sum(lhs) != g[w]*(ox-orr))
    return s, obligations
for (Lp,k) in [(1,2),(1,3),(2,2),(1,4)]:
    s,obs = lemma(Lp,k)
    for o in obs[:1]:
        t=time.time(); r=s.check(o); print((Lp,k), r, round(time.time()-t,2), flush=True)
