import numpy, itertools, warnings
warnings.filterwarnings("ignore")
from tangermeme.tools import tomtom as tt
idh = tt._integer_distances_and_histogram
rng = numpy.random.RandomState(0)
grid = [0.0, 0.25, 0.5, 0.75, 1.0]
cols = [c for c in itertools.product(grid, repeat=4) if abs(sum(c)-1)<1e-9]
found = 0; tried = 0
for trial in range(4000):
    nt = rng.randint(2, 7)
    T = numpy.array([cols[rng.randint(len(cols))] for _ in range(nt)]).T.copy()
    Q = numpy.array([cols[rng.randint(len(cols))]]).T.copy()
    nq = 1; n_bins = [10, 20, 50, 100][rng.randint(4)]
    gamma = numpy.empty((nt, 1)); gint = numpy.empty((nt,1), dtype='int8'); f = numpy.empty((1, n_bins+1)); med = numpy.empty(1); mb = numpy.empty((1000,2))
    try:
        off = idh(Q, T, gamma, gint, f, med, mb, (Q**2).sum(axis=0), (T**2).sum(axis=0), numpy.ones(nt), 0, 1, n_bins)
    except Exception as e:
        continue
    tried += 1
    sc = gint[:,0].astype(int) + int(off)
    if (sc == 0).any():
        found += 1
        if found <= 3: print("score-0 column:", "Q", Q[:,0], "T", T.T.tolist(), "n_bins", n_bins, "scores", sc.tolist(), "offset", int(off))
print("tried", tried, "with a score-0 column", found)
