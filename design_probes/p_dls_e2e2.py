exec(open('p_dls_e2e.py').read().split("print(run(1,2,2,2,1")[0])
def run_raw(B, A, L, H, nshuf, act="Tanh", target=1, batch_size=3):
    s = z3.Solver(); s.set("timeout", 60000)
    net = Net(A, L, H, 2, act)
    X = onehot("x", (B,A,L), A, s); refs = onehot("r", (B,nshuf,A,L), A, s)
    torch.any_calls.clear()
    mult = dls.deep_lift_shap(net, X, references=refs, target=target, batch_size=batch_size, device='cpu', raw_outputs=True)
    attr = dls.deep_lift_shap(net, X, references=refs, target=target, batch_size=batch_size, device='cpu')
    hyp = dls.deep_lift_shap(net, X, references=refs, target=target, batch_size=batch_size, device='cpu', hypothetical=True)
    out=[]
    with torch.autograd.set_grad_enabled(False):
        zx = net.l1(X.reshape(B,-1)).a; y = net(X).a[:, target]
        for i in range(B):
            for j in range(nshuf):
                r = st.T(refs.a[i,j][None]); zr = net.l1(r.reshape(1,-1)).a[0]
                s.push()
                for h in range(H):
                    d = z3.simplify(st.R(zx[i,h]) - st.R(zr[h])); s.add(z3.Or(d==0, d>=z3.RealVal("1e-6"), d<=-z3.RealVal("1e-6")))
                lhs = z3.Sum([ (st.R(a)-st.R(b))*st.R(m) for a,b,m in zip(X.a[i].flat, refs.a[i,j].flat, mult.a[i,j].flat)])
                rhs = st.R(y[i]) - st.R(net(r).a[0,target])
                t1=time.time(); rr = s.check(lhs != rhs); out.append(("pair",i,j,str(rr), round(time.time()-t1,2)))
                s.pop()
            # processed == mean_j projection * x  (oracle projection written here)
            ok_terms = 0; bad = 0
            for c in range(A):
                for p in range(L):
                    projs = []
                    for j in range(nshuf):
                        projs.append(z3.Sum([ ((1 if cc==c else 0) - st.R(refs.a[i,j,cc,p])) * st.R(mult.a[i,j,cc,p]) for cc in range(A)]))
                    exp_h = z3.Sum(projs)/nshuf
                    exp = exp_h * st.R(X.a[i,c,p])
                    t1=time.time()
                    r1 = s.check(st.R(hyp.a[i,c,p]) != exp_h); r2 = s.check(st.R(attr.a[i,c,p]) != exp)
                    if str(r1)=="unsat" and str(r2)=="unsat": ok_terms+=1
                    else: bad+=1
            out.append(("proj", i, ok_terms, bad))
    return out
t=time.time(); print(run_raw(2,4,3,2,2, batch_size=3)); print(round(time.time()-t,1))
t=time.time(); print(run_raw(2,4,4,3,2, batch_size=1, act="GELU")); print(round(time.time()-t,1))
