import time, types, numpy as np, z3, contextlib
from symex import *
from symex import _zn
import shim
from shim import T
torch = shim.SHIMS["torch"]
# extend the prototype shim for predict
@contextlib.contextmanager
def no_grad():
    ST['grad'] = False
    try: yield
    finally: ST['grad'] = True
ST = {'grad': True}
torch.no_grad = no_grad
T.dtype = 'int8'
T.to = lambda s, *a, **k: s; T.type = lambda s, *a, **k: s; T.cpu = lambda s: s
_orig_cat = torch.cat
tq = types.ModuleType("tqdm")
def trange(a, b=None, step=1, **k):
    f = lambda v: v.__index__() if isinstance(v, SNum) else v
    return range(f(a), f(b), f(step)) if b is not None else range(f(a))
tq.trange = trange
shim.SHIMS["tqdm"] = tq
pr = shim.load("predict")
class Model:
    def __init__(s, n_out, kind): s.n_out=n_out; s.kind=kind; s.training=True; s.log=[]
    def to(s, d): return s
    def eval(s): s.training=False; return s
    def parameters(s): return iter(())
    def __call__(s, X, *args):
        s.log.append((s.training, ST['grad'], X.shape[0], tuple(a.shape[0] for a in args)))
        outs=[]
        for t in range(s.n_out):
            F = z3.Function(f"F{t}", *([z3.IntSort()]*(int(np.prod(X.shape[1:])) + sum(int(np.prod(a.shape[1:])) for a in args))), z3.IntSort())
            rows=[]
            for b in range(X.shape[0]):
                ins = [_zn(v) for v in X.a[b].flat] + [_zn(v) for a in args for v in a.a[b].flat]
                rows.append([SNum(F(*ins))])
            outs.append(T(np.array(rows, dtype=object)))
        return outs[0] if s.kind=='tensor' else (tuple(outs) if s.kind=='tuple' else list(outs))
def run(n, nargs, n_out, kind):
    st = dict(paths=0, bad=0, samples=[])
    def body(ctx):
        X = T(np.array([[SNum(z3.Int(f"x{i}_{j}")) for j in range(2)] for i in range(n)], dtype=object))
        args = [T(np.array([[SNum(z3.Int(f"a{k}_{i}"))] for i in range(n)], dtype=object)) for k in range(nargs)]
        bs = z3.Int("bs"); ctx.assume(bs >= 1)
        m = Model(n_out, kind)
        y = pr.predict(m, X, args=args if nargs else None, batch_size=SNum(bs), device='cpu')
        st['paths'] += 1
        ys = [y] if kind=='tensor' else list(y)
        neg=[]
        for t, yt in enumerate(ys):
            F = z3.Function(f"F{t}", *([z3.IntSort()]*(2+nargs)), z3.IntSort())
            if yt.shape[0] != n: st['bad']+=1; return
            for i in range(n):
                exp = F(*([_zn(v) for v in X.a[i].flat] + [_zn(a.a[i,0]) for a in args]))
                neg.append(_zn(yt.a[i,0]) != exp)
        ok_mode = all((not tr) and (not g) and all(k==b for k in ks) for tr,g,b,ks in m.log)
        r = ctx.check(z3.Or(neg))
        if r != z3.unsat or not ok_mode: st['bad']+=1
        if len(st['samples'])<3: st['samples'].append(str(ctx.solver.model().eval(bs)) if ctx.check()==z3.sat else '?')
    t=time.time(); r = explore(body); return r, st, round(time.time()-t,2)
for cfg in [(3,0,1,'tensor'),(5,2,2,'tuple'),(7,1,3,'list')]:
    print(cfg, run(*cfg), flush=True)
