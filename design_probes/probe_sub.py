import time, sys
import numpy as np, z3
from symex import *
import shim
from shim import T, load

ers = load("ersatz")
ers._validate_input = lambda X, *a, **k: X

def onehot(name, B, A, L, ctx):
    chars = [[z3.Int(f"{name}_{b}_{p}") for p in range(L)] for b in range(B)]
    a = np.empty((B, A, L), dtype=object)
    for b in range(B):
        for p in range(L):
            ctx.assume(z3.And(chars[b][p] >= 0, chars[b][p] < A))
            for c in range(A):
                a[b, c, p] = SNum(z3.If(chars[b][p] == c, 1, 0))
    return T(a), chars

stats = dict(ok=0, raised=0, viol=0, q=0)
def run(B, A, L, M, MB):
    def body(ctx):
        X, xc = onehot("x", B, A, L, ctx)
        Mo, mc = onehot("m", MB, A, M, ctx)
        start = z3.Int("start")
        X0 = X.a.copy()
        try:
            Y = ers.substitute(X, Mo, start=SNum(start))
        except ValueError:
            # must be out of range
            r = ctx.check(z3.And(start >= 0, start + M <= L))
            stats["q"] += 1
            if r != z3.unsat:
                stats["viol"] += 1; print("VIOL: raised for in-range", ctx.solver.model())
            stats["raised"] += 1
            return
        # spec
        neg = []
        for b in range(B):
            for p in range(L):
                for c in range(A):
                    mb = b if MB > 1 else 0
                    exp = z3.If(xc[b][p] == c, 1, 0)
                    for j in range(M):
                        exp = z3.If(start + j == p, z3.If(mc[mb][j] == c, 1, 0), exp)
                    neg.append(Y.a[b, c, p].z != exp)
        neg.append(z3.Not(z3.And(start >= 0, start + M <= L)))
        # input unmodified
        same = all(X.a.flat[i] is X0.flat[i] for i in range(X0.size))
        r = ctx.check(z3.Or(neg)); stats["q"] += 1
        if r != z3.unsat or not same:
            stats["viol"] += 1; print("VIOL", r, ctx.solver.model() if r == z3.sat else None)
        else:
            stats["ok"] += 1
    return explore(body)

t = time.time()
for (B, A, L, M, MB) in [(1,2,3,1,1),(2,4,5,3,1),(2,4,5,3,2),(2,4,5,1,2),(1,4,5,5,1),(1,3,4,5,1)]:
    t0 = time.time()
    print((B,A,L,M,MB), run(B, A, L, M, MB), round(time.time()-t0,2), stats)
print(time.time()-t)
