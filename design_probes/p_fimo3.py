import z3, time
def step(n, R, K):
    s = z3.Solver(); s.set("timeout", 120000)
    col = [z3.Int(f"c{k}") for k in range(n)]
    for v in col: s.add(v>=-R, v<=R)
    old = [z3.Real(f"o{j}") for j in range(K)]
    length = z3.Int("len"); s.add(length>=1, length<=K)
    lo, hi = z3.Int("lo"), z3.Int("hi"); s.add(0<=lo, lo<=hi, hi<length)
    for j in range(K):
        s.add(old[j]>=0); s.add(z3.Implies(z3.Or(j<lo, j>hi), old[j]==0))
    cmin = col[0]; cmax = col[0]
    for v in col[1:]:
        cmin = z3.If(v<cmin, v, cmin); cmax = z3.If(v>cmax, v, cmax)
    s.add(lo+cmin>=0, hi+cmax<length)
    q = z3.RealVal(1)/4
    new = [z3.RealVal(0)]*K; errs=[]
    for j in range(K):
        g = z3.And(j<length, old[j]!=0)
        for k in range(n):
            idx = j+col[k]
            errs.append(z3.And(g, z3.Or(idx<0, idx>=length)))
            new = [z3.If(z3.And(g, idx==c), new[c]+q*old[j], new[c]) for c in range(K)]
    def sel(arr, i):
        r = z3.RealVal(0)
        for kk in range(len(arr)): r = z3.If(i==kk, arr[kk], r)
        return r
    t=time.time(); r1 = s.check(z3.Or(errs)); t1=time.time()-t
    res=[]
    for c in range(K):
        ref = z3.Sum([q*sel(old, c-col[k]) for k in range(n)])
        t=time.time(); r = s.check(new[c]!=ref); res.append((str(r), round(time.time()-t,2)))
    t=time.time(); r3 = s.check(z3.Sum(new)!=z3.Sum(old)*n*q); t3=time.time()-t
    return r1, round(t1,2), res, r3, round(t3,2)
for (n,R,K) in [(4,1,6),(4,2,10),(4,3,14)]:
    print((n,R,K), step(n,R,K), flush=True)
