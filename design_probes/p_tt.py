import z3, time, numpy, itertools, sys
from poly import to_poly
from fractions import Fraction
from tangermeme.tools import tomtom as tt
pvb = tt._p_value_backgrounds.py_func
# patch inner call to py_func too
tt._pairwise_max = tt._pairwise_max.py_func
pvb.__globals__['_pairwise_max'] = tt._pairwise_max

def run(nq, n_bins, t_max, offset):
    n_len = nq*n_bins + nq*(offset+1)
    f = numpy.empty((nq, n_bins+1), dtype=object)
    s = z3.Solver()
    for i in range(nq):
        for l in range(n_bins+1):
            f[i,l] = z3.Real(f"f{i}_{l}"); s.add(f[i,l] > 0)
        f[i,0] = z3.RealVal(0)   # bin 0 unused by A (l from 1)
        s.add(z3.Sum(list(f[i,1:])) == 1)
    A = numpy.empty((nq,nq,n_len), dtype=object); A[:] = z3.Real("junkA")
    Ac = numpy.empty((nq,nq,n_len), dtype=object); Ac[:] = z3.Real("junkAc")
    B = numpy.empty((t_max+1, n_len), dtype=object); B[:] = z3.Real("junkB")
    pvb(f, A, B, Ac, nq, n_bins, t_max, offset)
    # reference: for each nt, each alignment a in range(nt+nq-1): span of original query columns
    res = []
    for nt in range(1, t_max+1):
        cdfs = []
        for a in range(nt+nq-1):
            ls = [l for l in range(nq) if 0 <= a-l < nt]
            cols = [nq-1-l for l in ls]
            # pmf of sum x over cols + offset*(nq-len(cols)); x in 1..n_bins w.p. f[col,x]
            pmf = {offset*(nq-len(cols)): z3.RealVal(1)}
            for ccol in cols:
                new = {}
                for sc, p in pmf.items():
                    for x in range(1, n_bins+1):
                        new[sc+x] = new.get(sc+x, 0) + p*f[ccol, x]
                pmf = new
            cdfs.append(pmf)
        for sidx in range(nq*n_bins + nq*offset):
            prod = z3.RealVal(1)
            for pmf in cdfs:
                prod = prod * z3.Sum([p for sc,p in pmf.items() if sc <= sidx] + [z3.RealVal(0)])
            res.append((nt, sidx, 1 - prod))
    return s, B, res
for (nq,nb,tm,off) in [(1,2,2,1),(2,2,2,1),(2,2,3,0),(2,3,3,2),(3,2,3,1),(3,3,4,1)]:
    t=time.time()
    s,B,res = run(nq,nb,tm,off)
    bad=0; unk=0; nqr=0; memo={}
    subst={}
    for i in range(nq):
        p={(): Fraction(1)}
        for l in range(1,nb): p[((f"f{i}_{l}",1),)] = Fraction(-1)
        subst[f"f{i}_{nb}"] = p
    for nt,sidx,ref in res:
        got = B[nt, sidx]
        if not isinstance(got, z3.ExprRef): got = z3.RealVal(got)
        P = to_poly(got-ref, memo, subst)
        if not P: continue
        s.push(); s.add(got != ref); s.set("timeout", 5000); r = s.check(); nqr+=1; s.pop()
        if r==z3.sat: bad+=1
        elif r!=z3.unsat: unk+=1
    print((nq,nb,tm,off), "cells",len(res),"solverq",nqr,"bad",bad,"unk",unk, round(time.time()-t,2), flush=True)
