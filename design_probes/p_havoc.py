import z3, numpy, math, sys
from tangermeme.tools import tomtom as tt
g = tt._tomtom.py_func.__globals__
for name in ["_binned_median","_integer_distances_and_histogram","_pairwise_max","_p_value_backgrounds","_p_values","_merge_rc_results"]:
    g[name] = getattr(tt, name).py_func
H = {}
def hav(shape, name, dtype=object):
    a = numpy.empty(shape, dtype=object)
    for idx in numpy.ndindex(*shape):
        a[idx] = z3.Real(f"{name}_{'_'.join(map(str,idx))}")
    return a
def run(Qs, Ts, n_bins=10, n_median_bins=50, n_cache=20, rc=False):
    Q_lens = numpy.array([q.shape[1] for q in Qs]); Q = numpy.concatenate(Qs, axis=1); Q_norm=(Q**2).sum(axis=0)
    if rc: Ts = Ts + [t[::-1, ::-1] for t in Ts]
    T_lens = numpy.array([t.shape[1] for t in Ts]); T = numpy.concatenate(Ts, axis=1); T_norm=(T**2).sum(axis=0)
    rr_inv = numpy.arange(T.shape[1]); rr_counts = numpy.ones(T.shape[1])
    Qmax = int(max(Q_lens)); Tmax = int(max(T_lens)); nt = T.shape[1]
    n_len = Qmax*n_bins + Qmax*n_cache
    out = []
    Qoff = numpy.concatenate([[0], numpy.cumsum(Q_lens)])
    T_lens = [int(x) for x in T_lens]
    for i, nq in enumerate(Q_lens):
        nq = int(nq)
        gamma = hav((nt, Qmax), "g"); gint = hav((nt, Qmax), "gi"); f = hav((Qmax, n_bins+1), "f")
        A = hav((Qmax,Qmax,n_len), "A"); B = hav((Tmax+1, n_len), "B"); Ac = hav((Qmax,Qmax,n_len), "Ac")
        med = hav((Qmax,), "m"); mb = hav((n_median_bins,2), "mb"); res = hav((len(T_lens),5), "r")
        try:
            off = g["_integer_distances_and_histogram"](Q, T, gamma, gint, f, med, mb, Q_norm, T_norm, rr_counts, int(Qoff[i]), nq, n_bins); off = int(off)
            g["_p_value_backgrounds"](f, A, B, Ac, nq, n_bins, Tmax, off)
            g["_p_values"](gint, B, rr_inv, T_lens, -1, nq, off, res)
            if rc: g["_merge_rc_results"](res)
            else: res[:, 4] = 0
            n_in = len(T_lens)//2 if rc else len(T_lens)
            sym = [(idx, res[idx]) for idx in numpy.ndindex(n_in,5) if isinstance(res[idx], z3.ExprRef)]
            out.append(("ok", nq, sym[:3]))
        except Exception as e:
            out.append(("EXC", nq, type(e).__name__, str(e)[:100]))
    return out
numpy.random.seed(0)
def pwm(l): return numpy.random.dirichlet([1,1,1,1], size=l).T
for Qs, Ts in [([pwm(3)], [pwm(4), pwm(2)]), ([pwm(1)], [pwm(1), pwm(3)]), ([pwm(1)],[pwm(1)]), ([pwm(2)],[pwm(1),pwm(1)]), ([pwm(5)],[pwm(2), pwm(7)])]:
    for rc in (False, True):
        print([q.shape[1] for q in Qs], [t.shape[1] for t in Ts], rc, run(Qs, Ts, rc=rc))
import traceback
numpy.random.seed(0)
for _ in range(4): pwm(3)
numpy.random.seed(0)
seqs = [([pwm(3)], [pwm(4), pwm(2)]), ([pwm(1)], [pwm(1), pwm(3)]), ([pwm(1)],[pwm(1)]), ([pwm(2)],[pwm(1),pwm(1)])]
Qs, Ts = seqs[3]
_run = run
def run2():
    import types
    try:
        src = None
    except: pass
# rerun with traceback
import builtins
def run_tb(Qs, Ts):
    global hav
    Q_lens = [q.shape[1] for q in Qs]
    try:
        # inline copy of run but letting exception propagate
        import inspect
        code = inspect.getsource(_run).replace("except Exception as e:", "except ZeroDivisionError as e:")
        ns = dict(globals()); exec(code, ns); ns['run'](Qs, Ts)
    except Exception:
        traceback.print_exc()
run_tb(Qs, Ts)
