import torch, numpy, warnings
warnings.filterwarnings("ignore")
from tangermeme.utils import one_hot_encode, random_one_hot
from tangermeme.marginalize import marginalize_annotations
from tangermeme.ablate import ablate_annotations
from tangermeme.seqlet import recursive_seqlets
class Two(torch.nn.Module):
    def forward(self, X): return X.sum(dim=(1,2))[:,None].float(), X[:, :, 0].float()
X = random_one_hot((3,4,10), random_state=0).float(); X0 = random_one_hot((2,4,10), random_state=1).float()
for n_ann in (1,2,3):
    ann = torch.tensor([[0,1,4],[1,2,6],[2,0,3]][:n_ann])
    try:
        yb, ya = marginalize_annotations(Two(), X, X0, ann, device='cpu')
        print("C08 marginalize_annotations n_ann", n_ann, "-> n outputs returned", len(ya), [tuple(t.shape) for t in ya])
    except Exception as e: print("C08 n_ann", n_ann, type(e).__name__, e)
# C19: bump right after position 0 with flanks
torch.manual_seed(0)
best=None
for seed in range(30):
    torch.manual_seed(seed)
    Xa = torch.randn(2, 120)*0.05; Xa[0, 1:7] += 4.0; Xa[1, 50:56] += 4.0
    s = recursive_seqlets(Xa, additional_flanks=3, min_seqlet_len=3, max_seqlet_len=10, threshold=0.05)
    for _, r in s.iterrows():
        true = Xa[int(r.example_idx), int(r.start):int(r.end)].sum().item()
        if abs(true - r.attribution) > 1e-4:
            best = (seed, r.tolist(), true); break
    if best: break
print("C19 mismatch:", best)
