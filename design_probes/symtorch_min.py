"""Prototype: torch shim with autograd tape + nn.Module hooks over numpy object arrays of z3 Reals.
Feasibility probe for running the REAL deep_lift_shap source (C04-C07)."""
import types, itertools, collections, contextlib
import numpy as np, z3

def R(x):
    if isinstance(x, z3.ExprRef): return x
    from fractions import Fraction
    if isinstance(x, float): return z3.RealVal(repr(x))
    return z3.RealVal(x)
_add = np.frompyfunc(lambda a, b: z3.simplify(R(a) + R(b)) if (isinstance(a, z3.ExprRef) or isinstance(b, z3.ExprRef)) else a + b, 2, 1)
_sub = np.frompyfunc(lambda a, b: z3.simplify(R(a) - R(b)) if (isinstance(a, z3.ExprRef) or isinstance(b, z3.ExprRef)) else a - b, 2, 1)
def _mul1(a, b):
    if not isinstance(a, z3.ExprRef) and not isinstance(b, z3.ExprRef): return a * b
    for u, v in ((a, b), (b, a)):
        if not isinstance(u, z3.ExprRef) and u == 0: return 0
        if not isinstance(u, z3.ExprRef) and u == 1: return v
    return R(a) * R(b)
_mul = np.frompyfunc(_mul1, 2, 1)
_div = np.frompyfunc(lambda a, b: R(a) / R(b) if (isinstance(a, z3.ExprRef) or isinstance(b, z3.ExprRef)) else a / b, 2, 1)
_lt = np.frompyfunc(lambda a, b: R(a) < R(b), 2, 1)
_gt = np.frompyfunc(lambda a, b: R(a) > R(b), 2, 1)
_absf = np.frompyfunc(lambda a: z3.If(R(a) >= 0, R(a), -R(a)) if isinstance(a, z3.ExprRef) else abs(a), 1, 1)
_where = np.frompyfunc(lambda c, a, b: z3.If(c, R(a), R(b)) if isinstance(c, z3.ExprRef) else (a if c else b), 3, 1)

GRAD_ENABLED = [True]

class Node:
    def __init__(self, parents, bw): self.parents = parents; self.bw = bw   # bw(grad_out ndarray) -> list of ndarray per parent

class T:
    _ctr = itertools.count()
    def __init__(self, a, node=None, requires_grad=False):
        self.a = np.array(a, dtype=object) if not isinstance(a, np.ndarray) else a.astype(object)
        self.node = node; self.requires_grad = requires_grad or node is not None
        self.id = next(T._ctr)
    shape = property(lambda s: tuple(s.a.shape))
    dtype = 'float64'; device = 'cpu'
    def __len__(s): return s.a.shape[0]
    def __iter__(s): return (T(s.a[i]) for i in range(s.a.shape[0]))
    def _mk(s, a, parents, bw):
        track = GRAD_ENABLED[0] and any(p.requires_grad for p in parents)
        return T(a, Node(parents, bw) if track else None)
    # plumbing
    def clone(s): return s._mk(s.a.copy(), [s], lambda g: [g])
    def detach(s): return T(s.a)
    def cpu(s): return s
    def to(s, *a, **k): return s
    def type(s, *a): return s
    def requires_grad_(s): s.requires_grad = True; return s
    def reshape(s, *sh):
        if len(sh) == 1 and isinstance(sh[0], (tuple, list)): sh = tuple(sh[0])
        return s._mk(s.a.reshape(sh), [s], lambda g: [g.reshape(s.a.shape)])
    def chunk(s, n, dim=0): return tuple(s[i*(s.a.shape[0]//n):(i+1)*(s.a.shape[0]//n)] for i in range(n))
    def __getitem__(s, k):
        if isinstance(k, T): k = k.a.astype(int)
        if isinstance(k, tuple): k = tuple(x.a.astype(int) if isinstance(x, T) else x for x in k)
        r = s.a[k]
        if not isinstance(r, np.ndarray): r = np.array(r, dtype=object)
        def bw(g):
            z = np.zeros(s.a.shape, dtype=object);
            np.add.at(z, k, g) if False else None
            z2 = np.zeros(s.a.shape, dtype=object); z2[...] = 0
            # scatter (indices here are unique in our uses)
            z2[k] = g
            return [z2]
        return s._mk(r, [s], bw)
    def __setitem__(s, k, v):
        s.a[k] = v.a if isinstance(v, T) else v
    def sum(s, dim=None, axis=None, **kw):
        ax = dim if dim is not None else axis
        r = s.a.sum(axis=ax) if s.a.size else 0
        r = np.array(r, dtype=object)
        def bw(g):
            if ax is None: return [np.broadcast_to(g, s.a.shape).copy()]
            gg = np.expand_dims(g, ax) if not isinstance(ax, tuple) else np.expand_dims(g, ax)
            return [np.broadcast_to(gg, s.a.shape).copy()]
        return s._mk(_simp(r), [s], bw)
    def mean(s, dim=None):
        n = s.a.shape[dim]
        return T(_simp(_div(s.a.sum(axis=dim), n)))
    # arithmetic
    def _bin(s, o, f, bwf):
        oa = o.a if isinstance(o, T) else o
        ps = [s] + ([o] if isinstance(o, T) else [])
        return s._mk(f(s.a, oa), ps, lambda g: bwf(g, s.a, oa)[:len(ps)])
    def __add__(s, o): return s._bin(o, _add, lambda g, a, b: [g, _unb(g, b)])
    __radd__ = __add__
    def __sub__(s, o): return s._bin(o, _sub, lambda g, a, b: [g, _unb(_mul(g, -1), b)])
    def __mul__(s, o): return s._bin(o, _mul, lambda g, a, b: [_mul(g, b), _unb(_mul(g, a), b)])
    __rmul__ = __mul__
    def __imul__(s, o): s.a = _mul(s.a, o.a if isinstance(o, T) else o); return s
    def __truediv__(s, o): return T(_div(s.a, o.a if isinstance(o, T) else o))
    def __lt__(s, o): return T(_lt(s.a, o.a if isinstance(o, T) else o))
    def __gt__(s, o): return T(_gt(s.a, o.a if isinstance(o, T) else o))
    def __abs__(s): return T(_absf(s.a))

def _unb(g, b):
    if not isinstance(b, np.ndarray): return g
    return g
def _simp(a):
    f = np.frompyfunc(lambda x: z3.simplify(x) if isinstance(x, z3.ExprRef) else x, 1, 1)
    return f(a) if isinstance(a, np.ndarray) and a.size else a

def backward(root, wrt):
    """reverse pass from scalar root; returns grad ndarray for leaf `wrt`."""
    order, seen = [], set()
    def visit(t):
        if t.id in seen or t.node is None: return
        seen.add(t.id)
        for p in t.node.parents: visit(p)
        order.append(t)
    visit(root)
    grads = {root.id: np.array(1, dtype=object)}
    for t in reversed(order):
        g = grads.get(t.id)
        if g is None: continue
        for p, pg in zip(t.node.parents, t.node.bw(g)):
            if not p.requires_grad: continue
            grads[p.id] = pg if p.id not in grads else _add(grads[p.id], pg)
    return grads.get(wrt.id)

class Handle:
    def __init__(s, d, k): s.d = d; s.k = k
    def remove(s): s.d.pop(s.k, None)

class Module:
    def __init__(s):
        object.__setattr__(s, "_modules", collections.OrderedDict())
        s._forward_hooks = collections.OrderedDict(); s._forward_pre_hooks = collections.OrderedDict(); s._backward_hooks = collections.OrderedDict()
        s.training = True; s._hk = itertools.count()
    def __setattr__(s, k, v):
        if isinstance(v, Module): s._modules[k] = v
        object.__setattr__(s, k, v)
    def modules(s):
        yield s
        for m in s._modules.values(): yield from m.modules()
    def apply(s, fn):
        for m in s._modules.values(): m.apply(fn)
        fn(s); return s
    def to(s, *a, **k): return s
    def eval(s):
        for m in s.modules(): m.training = False
        return s
    def parameters(s): return iter(())
    def register_forward_hook(s, h): k = next(s._hk); s._forward_hooks[k] = h; return Handle(s._forward_hooks, k)
    def register_forward_pre_hook(s, h): k = next(s._hk); s._forward_pre_hooks[k] = h; return Handle(s._forward_pre_hooks, k)
    def register_full_backward_hook(s, h): k = next(s._hk); s._backward_hooks[k] = h; return Handle(s._backward_hooks, k)
    def __call__(s, *inputs):
        for h in list(s._forward_pre_hooks.values()): h(s, inputs)
        bh = list(s._backward_hooks.values())
        if bh and GRAD_ENABLED[0]:
            box = {}
            x = inputs[0]
            def bw_in(g):
                gi = (T(g),)
                for h in bh:
                    r = h(s, gi, (T(box["go"]),))
                    if r is not None: gi = r
                return [gi[0].a]
            xin = x._mk(x.a, [x], bw_in)
            out = s.forward(xin, *inputs[1:])
            def bw_out(g): box["go"] = g; return [g]
            out = out._mk(out.a, [out], bw_out)
        else:
            out = s.forward(*inputs)
        for h in list(s._forward_hooks.values()): h(s, inputs, out)
        return out

class Linear(Module):
    def __init__(s, W, b): super().__init__(); s.W = np.array(W, dtype=object); s.b = np.array(b, dtype=object)
    def forward(s, x):
        out = _simp(_add(x.a.dot(s.W.T), s.b))
        return x._mk(out, [x], lambda g: [_simp(g.dot(s.W))])

def _act_cls(name):
    class A(Module):
        def forward(s, x):
            f = z3.Function("act_" + name, z3.RealSort(), z3.RealSort()); df = z3.Function("dact_" + name, z3.RealSort(), z3.RealSort())
            out = np.frompyfunc(lambda v: f(R(v)), 1, 1)(x.a)
            return x._mk(out, [x], lambda g: [_mul(g, np.frompyfunc(lambda v: df(R(v)), 1, 1)(x.a))])
    A.__name__ = name
    return A

def make_torch():
    m = types.ModuleType("torch")
    m.Tensor = T
    for d in "int8 int32 int64 float32 float64 uint8 bool".split(): setattr(m, d, d)
    nn = types.SimpleNamespace(Module=Module, Linear=Linear)
    for n in "ReLU ReLU6 RReLU SELU CELU GELU SiLU Mish GLU ELU LeakyReLU Sigmoid Tanh Softplus Softshrink LogSigmoid PReLU MaxPool1d MaxPool2d Softmax".split():
        setattr(nn, n, _act_cls(n))
    fn = types.ModuleType("torch.nn.functional"); nn.functional = fn
    m.nn = nn
    def cat(xs, dim=0):
        xs = list(xs); sizes = [x.a.shape[dim] for x in xs]
        def bw(g): return list(np.split(g, np.cumsum(sizes)[:-1], axis=dim))
        return xs[0]._mk(np.concatenate([x.a for x in xs], axis=dim), xs, bw)
    m.cat = cat
    m.stack = lambda xs, dim=0: T(np.stack([x.a for x in xs], axis=dim))
    m.sub = lambda a, b: a - b
    m.abs = abs
    m.chunk = lambda t, n, dim=0: t.chunk(n)
    m.where = lambda c, a, b: T(_where(c.a, a.a, b.a))
    m.sum = lambda t, dim=None: t.sum(dim=dim)
    m.zeros_like = lambda t, **k: T(np.zeros(t.a.shape, dtype=object))
    class AnyRes:
        def __init__(s, conds): s.conds = conds
        def __bool__(s):
            m.any_calls.append(s.conds); return False     # recorded; decided later by the harness
    m.any_calls = []
    m.any = lambda t: AnyRes(list(t.a.flat))
    @contextlib.contextmanager
    def sge(flag):
        old = GRAD_ENABLED[0]; GRAD_ENABLED[0] = flag
        try: yield
        finally: GRAD_ENABLED[0] = old
    m.autograd = types.SimpleNamespace(set_grad_enabled=sge, grad=lambda y, x: (T(backward(y, x)),))
    sys_mods = {"torch": m, "torch.nn": nn, "torch.nn.functional": fn}
    return m, sys_mods
