import ast, z3, numpy, time
from engb import *
def run(R, K, n=4):
    it = Interp('/repo/tangermeme/tools/fimo.py', '_pwm_to_mapping'); s = z3.Solver(); it.solver = s
    loop = [x for x in it.fn.body if isinstance(x, ast.For) and ast.unparse(x.iter) == 'range(1, l)'][0]
    # state
    length = K; smallest = 0; largest = K-1          # extents concrete in this probe (length = K)
    col = [z3.Int(f"c{k}") for k in range(n)]
    for v in col: s.add(v >= -R, v <= R)
    M = numpy.zeros((n, 2), dtype=object)
    for k in range(n): M[k,1] = col[k]
    old = numpy.empty(K, dtype=object); oldp = [z3.Real(f"o{j}") for j in range(K)]
    lo, hi = z3.Int("lo"), z3.Int("hi"); s.add(0 <= lo, lo <= hi, hi < K)
    for j in range(K):
        s.add(oldp[j] >= 0, z3.Implies(z3.Or(j < lo, j > hi), oldp[j] == 0)); old[j] = SLog(oldp[j])
    cmin = col[0]; cmax = col[0]
    for v in col[1:]: cmin = z3.If(v < cmin, v, cmin); cmax = z3.If(v > cmax, v, cmax)
    s.add(lo + cmin >= 0, hi + cmax < K)
    new = numpy.empty(K, dtype=object)
    for j in range(K): new[j] = SLog(z3.Real(f"junk{j}"))
    logaddexp2 = lambda a, b: SLog(z3.simplify(a.p + b.p))      # verified summary of the callee
    it.globals['logaddexp2'] = logaddexp2
    env = dict(i=1, l=2, n=n, largest=largest, smallest=smallest, logpdf=Arr(new,'logpdf',it.errs), old_logpdf=Arr(old,'old_logpdf',it.errs),
               int_log_pwm=Arr(M,'int_log_pwm',it.errs), log_bg=SLog(z3.RealVal(1)/4))
    t0=time.time(); it.run_block(loop.body, env); t_int=time.time()-t0
    q = z3.RealVal(1)/4
    def sel(i):
        r = z3.RealVal(0)
        for kk in range(K): r = z3.If(i == kk, oldp[kk], r)
        return r
    res=[]; t0=time.time()
    for c in range(K):
        ref = z3.Sum([q*sel(c - col[k]) for k in range(n)])
        t1=time.time(); r1 = s.check(old[c].p != ref); r2 = s.check(new[c].p != ref); res.append((str(r1), str(r2), round(time.time()-t1,2)))
    oob = [(msg, str(s.check(g))) for g,msg in it.errs if g is not False and is_sym(g)]
    oob = [o for o in oob if o[1] != 'unsat']
    return dict(interp_s=round(t_int,2), cells=res, oob=oob[:2], n_err_obl=len(it.errs))
print(run(1, 6)); print(run(2, 10))
