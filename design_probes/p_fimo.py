import z3, time, itertools
def sel(arr, i):
    r = arr[-1]
    for k in range(len(arr)-2, -1, -1): r = z3.If(i == k, arr[k], r)
    return r
def zmin(a,b): return z3.If(a<b,a,b)
def zmax(a,b): return z3.If(a>b,a,b)
def build(n, l, R, mutant=False):
    s = z3.Solver()
    M = [[z3.Int(f"m{j}_{i}") for i in range(l)] for j in range(n)]
    for row in M:
        for v in row: s.add(v>=-R, v<=R)
    smallest, largest = z3.IntVal(9999999), z3.IntVal(-9999999)
    mn, mx = z3.IntVal(0), z3.IntVal(0)
    for i in range(l):
        cmin, cmax = z3.IntVal(9999999), z3.IntVal(-9999999)
        for j in range(n):
            cmin = zmin(cmin, M[j][i]); cmax = zmax(cmax, M[j][i])
        mn = mn + cmin; mx = mx + cmax
        smallest = zmin(smallest, mn); largest = zmax(largest, mx)
    largest = largest + l
    length = largest - smallest + 1
    K = 2*R*l + l + 1 + R   # static max
    # probabilities in linear domain (SLog algebra): p cells
    old = [z3.RealVal(0)]*K
    errs = []
    q = z3.RealVal(1)/4
    for j in range(n):
        idx = M[j][0] - smallest
        errs.append(z3.Or(idx < 0, idx >= length))
        old = [z3.If(idx == k, old[k] + q, old[k]) for k in range(K)]
    for i in range(1, l):
        new = [z3.RealVal(0)]*K
        for j in range(K):
            x = old[j]
            g = z3.And(j < length, x != 0)
            for k in range(n):
                idx = j + M[k][i]
                errs.append(z3.And(g, z3.Or(idx < 0, idx >= length)))
                new = [z3.If(z3.And(g, idx == c), new[c] + q*x, new[c]) for c in range(K)]
        old = new
    pdf = old
    # reverse cumsum for i in range(len-2,-1,-1)
    tab = list(pdf)
    for i in range(K-2, -1, -1):
        g = i <= length - 2
        tab[i] = z3.If(g, tab[i] + tab[i+1], tab[i])
    if mutant:  # off by one in cumsum start
        tab = list(pdf)
        for i in range(K-2, -1, -1):
            g = i <= length - 3
            tab[i] = z3.If(g, tab[i] + tab[i+1], tab[i])
    # reference
    ref = []
    for c in range(K):
        tot = z3.Sum([z3.If(z3.Sum([M[sq[i]][i] for i in range(l)]) - smallest >= c, 1, 0) for sq in itertools.product(range(n), repeat=l)])
        ref.append(z3.ToReal(tot) / (n**l))
    return s, M, length, tab, ref, errs, K
for (n,l,R) in [(2,2,1),(4,2,1),(4,2,2),(4,3,1),(4,3,2)]:
    t=time.time()
    s, M, length, tab, ref, errs, K = build(n,l,R)
    s.set("timeout", 120000)
    r_oob = s.check(z3.Or(errs)); t1=time.time()-t
    bad = z3.Or([z3.And(c < length, tab[c] != ref[c]) for c in range(K)])
    r = s.check(bad)
    print((n,l,R), "K",K, "oob:", r_oob, round(t1,2), "table:", r, round(time.time()-t,2), flush=True)
s, M, length, tab, ref, errs, K = build(4,2,1, mutant=True)
t=time.time(); r = s.check(z3.Or([z3.And(c < length, tab[c] != ref[c]) for c in range(K)])); print("mutant", r, round(time.time()-t,2))
