import time, types, numpy as np, z3
from symex import *
from symex import _zn
import shim
from shim import T
log = []
class Rec:
    def __init__(s, kind, chrom): s.kind=kind; s.chrom=chrom
class Genome:
    def __init__(s, chrom, length): s.chrom=chrom; s.shape=(4, length)
    def __getitem__(s, k):
        _, sl = k; log.append(("seq", s.chrom, sl.start, sl.stop)); return Rec("seq", s.chrom)
class Signal:
    def __init__(s, chrom): s.chrom=chrom
    def __getitem__(s, sl): log.append(("sig", s.chrom, sl.start, sl.stop)); return SigVal(s.chrom, sl.start, sl.stop)
class SigVal:
    def __init__(s, c, a, b): s.c=c; s.a=a; s.b=b
    def sum(s):
        F = z3.Function("sigsum", z3.IntSort(), z3.IntSort(), z3.RealSort()); return SNum(F(_zn(s.a), _zn(s.b)))
np_shim = shim.SHIMS["numpy"]
np_shim.nan_to_num = lambda v: v
np_shim.stack = lambda xs: list(xs)
np_shim.ndarray = Signal
shim.SHIMS["torch"].from_numpy = lambda x: x
tq = types.ModuleType("tqdm"); tq.tqdm = lambda x, **k: x
shim.SHIMS["tqdm"] = tq
io = shim.load("io")
def smax(a,b):
    if isinstance(a,SVal) or isinstance(b,SVal): return ite(SBool(_zn(a) > _zn(b)), a, b)
    return max(a,b)
io.__dict__['__builtins__']['max'] = smax
class Loci:
    def __init__(s, rows): s.values = rows
def run(nloci, with_signal):
    st = dict(paths=0, bad=0, kept=[])
    def body(ctx):
        log.clear()
        inw, outw, jit, clen = [z3.Int(n) for n in ("inw","outw","jit","clen")]
        ctx.assume(z3.And(inw>=1, outw>=1, jit>=0, clen>=1))
        rows=[]
        for i in range(nloci):
            a,b = z3.Int(f"s{i}"), z3.Int(f"e{i}"); ctx.assume(z3.And(0<=a, a<=b)); rows.append(("c", SNum(a), SNum(b)))
        io._interleave_loci = lambda loci, chroms: Loci(rows)
        seqs = {"c": Genome("c", SNum(clen))}
        sig = [{"c": Signal("c")}] if with_signal else None
        try:
            out = io.extract_loci(None, seqs, signals=sig, in_window=SNum(inw), out_window=SNum(outw), max_jitter=SNum(jit))
        except Exception as e:
            st['bad'] += 1; print("EXC", type(e).__name__, e); return
        st['paths'] += 1
        # oracle: for each locus in order
        seqreq = [l for l in log if l[0]=="seq"]; sigreq = [l for l in log if l[0]=="sig"]
        k = 0; neg = []
        for (c, a, b) in rows:
            a, b = _zn(a), _zn(b)
            mid = a + (b-a)/2
            w = z3.If(z3.BoolVal(with_signal), z3.If(outw/2 > inw/2, outw/2, inw/2), inw/2)
            dropped = z3.Or(mid - w - jit < 0, mid + w + jit >= clen)
            if k < len(seqreq):
                _, _, s0, s1 = seqreq[k]
                match = z3.And(_zn(s0) == mid - inw/2 - jit, _zn(s1) == mid + inw/2 + jit + inw%2, _zn(s1)-_zn(s0) == inw + 2*jit, _zn(s0) >= 0, _zn(s1) <= clen)
                if with_signal:
                    _, _, g0, g1 = sigreq[k]
                    match = z3.And(match, _zn(g0) == mid - outw/2 - jit, _zn(g1)-_zn(g0) == outw + 2*jit, _zn(g0) >= 0, _zn(g1) <= clen)
            else:
                match = z3.BoolVal(False)
            # on this path either the locus is dropped (and request k is not for it) or kept and request k matches
            r_keep = ctx.check(z3.Not(dropped)) == z3.sat
            r_drop = ctx.check(dropped) == z3.sat
            if r_keep and r_drop: st['bad'] += 1; print("path does not decide drop/keep"); return
            if r_keep:
                if ctx.check(z3.Not(match)) != z3.unsat: st['bad'] += 1; print("window mismatch", ctx.solver.model()); return
                k += 1
        if k != len(seqreq): st['bad'] += 1; print("extra requests")
        st['kept'].append(k)
    t=time.time(); r = explore(body); return r, dict(paths=st['paths'], bad=st['bad'], kept=sorted(set(st['kept']))), round(time.time()-t,2)
print(run(1, False)); print(run(2, False)); print(run(2, True))
