import torch, numpy, warnings, sys
warnings.filterwarnings("ignore")
from tangermeme.utils import one_hot_encode, characters, chunk, unchunk
from tangermeme.variant_effect import deletion_effect
from tangermeme.predict import predict
from tangermeme.ism import saturation_mutagenesis
from tangermeme.annotate import pairwise_annotations_spacing
class Id(torch.nn.Module):
    def forward(self, X): return X
class Two(torch.nn.Module):
    def forward(self, X):
        w = torch.arange(X.shape[1]*X.shape[2]).reshape(1, X.shape[1], X.shape[2]).float()
        return (X*w).sum(dim=(1,2))[:,None], (X*w*w).sum(dim=(1,2))[:,None]
X = one_hot_encode("ACGTAC").unsqueeze(0).float()
# C10
yb, ya = deletion_effect(Id(), X, torch.tensor([[0,5]]), device='cpu')
print("C10 del last:", characters(yb[0]), characters(ya[0]))
yb, ya = deletion_effect(Id(), X, torch.tensor([[0,0]]), left=True, device='cpu')
print("C10 del first left:", characters(yb[0]), characters(ya[0]))
# C09
y0, yh = saturation_mutagenesis(Two(), X, raw_outputs=True, device='cpu')
m = Two()
ok = True
for c in range(4):
    for p in range(6):
        Xm = X.clone(); Xm[0,:,p]=0; Xm[0,c,p]=1
        e = m(Xm)
        if abs(yh[0][0,c,p,0]-e[0][0,0])>1e-4 or abs(yh[1][0,c,p,0]-e[1][0,0])>1e-4: ok=False
print("C09 tuple-output index ok:", ok, yh[0].shape)
# C15
x = torch.arange(10).float().reshape(1,10)
c = chunk([x], size=10, overlap=3); print("C15 chunks", c.shape, unchunk(c, lengths=[10], overlap=3)[0].shape)
# C18
A = torch.tensor([[0,0,0,5],[0,1,3,8]])
print("C18 overlap:", pairwise_annotations_spacing(A, max_distance=4, dtype=torch.int64)[0,1])
try:
    A = torch.tensor([[0,0,0,5],[0,1,9,12]]); print(pairwise_annotations_spacing(A, max_distance=4, dtype=torch.int64)[0,1])
except Exception as e: print("C18 d==max:", type(e).__name__, e)
