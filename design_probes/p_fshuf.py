import z3, numpy, time, itertools, collections
from engb import *
def run(seq, A, n_shuffles=1):
    it = Interp('/repo/tangermeme/ersatz.py', '_fast_shuffle'); s = z3.Solver(); it.solver = s
    L = len(seq)
    idxs = numpy.array(list(seq), dtype=object)
    next_idxs = numpy.zeros((A, L), dtype=object); counts = numpy.zeros(A, dtype=object)
    for ch in range(A):
        pos = [i+1 for i in range(L-1) if seq[i]==ch]
        next_idxs[ch, :len(pos)] = pos; counts[ch] = len(pos)
    counters = numpy.zeros((n_shuffles, A), dtype=object)
    out = numpy.zeros((n_shuffles, A, L), dtype=object)
    Ar = lambda a,n: Arr(a,n,it.errs)
    t0=time.time()
    it.call(n_shuffles, A, Ar(idxs,'idxs'), Ar(next_idxs,'next_idxs'), Ar(counts,'counts'), Ar(counters,'counters'), Ar(out,'out'), 0)
    t_int=time.time()-t0
    want = collections.Counter(zip(seq[:-1], seq[1:]))
    res=[]
    for i in range(n_shuffles):
        onehot = z3.And([z3.Sum([zv(out[i,c,j]) for c in range(A)]) == 1 for j in range(L)] + [z3.Or(zv(out[i,c,j])==0, zv(out[i,c,j])==1) for c in range(A) for j in range(L)])
        pairs = z3.And([z3.Sum([z3.If(z3.And(zv(out[i,a,j])==1, zv(out[i,b,j+1])==1),1,0) for j in range(L-1)]) == want.get((a,b),0) for a in range(A) for b in range(A)])
        ends = z3.And(zv(out[i,seq[0],0])==1, zv(out[i,seq[-1],L-1])==1)
        t0=time.time(); r = s.check(z3.Not(z3.And(onehot, pairs, ends))); res.append((str(r), round(time.time()-t0,2)))
    oob = [msg for g,msg in it.errs if g is not False and (s.check(g) if is_sym(g) else z3.sat) != z3.unsat]
    return dict(interp_s=round(t_int,2), res=res, oob=oob[:2])
print(run((0,1,0,2,0,1,1,0), 3, 2))
print(run((0,1,2,3,0,1,2,3,1,0), 4, 1))
print(run((0,0,0,0), 2, 1))
import random; rnd=random.Random(0); t=time.time(); bad=0
for _ in range(30):
    seq = tuple(rnd.randrange(3) for _ in range(7)); r = run(seq, 3, 1)
    if r['res'][0][0] != 'unsat' or r['oob']: bad+=1
print("30 random seqs L=7 A=3: bad", bad, round(time.time()-t,1))
