"""Prototype: re-execution based symbolic executor over z3 (throwaway feasibility probe)."""
import z3, time

class PathAbort(BaseException):
    pass

class Ctx:
    cur = None
    def __init__(self, prefix):
        self.prefix = list(prefix)      # list of bools to replay
        self.decisions = []             # (taken, alt_feasible)
        self.solver = z3.Solver()
        self.pcs = []
        self.nq = 0
    def assume(self, c):
        self.solver.add(c); self.pcs.append(c)
    def check(self, *extra):
        self.nq += 1
        return self.solver.check(*extra)
    def branch(self, cond):
        cond = z3.simplify(cond)
        if z3.is_true(cond): return True
        if z3.is_false(cond): return False
        i = len(self.decisions)
        if i < len(self.prefix):
            taken = self.prefix[i]
            # alt feasibility already known (we only flip to feasible alts)
            self.decisions.append((taken, None))
        else:
            t = self.check(cond) == z3.sat
            f = self.check(z3.Not(cond)) == z3.sat
            if t and f:
                taken = True; self.decisions.append((True, True))
            elif t:
                taken = True; self.decisions.append((True, False))
            elif f:
                taken = False; self.decisions.append((False, False))
            else:
                raise PathAbort("infeasible path")
        self.assume(cond if taken else z3.Not(cond))
        return taken

def explore(fn, max_paths=100000):
    """Run fn() under every feasible path. fn returns nothing; uses Ctx.cur."""
    prefix = []
    npaths = 0; nq = 0
    stack_known = []  # decisions with alt info for the current prefix
    while True:
        ctx = Ctx(prefix); Ctx.cur = ctx
        # carry alt info for replayed part
        try:
            fn(ctx)
        except PathAbort:
            pass
        npaths += 1; nq += ctx.nq
        # merge alt info
        dec = []
        for i, (taken, alt) in enumerate(ctx.decisions):
            if alt is None:
                alt = stack_known[i][1]
            dec.append((taken, alt))
        # find last decision with untried alt
        while dec and not dec[-1][1]:
            dec.pop()
        if not dec or npaths >= max_paths:
            return npaths, nq
        taken, _ = dec.pop()
        dec.append((not taken, False))
        stack_known = dec
        prefix = [d[0] for d in dec]

def _z(x):
    return x.z if isinstance(x, SVal) else x

class SVal:
    pass

class SBool(SVal):
    def __init__(self, z): self.z = z
    def __bool__(self): return Ctx.cur.branch(self.z)
    def __and__(self, o): return SBool(z3.And(self.z, _zb(o)))
    def __or__(self, o): return SBool(z3.Or(self.z, _zb(o)))
    __rand__ = __and__; __ror__ = __or__
    def __invert__(self): return SBool(z3.Not(self.z))

def _zb(o):
    if isinstance(o, SBool): return o.z
    return z3.BoolVal(bool(o))

class SNum(SVal):
    def __init__(self, z): self.z = z
    def _w(self, z): return SNum(z)
    def __add__(self, o): return self._w(self.z + _z(o))
    __radd__ = __add__
    def __sub__(self, o): return self._w(self.z - _z(o))
    def __rsub__(self, o): return self._w(_z(o) - self.z)
    def __mul__(self, o): return self._w(self.z * _z(o))
    __rmul__ = __mul__
    def __neg__(self): return self._w(-self.z)
    def __floordiv__(self, o): return self._w(self.z / _z(o))  # z3 Int div: floor for positive divisor
    def __mod__(self, o): return self._w(self.z % _z(o))
    def __lt__(self, o): return SBool(self.z < _z(o))
    def __le__(self, o): return SBool(self.z <= _z(o))
    def __gt__(self, o): return SBool(self.z > _z(o))
    def __ge__(self, o): return SBool(self.z >= _z(o))
    def __eq__(self, o): return SBool(self.z == _z(o))
    def __ne__(self, o): return SBool(self.z != _z(o))
    __hash__ = None
    def __index__(self):
        ctx = Ctx.cur
        while True:
            if ctx.check() != z3.sat: raise PathAbort()
            v = ctx.solver.model().eval(self.z, model_completion=True)
            if ctx.branch(self.z == v):
                return v.as_long()
    __int__ = __index__

def ite(c, a, b):
    if isinstance(c, SBool):
        return SNum(z3.If(c.z, _zn(a), _zn(b)))
    return a if c else b

def _zn(a):
    if isinstance(a, SVal): return a.z
    if isinstance(a, bool): return z3.IntVal(int(a))
    if isinstance(a, int): return z3.IntVal(a)
    return z3.RealVal(a)
