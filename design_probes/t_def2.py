import torch, numpy, warnings, sys, tempfile, os
warnings.filterwarnings("ignore")
from tangermeme.utils import one_hot_encode, characters
from tangermeme.tools.fimo import fimo
from tangermeme.io import read_meme
from tangermeme.seqlet import recursive_seqlets
from tangermeme.design import greedy_substitution
pwm = torch.tensor([[0.97,0.01,0.01,0.01],[0.01,0.97,0.01,0.01],[0.01,0.01,0.97,0.01]]).T.double()
X = one_hot_encode("TTTTTACG").unsqueeze(0)
h = fimo({"m":pwm}, X, threshold=0.05, reverse_complement=False)[0]; print("C12 motif at end:", len(h))
X = one_hot_encode("TTTTACGT").unsqueeze(0)
h = fimo({"m":pwm}, X, threshold=0.05, reverse_complement=False)[0]; print("C12 motif one before end:", len(h), h[['start','end','score','p-value']].values.tolist())
# C16
txt = "MEME version 4\n\nALPHABET= ACGT\n\nMOTIF a\nletter-probability matrix: alength= 4 w= 2 nsites= 1 E= 0\n0.1 0.2 0.3 0.4\n0.4 0.3 0.2 0.1\nMOTIF b\nletter-probability matrix: alength= 4 w= 1 nsites= 1 E= 0\n0.25 0.25 0.25 0.25\n"
p = tempfile.mktemp(); open(p,"w").write(txt); print("C16 read_meme keys:", list(read_meme(p).keys())); os.unlink(p)
# C19
torch.manual_seed(0)
Xa = torch.randn(1, 200)*0.01; Xa[0, 1:6] = 5.0
s = recursive_seqlets(Xa, additional_flanks=2, min_seqlet_len=3, max_seqlet_len=8)
print("C19:", s.head(3).values.tolist(), "true sum", [Xa[0, int(a):int(b)].sum().item() for _,a,b,_,_ in s.head(3).values])
# C20
class M(torch.nn.Module):
    def forward(self, X): return X[:, 1, -1:].float()*10 + X[:,1,:].sum(dim=-1, keepdims=True).float()
X = one_hot_encode("AAAAAA").unsqueeze(0)
Y = greedy_substitution(M(), X, ["C"], torch.tensor([[11.0]]), max_iter=1, device='cpu', tol=0)
print("C20:", characters(Y[0]))
