import z3, time, random
from fractions import Fraction
R=z3.Real
def q(H, A, L, concrete_w=True, named_dz=True):
    rnd=random.Random(1); s=z3.Solver(); s.set("timeout",60000)
    n=A*L
    xc=[z3.Int(f"xc{p}") for p in range(L)]; rc=[z3.Int(f"rc{p}") for p in range(L)]
    for v in xc+rc: s.add(v>=0,v<A)
    x=[z3.If(xc[p]==c,z3.RealVal(1),z3.RealVal(0)) for c in range(A) for p in range(L)]
    r=[z3.If(rc[p]==c,z3.RealVal(1),z3.RealVal(0)) for c in range(A) for p in range(L)]
    W=lambda nm: z3.RealVal(Fraction(rnd.randint(-5,5),rnd.randint(1,4))) if concrete_w else R(nm)
    W1=[[W(f"w{h}_{j}") for j in range(n)] for h in range(H)]; W2=[W(f"v{h}") for h in range(H)]
    dzexpr=[z3.Sum([W1[h][j]*(x[j]-r[j]) for j in range(n)]) for h in range(H)]
    dz=[R(f"dz{h}") for h in range(H)]
    for h in range(H): s.add(dz[h]==dzexpr[h])
    do=[R(f"do{h}") for h in range(H)]   # act(zx)-act(zr), abstract
    m=[R(f"m{h}") for h in range(H)]     # cut variables: new grad after hook
    for h in range(H):
        s.add(m[h]*dz[h]==W2[h]*do[h])     # lemma fact (proved elementwise on the real _nonlinear)
    mult=[z3.Sum([W1[h][j]*m[h] for h in range(H)]) for j in range(n)]
    lhs=z3.Sum([(x[j]-r[j])*mult[j] for j in range(n)])
    rhs=z3.Sum([W2[h]*do[h] for h in range(H)])
    s.add(lhs!=rhs)
    return s
for (H,A,L) in [(2,4,3),(3,4,4),(4,4,4),(6,4,5)]:
    for cw in (True, False):
        s=q(H,A,L,cw); t=time.time(); r=s.check(); print((H,A,L),"concrete_w" if cw else "symbolic_w", r, round(time.time()-t,2), flush=True)
