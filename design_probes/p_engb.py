import z3, numpy, time, itertools
from engb import *
def run(T_lens, nq, offset, G=3, n_len=None, assume_pos=True):
    it = Interp('/repo/tangermeme/tools/tomtom.py', '_p_values')
    max_nt = sum(T_lens); Tmax = max(T_lens)
    n_len = n_len or (nq*(G+offset)+2)
    s = z3.Solver()
    ga = numpy.empty((max_nt, nq), dtype=object)
    for i in numpy.ndindex(*ga.shape):
        ga[i] = z3.Int(f"g_{i[0]}_{i[1]}"); s.add(ga[i] >= -offset, ga[i] <= G)
    Bc = numpy.empty((Tmax+1, n_len), dtype=object)
    for i in numpy.ndindex(*Bc.shape): Bc[i] = z3.Real(f"B_{i[0]}_{i[1]}")
    rr = numpy.arange(max_nt).astype(object)
    res = numpy.empty((len(T_lens), 5), dtype=object)
    for i in numpy.ndindex(*res.shape): res[i] = z3.Real(f"stale_{i[0]}_{i[1]}")
    A = lambda a, n: Arr(a, n, it.errs)
    t0 = time.time()
    it.call(A(ga,'gamma'), A(Bc,'B_cdfs'), A(rr,'rr_inv'), list(T_lens), -1, nq, offset, A(res,'results'))
    t_int = time.time()-t0
    # oracle
    out = []
    tot = 0
    for i, nt in enumerate(T_lens):
        ts = []
        for k in range(nt+nq-1):
            terms = [ga[tot+kk, k-kk] for kk in range(nt) if 0 <= k-kk < nq]
            ts.append(z3.IntVal(nq*offset) + z3.Sum(terms))
        best = ts[0]
        for t in ts[1:]: best = z3.If(t > best, t, best)
        ov = [min(k+1, nq) - max(0, k-nt+1) for k in range(len(ts))]
        # chosen k: maximiser with largest overlap, earliest
        chosen = z3.IntVal(-1)
        for k in reversed(range(len(ts))):
            better_or_equal_exists_before = z3.Or([z3.And(ts[j]==best, ov[j] >= ov[k]) for j in range(k)] + [z3.BoolVal(False)])
            better_exists_after = z3.Or([z3.And(ts[j]==best, ov[j] > ov[k]) for j in range(k+1, len(ts))] + [z3.BoolVal(False)])
            chosen = z3.If(z3.And(ts[k]==best, z3.Not(better_or_equal_exists_before), z3.Not(better_exists_after)), k, chosen)
        out.append((nt, ts, best, ov, chosen))
        tot += nt
    # obligations
    t0=time.time(); nqr=0; bad=[]
    oob = [g for g,_ in it.errs if g is not False]
    for i,(nt,ts,best,ov,chosen) in enumerate(out):
        pre = best >= 1
        s.push(); s.add(pre)
        def sel(lst, idx):
            r = zv(lst[-1])
            for k in range(len(lst)-2,-1,-1): r = z3.If(idx==k, zv(lst[k]), r)
            return r
        exp_p = None
        for sc in range(1, n_len+1):
            exp_p = Bc[nt, sc-1] if exp_p is None else z3.If(best==sc, Bc[nt, sc-1], exp_p)
        attains = z3.Or([z3.And(ts[k]==best, zv(res[i,2]) == k-nq+1, zv(res[i,3]) == ov[k]) for k in range(len(ts))])
        stale = [z3.Real(f"stale_{i}_{c}") for c in range(5)]
        checks = [("score", zv(res[i,1]) != z3.ToReal(best)), ("attains", z3.Not(attains)), ("p", zv(res[i,0]) != exp_p)]
        for name, c in checks:
            r = s.check(c); nqr+=1
            if r != z3.unsat: bad.append((i,name,str(r)))
        s.pop()
    # OOB
    for g,msg in it.errs:
        if g is False: continue
        r = s.check(g if g is not True else z3.BoolVal(True)); nqr+=1
        if r != z3.unsat: bad.append(("err", msg, str(r)))
    # stale dependence when best == 0
    return dict(interp_s=round(t_int,2), solve_s=round(time.time()-t0,2), queries=nqr, bad=bad[:6], nerrs=len(it.errs))
for cfg in [((2,),2,1),((1,3),2,1),((3,2),3,1),((4,),3,2),((2,5),3,1)]:
    print(cfg, run(*cfg), flush=True)
