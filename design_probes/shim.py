"""Prototype shim: torch/numpy facades over numpy object arrays + source loader."""
import builtins, types, sys, os
import numpy as np
import z3
from symex import SVal, SNum, SBool, Ctx, ite, _zn, PathAbort

REPO = os.environ.get("REPO", "/repo")

class T:
    """Tensor/ndarray shim. self.a is a numpy object ndarray (or concrete-number ndarray)."""
    def __init__(self, a):
        if isinstance(a, T): a = a.a
        if not isinstance(a, np.ndarray): a = np.array(a, dtype=object)
        if a.dtype != object: a = a.astype(object)
        self.a = a
    @property
    def shape(self): return tuple(self.a.shape)
    @property
    def ndim(self): return self.a.ndim
    def __len__(self): return self.a.shape[0]
    def _idx(self, k):
        if isinstance(k, T): return k.a.astype(int) if all(not isinstance(x, SVal) for x in k.a.flat) else k
        if isinstance(k, tuple): return tuple(self._idx(x) for x in k)
        if isinstance(k, slice):
            f = lambda v: v.__index__() if isinstance(v, SNum) else v
            return slice(f(k.start), f(k.stop), f(k.step))
        if isinstance(k, SNum): return k.__index__()
        return k
    def __getitem__(self, k):
        r = self.a[self._idx(k)]
        return T(r) if isinstance(r, np.ndarray) else r
    def __setitem__(self, k, v):
        if isinstance(v, T): v = v.a
        self.a[self._idx(k)] = v
    def clone(self): return T(self.a.copy())
    def repeat(self, *reps):
        if len(reps) == 1 and isinstance(reps[0], (tuple, list)): reps = tuple(reps[0])
        return T(np.tile(self.a, reps))
    def unsqueeze(self, d): return T(np.expand_dims(self.a, d))
    def permute(self, *d): return T(np.transpose(self.a, d))
    def reshape(self, *s):
        if len(s) == 1 and isinstance(s[0], (tuple, list)): s = tuple(s[0])
        return T(self.a.reshape(s))
    def type(self, dt): return self
    def to(self, *a, **k): return self
    def cpu(self): return self
    def sum(self, axis=None, dim=None, **kw):
        ax = axis if axis is not None else dim
        r = self.a.sum(axis=ax)
        return T(r) if isinstance(r, np.ndarray) else r
    def __add__(self, o): return T(self.a + (o.a if isinstance(o, T) else o))
    def __sub__(self, o): return T(self.a - (o.a if isinstance(o, T) else o))
    def __mul__(self, o): return T(self.a * (o.a if isinstance(o, T) else o))
    def __eq__(self, o):
        o = o.a if isinstance(o, T) else o
        return T(np.frompyfunc(lambda x, y: x == y, 2, 1)(self.a, o))
    __hash__ = None

def _mk_torch():
    m = types.ModuleType("torch")
    m.Tensor = T
    m.clone = lambda x: x.clone()
    m.cat = lambda xs, dim=0, axis=None: T(np.concatenate([x.a for x in xs], axis=dim if axis is None else axis))
    m.stack = lambda xs, dim=0: T(np.stack([x.a for x in xs], axis=dim))
    m.int8 = "int8"; m.float32 = "float32"; m.int32 = "int32"; m.int64 = "int64"; m.bool = "bool"
    m.nn = types.SimpleNamespace()
    return m

def _mk_numpy():
    m = types.ModuleType("numpy")
    m.ndarray = T
    m.int8 = "int8"; m.int32 = "int32"; m.float32 = "float32"; m.int64 = "int64"
    m.random = types.SimpleNamespace(RandomState=object)
    return m

def _mk_numba():
    m = types.ModuleType("numba")
    def jit(*a, **k):
        if len(a) == 1 and callable(a[0]) and not k: return a[0]
        return lambda f: f
    m.jit = m.njit = jit
    m.prange = range
    return m

class _Stub(types.ModuleType):
    def __getattr__(self, n):
        if n.startswith("__"): raise AttributeError(n)
        return _Stub(self.__name__ + "." + n)

SHIMS = {}
LOADED = {}

def sym_min(*a, **k):
    if len(a) == 1: a = tuple(a[0])
    r = a[0]
    for x in a[1:]:
        if isinstance(x, SVal) or isinstance(r, SVal):
            r = ite(SBool(_zn(x) < _zn(r)), x, r)
        else:
            r = builtins.min(r, x)
    return r

def load(modname):
    """Load tangermeme.<modname> from REPO source with shimmed imports."""
    full = "tangermeme." + modname
    if full in LOADED: return LOADED[full]
    path = os.path.join(REPO, "tangermeme", *modname.split(".")) + ".py"
    src = open(path).read()
    mod = types.ModuleType("sym_" + full)
    mod.__file__ = path
    LOADED[full] = mod
    def imp(name, globals=None, locals=None, fromlist=(), level=0):
        if level > 0:
            base = modname.split(".")[:-level] if level > 1 else modname.split(".")[:-1]
            if name:
                target = ".".join(base + [name])
                return load(target)
            raise ImportError("from . import x unsupported")
        top = name.split(".")[0]
        if top in SHIMS:
            return SHIMS[top]
        if top in ("itertools", "math", "time", "warnings", "inspect", "typing"):
            return builtins.__import__(name, globals, locals, fromlist, level)
        return _Stub(name)
    b = dict(vars(builtins))
    b["__import__"] = imp
    b["min"] = sym_min
    mod.__dict__["__builtins__"] = b
    exec(compile(src, path, "exec"), mod.__dict__)
    return mod

SHIMS["torch"] = _mk_torch()
SHIMS["numpy"] = _mk_numpy()
SHIMS["numba"] = _mk_numba()
