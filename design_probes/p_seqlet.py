import ast, z3, numpy, time
from engb import *
def run(l, mn, mx, flanks, thr="1/20"):
    it = Interp('/repo/tangermeme/seqlet.py', '_recursive_seqlets')
    s = z3.Solver(); it.solver = s; it.max_unroll = l+2
    # slice: the For whose iter is range(max_seqlet_len - min_seqlet_len), inside `for i in range(n)`
    outer = [n for n in it.fn.body if isinstance(n, ast.For) and isinstance(n.target, ast.Name) and n.target.id=='i'][-1]
    inner = [n for n in outer.body if isinstance(n, ast.For) and ast.unparse(n.iter)=='range(max_seqlet_len - min_seqlet_len)'][0]
    X = [z3.Real(f"x{k}") for k in range(l)]
    cs = numpy.empty((1,l), dtype=object); acc = 0
    for k in range(l): acc = acc + X[k]; cs[0,k] = z3.simplify(acc)
    pv = numpy.empty((mx+1, l), dtype=object)
    for j in range(mx+1):
        for k in range(l):
            if mn <= j <= mx and 1 <= k < l-j:
                pv[j,k] = z3.Real(f"p_{j}_{k}"); s.add(pv[j,k] >= 0, pv[j,k] <= 1)
            else: pv[j,k] = 1
    seqlets = []
    env = dict(p_value=Arr(pv,'p_value',it.errs), X_csum=Arr(cs,'X_csum',it.errs), i=0, l=l, threshold=z3.RealVal(thr),
               min_seqlet_len=mn, max_seqlet_len=mx, additional_flanks=flanks, seqlets=seqlets)
    t0=time.time(); it.run_block([inner], env); t_int=time.time()-t0
    t0=time.time(); bad=[]; nq=0
    for (g, (ii, st, en, attr, p)) in seqlets:
        if g is False: continue
        gz = g if is_sym(g) else z3.BoolVal(True)
        st, en, attr, p = zv(st), zv(en), zv(attr), zv(p)
        # spec sum over [st,en)
        spec = z3.Sum([z3.If(z3.And(st <= k, k < en), X[k], 0) for k in range(l)])
        core_len = (en - st) if flanks == 0 else None
        obs = [("inside", z3.Not(z3.And(0 <= st, st < en, en <= l))), ("p<=thr", z3.Not(p <= z3.RealVal(thr))), ("attr", attr != spec)]
        if flanks == 0: obs.append(("len", z3.Not(z3.And(en-st >= mn, en-st <= mx))))
        for name, o in obs:
            r = s.check(gz, o); nq+=1
            if r != z3.unsat: bad.append((name, str(r), str(s.model().eval(st)) if r==z3.sat else '', str(s.model().eval(en)) if r==z3.sat else ''))
    errs=[]
    for g,msg in it.errs:
        if g is False: continue
        r = s.check(g) if is_sym(g) else z3.sat; nq+=1
        if r != z3.unsat: errs.append((msg, str(r)))
    return dict(interp_s=round(t_int,1), solve_s=round(time.time()-t0,1), seqlet_entries=len(seqlets), queries=nq, unrolls=it.unrolls, bad=bad[:4], errs=errs[:3])
for cfg in [(6,2,3,0),(7,2,4,0),(7,2,4,1),(8,2,4,2)]:
    print(cfg, run(*cfg), flush=True)
