import z3, time, itertools
R = z3.Real
def net(depth, width, A, L, concrete_w=False):
    s = z3.Solver()
    # inputs one-hot via chars
    xc = [z3.Int(f"xc{p}") for p in range(L)]; rc = [z3.Int(f"rc{p}") for p in range(L)]
    for v in xc+rc: s.add(v>=0, v<A)
    x = [z3.If(xc[p]==c, z3.RealVal(1), z3.RealVal(0)) for c in range(A) for p in range(L)]
    r = [z3.If(rc[p]==c, z3.RealVal(1), z3.RealVal(0)) for c in range(A) for p in range(L)]
    import random; rnd = random.Random(0)
    def W(name): return z3.RealVal(rnd.randint(-5,5))/z3.RealVal(rnd.randint(1,4)) if concrete_w else R(name)
    hx, hr = x, r
    layers = []
    n_in = len(x)
    for d in range(depth):
        Wm = [[W(f"w{d}_{i}_{j}") for j in range(n_in)] for i in range(width)]
        b = [W(f"b{d}_{i}") for i in range(width)]
        zx = [z3.Sum([Wm[i][j]*hx[j] for j in range(n_in)])+b[i] for i in range(width)]
        zr = [z3.Sum([Wm[i][j]*hr[j] for j in range(n_in)])+b[i] for i in range(width)]
        ax = [R(f"ax{d}_{i}") for i in range(width)]; ar = [R(f"ar{d}_{i}") for i in range(width)]
        gx = [R(f"gx{d}_{i}") for i in range(width)]  # ordinary derivative at x (unused branch)
        for i in range(width):
            s.add(z3.Implies(zx[i]==zr[i], ax[i]==ar[i]))
            dz = zx[i]-zr[i]
            s.add(z3.Or(dz==0, dz>=z3.RealVal("1e-6"), dz<=-z3.RealVal("1e-6")))
        layers.append((Wm, zx, zr, ax, ar, gx))
        hx, hr, n_in = ax, ar, width
    v = [W(f"v{i}") for i in range(width)]; c = W("c")
    yx = z3.Sum([v[i]*hx[i] for i in range(width)])+c
    yr = z3.Sum([v[i]*hr[i] for i in range(width)])+c
    # backward
    g = v
    for (Wm, zx, zr, ax, ar, gx) in reversed(layers):
        k = []
        for i in range(len(zx)):
            dz = zx[i]-zr[i]
            k.append(z3.If(z3.And(dz<z3.RealVal("1e-6"), dz>-z3.RealVal("1e-6")), g[i]*gx[i], g[i]*((ax[i]-ar[i])/dz)))
        g = [z3.Sum([Wm[i][j]*k[i] for i in range(len(zx))]) for j in range(len(Wm[0]))]
    attr = z3.Sum([(x[j]-r[j])*g[j] for j in range(len(x))])
    s.add(attr != yx - yr)
    return s
for cw in (True, False):
  for (depth,width,A,L) in [(1,1,2,2),(1,2,2,2),(1,2,4,3),(2,2,2,2),(2,2,4,3),(2,3,4,3)]:
    s = net(depth,width,A,L,cw); s.set("timeout", 60000)
    t=time.time(); r = s.check(); print("concrete_w" if cw else "symbolic_w", (depth,width,A,L), r, round(time.time()-t,2), flush=True)
import sys
