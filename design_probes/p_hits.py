import z3, numpy, time, itertools
from engb import *
def run(Ls, ws, T=6, bin_size="1/2"):
    it = Interp('/repo/tangermeme/tools/fimo.py', '_fast_hits')
    s = z3.Solver(); it.solver = s
    tot = sum(Ls); W = sum(ws); nm = len(ws)
    X = numpy.empty(tot, dtype=object)
    for i in range(tot): X[i] = z3.Int(f"c{i}"); s.add(X[i] >= -1, X[i] <= 3)
    pwm = numpy.empty((4, W), dtype=object)
    for i in numpy.ndindex(4, W): pwm[i] = z3.Real(f"w{i[0]}_{i[1]}")
    chrom_lengths = numpy.array([0]+list(numpy.cumsum(Ls)), dtype=object)
    pwm_lengths = numpy.array([0]+list(numpy.cumsum(ws)), dtype=object)
    thr = numpy.array([z3.Real(f"thr{k}") for k in range(nm)], dtype=object)
    smallest = numpy.array([z3.Int(f"sm{k}") for k in range(nm)], dtype=object)
    tabs = numpy.array([z3.Real(f"t{j}") for j in range(T*nm)], dtype=object)
    tab_lengths = numpy.array([T*k for k in range(nm+1)], dtype=object)
    bs = z3.RealVal(bin_size)
    A = lambda a, n: Arr(a, n, it.errs)
    t0=time.time()
    env = it.call(A(X,'X'), A(chrom_lengths,'chrom_lengths'), A(pwm,'pwm'), A(pwm_lengths,'pwm_lengths'), A(thr,'thr'), bs, A(smallest,'smallest'), A(tabs,'tabs'), A(tab_lengths,'tab_lengths'))
    hits = env['__return__']; t_int=time.time()-t0
    # oracle
    t0=time.time(); bad=[]; nq=0
    for k in range(nm):
        w = ws[k]; got = hits[k]
        for l, L in enumerate(Ls):
            base = sum(Ls[:l])
            for i in range(0, L-w+1):
                score = z3.Sum([z3.Sum([z3.If(X[base+i+j]==c, pwm[c, sum(ws[:k])+j], 0) for c in range(4)]) for j in range(w)])
                cond = score > thr[k]
                # there must be exactly one conditional entry for (l,i) whose guard == cond and fields right
                ents = [(g, v) for g, v in got if (not is_sym(v[0]) and int(v[0])==l and not is_sym(v[1]) and int(v[1])==i)]
                if len(ents) != 1:
                    bad.append(("missing-window", k, l, i, len(ents))); continue
                g, v = ents[0]
                gz = g if is_sym(g) else z3.BoolVal(bool(g))
                r = s.check(gz != cond); nq+=1
                if r != z3.unsat: bad.append(("guard", k,l,i,str(r)))
                r = s.check(gz, z3.Or(zv(v[3]) != score, zv(v[2]) != i+w)); nq+=1
                if r != z3.unsat: bad.append(("fields", k,l,i,str(r)))
        extra = [v for g,v in got if not (0 <= int(v[1]) <= Ls[int(v[0])]-w)]
        if extra: bad.append(("extra", k, len(extra)))
    # OOB obligations, assuming table index precondition (score within table range) is NOT assumed: report separately
    oob=[]
    for g,msg in it.errs:
        if g is False or 'tabs' in msg: continue
        r = s.check(g) if is_sym(g) else z3.sat; nq+=1
        if r != z3.unsat: oob.append(msg)
    return dict(interp_s=round(t_int,2), solve_s=round(time.time()-t0,2), queries=nq, entries=[len(h) for h in hits], bad=bad[:5], oob=oob[:3])
for cfg in [((3,),(2,)), ((4,1),(2,3)), ((5,2),(1,2))]:
    print(cfg, run(*cfg), flush=True)
