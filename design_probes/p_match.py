import time, z3, ast, textwrap
from symex import *
from symex import _zn
src = open('/repo/tangermeme/match.py').read()
tree = ast.parse(src)
fn = [n for n in tree.body if isinstance(n, ast.FunctionDef) and n.name=='extract_matching_loci'][0]
# slice: from "matched_loci_bin_count = numpy.minimum" to the for-loop after "n = len(loci_bin_count)"
stmts = fn.body
i0 = next(i for i,s in enumerate(stmts) if isinstance(s, ast.Assign) and getattr(s.targets[0],'id',None)=='matched_loci_bin_count')
i1 = next(i for i,s in enumerate(stmts) if i>i0 and isinstance(s, ast.For))
block = stmts[i0:i1+1]
f = ast.FunctionDef(name='blk', args=ast.arguments(posonlyargs=[], args=[ast.arg('bg_bin_count'), ast.arg('loci_bin_count')], kwonlyargs=[], kw_defaults=[], defaults=[]),
    body=block+[ast.Return(ast.Tuple([ast.Name('matched_loci_bin_count', ast.Load()), ast.Name('bg_bin_count', ast.Load()), ast.Name('loci_bin_count', ast.Load())], ast.Load()))], decorator_list=[], type_params=[])
mod = ast.Module([f], []); ast.fix_missing_locations(mod)
print(ast.unparse(mod)[:300])
def smin(a,b):
    if isinstance(a,SVal) or isinstance(b,SVal): return ite(SBool(_zn(a)<_zn(b)), a, b)
    return min(a,b)
class NP:
    @staticmethod
    def minimum(a,b): return L([smin(x,y) for x,y in zip(a,b)])
class L(list):
    def __isub__(self, o): return L([x-y for x,y in zip(self,o)])
    def copy(self): return L(self)
ns = {'numpy': NP, 'min': smin, 'len': len, 'range': range}
exec(compile(mod, 'slice', 'exec'), ns)
def run(n):
    st = dict(paths=0, bad=0)
    def body(ctx):
        bg = [z3.Int(f"bg{i}") for i in range(n)]; lc = [z3.Int(f"lc{i}") for i in range(n)]
        for v in bg+lc: ctx.assume(v>=0)
        m, bgr, lcr = ns['blk'](L([SNum(v) for v in bg]), L([SNum(v) for v in lc]))
        m = [_zn(x) for x in m]; bgr=[_zn(x) for x in bgr]; lcr=[_zn(x) for x in lcr]
        props = [z3.And([m[i] <= bg[i] for i in range(n)]),
                 z3.And([m[i] >= z3.If(bg[i]<lc[i], bg[i], lc[i]) for i in range(n)]),
                 z3.Sum(m) <= z3.Sum(lc),
                 z3.Implies(z3.Sum(lcr) > 0, z3.Sum(bgr) == 0)]
        st['paths']+=1
        for k,p in enumerate(props):
            if ctx.check(z3.Not(p)) != z3.unsat:
                st['bad']+=1
                if st['bad']<=2: print("  prop",k,"violated:", [ctx.solver.model().eval(v) for v in bg], [ctx.solver.model().eval(v) for v in lc])
                break
    t=time.time(); r = explore(body, max_paths=20000); return r, st, round(time.time()-t,1)
for n in (2,3,4):
    print(n, run(n), flush=True)
