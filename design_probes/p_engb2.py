import z3, numpy
from engb import *
it = Interp('/repo/tangermeme/tools/tomtom.py', '_p_values')
nq=1; offset=1; T_lens=[2]; G=3; n_len=10
s = z3.Solver()
ga = numpy.empty((2, nq), dtype=object)
for i in numpy.ndindex(*ga.shape):
    ga[i] = z3.Int(f"g_{i[0]}_{i[1]}"); s.add(ga[i] >= -offset, ga[i] <= G)
Bc = numpy.empty((3, n_len), dtype=object)
for i in numpy.ndindex(*Bc.shape): Bc[i] = z3.Real(f"B_{i[0]}_{i[1]}")
res = numpy.empty((1,5), dtype=object)
for i in numpy.ndindex(*res.shape): res[i] = z3.Real(f"stale_{i[0]}_{i[1]}")
A = lambda a, n: Arr(a, n, it.errs)
it.call(A(ga,'gamma'), A(Bc,'B_cdfs'), A(numpy.arange(2).astype(object),'rr'), T_lens, -1, nq, offset, A(res,'results'))
for g,msg in it.errs:
    r = s.check(g) if is_sym(g) else g
    print(msg, r, (s.model() if r==z3.sat else ''))
# dependence on stale: two copies differing only in stale values

