import z3, time, random
from fractions import Fraction
R=z3.Real
def q(Hs, A, L):
    rnd=random.Random(1); s=z3.Solver(); s.set("timeout",120000)
    n=A*L
    xc=[z3.Int(f"xc{p}") for p in range(L)]; rc=[z3.Int(f"rc{p}") for p in range(L)]
    for v in xc+rc: s.add(v>=0,v<A)
    x=[z3.If(xc[p]==c,z3.RealVal(1),z3.RealVal(0)) for c in range(A) for p in range(L)]
    r=[z3.If(rc[p]==c,z3.RealVal(1),z3.RealVal(0)) for c in range(A) for p in range(L)]
    W=lambda: z3.RealVal(Fraction(rnd.randint(-5,5),rnd.randint(1,4)))
    delta=[x[j]-r[j] for j in range(n)]   # delta of layer input
    Ws=[]; dzs=[]; dos=[]
    for li,H in enumerate(Hs):
        Wm=[[W() for _ in range(len(delta))] for _ in range(H)]
        dz=[R(f"dz{li}_{h}") for h in range(H)]
        for h in range(H): s.add(dz[h]==z3.Sum([Wm[h][j]*delta[j] for j in range(len(delta))]))
        do=[R(f"do{li}_{h}") for h in range(H)]
        Ws.append(Wm); dzs.append(dz); dos.append(do); delta=do
    Wout=[W() for _ in range(Hs[-1])]
    # backward with cuts
    g=Wout
    for li in reversed(range(len(Hs))):
        H=Hs[li]; m=[R(f"m{li}_{h}") for h in range(H)]
        for h in range(H): s.add(m[h]*dzs[li][h]==g[h]*dos[li][h])
        g=[z3.Sum([Ws[li][h][j]*m[h] for h in range(H)]) for j in range(len(Ws[li][0]))]
    lhs=z3.Sum([(x[j]-r[j])*g[j] for j in range(n)])
    rhs=z3.Sum([Wout[h]*dos[-1][h] for h in range(Hs[-1])])
    s.add(lhs!=rhs)
    return s
for Hs in [(2,2),(3,2),(3,3),(4,3),(3,3,2)]:
    s=q(Hs,4,4); t=time.time(); r=s.check(); print(Hs, r, round(time.time()-t,2), flush=True)
