#!/bin/bash
# Builds the only runtime dependency of the checks that /venv lacks: z3 (and crosshair) from the
# offline wheelhouse into /verif/.deps.  Idempotent, offline.
set -e
cd "$(dirname "$0")"
if [ ! -f .deps/.ok ]; then
  rm -rf .deps
  /venv/bin/pip install -q --no-index --find-links /opt/veriftools/wheels --target .deps z3-solver crosshair-tool >/dev/null 2>&1 \
    || /venv/bin/pip install --no-index --find-links /opt/veriftools/wheels --target .deps z3-solver crosshair-tool
  touch .deps/.ok
fi
